#!/venv/bin/python
"""Cross-property run of the behaviour-preserving changes: each change is also run through every OTHER check that has a function of a changed
file under contract (from the evidence files).  Writes neutral/CROSS.json.   usage: tools/run_neutral_cross.py [--jobs N] [--skip C12,...] [--list]"""
import argparse, glob, json, os, re, subprocess, time
from concurrent.futures import ThreadPoolExecutor
V = os.path.dirname(os.path.dirname(os.path.abspath(__file__)))
ap = argparse.ArgumentParser()
ap.add_argument("--jobs", type=int, default=3)
ap.add_argument("--skip", default="")
ap.add_argument("--list", action="store_true")
a = ap.parse_args()
skip = set(x for x in a.skip.split(",") if x)
files_of = {}
for f in glob.glob(os.path.join(V, "evidence", "C*.json")):
    e = json.load(open(f))
    files_of[e["property_id"]] = {v["path"] for v in e["coverage"].get("functions_under_contract", {}).values()}
pairs = []
for n in sorted(os.listdir(os.path.join(V, "neutral"))):
    p = os.path.join(V, "neutral", n, "patch.diff")
    if not os.path.isfile(p):
        continue
    changed = set(re.findall(r"^\+\+\+ b/(\S+)", open(p).read(), flags=re.M))
    for prop, files in sorted(files_of.items()):
        if prop != n[:3] and prop not in skip and changed & files:
            pairs.append((n, prop))
print(len(pairs), "pairs")
if a.list:
    for x in pairs:
        print(*x)
    raise SystemExit
rp = os.path.join(V, "neutral", "CROSS.json")
res = json.load(open(rp)) if os.path.exists(rp) else {}
pairs = [x for x in pairs if f"{x[0]}|{x[1]}" not in res]


def run(pair):
    n, prop = pair
    t0 = time.time()
    p = subprocess.run([os.path.join(V, "tools", "try_patch.sh"), os.path.join(V, "neutral", n, "patch.diff"), prop, "--tier", "quick"], capture_output=True, text=True, cwd=V)
    out = p.stdout + p.stderr
    m = re.search(r"^exit=(\d+)", out, flags=re.M)
    return pair, {"exit": int(m.group(1)) if m else None, "violations": re.findall(r"^VIOLATION property=\S+ replay=\S+ obligation=(\S+)", out, flags=re.M)[:8],
                  "undecided": re.findall(r"^UNDECIDED property=\S+ obligation=(\S+) reason=(.*)$", out, flags=re.M)[:6], "wall_s": round(time.time() - t0, 1)}


with ThreadPoolExecutor(max_workers=a.jobs) as ex:
    for (n, prop), r in ex.map(run, pairs):
        res[f"{n}|{prop}"] = r
        print(f"{n:52s} {prop} exit={r['exit']} viol={r['violations'][:2]} und={[u[0] for u in r['undecided']][:2]} {r['wall_s']}s", flush=True)
        json.dump(res, open(rp, "w"), indent=1, sort_keys=True)
bad = {k: v for k, v in res.items() if v["exit"] != 0}
print(f"{len(res) - len(bad)}/{len(res)} silent; not silent: {sorted(bad)}")
