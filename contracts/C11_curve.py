"""C11 -- the daily model curve is continuous, monotone and its load components add up.

Functions under contract: full_model (kernel, modular), and through DailyModel._predict_submodel the
transparent helpers get_full_model_x, fix_full_model_x, get_smooth_coeffs, ModelCoefficients.model_key /
to_np_array.
"""
from pyvc.api import *  # noqa
from contracts.spec_curve import *  # noqa

FULL_MODEL = "opendsm/eemeter/models/daily/base_models/full_model.py::full_model"
PS = repo("opendsm/eemeter/models/daily/model.py::DailyModel._predict_submodel")
MC = repo("opendsm/eemeter/models/daily/parameters.py::ModelCoefficients")
MT = repo("opendsm/eemeter/models/daily/parameters.py::ModelType")
DSP = repo("opendsm/eemeter/models/daily/parameters.py::DailySubmodelParameters")

CASES = [{"shape": s} for s in SHAPES]


@contract(FULL_MODEL, prop="C11", id="C11.contract[full_model]")
class full_model_contract:
    """full_model(...)[n] is the 7-parameter curve at T[n], for every n; nothing else is written."""

    @staticmethod
    def params(hdd_bp: Real, hdd_beta: Real, hdd_k: Real, cdd_bp: Real, cdd_beta: Real, cdd_k: Real,
               intercept: Real, T_fit_bnds: RealList(2), T: Vec):
        pass

    @staticmethod
    def requires(T_fit_bnds):
        return length(T_fit_bnds) == 2

    @staticmethod
    def returns(T):
        return fresh_vec("E_tot")

    @staticmethod
    def ensures(result, hdd_bp, hdd_beta, hdd_k, cdd_bp, cdd_beta, cdd_k, intercept, T_fit_bnds, T):
        return And(length(result) == length(T),
                   at(result) == curve7(hdd_bp, hdd_beta, hdd_k, cdd_bp, cdd_beta, cdd_k, intercept,
                                        T_fit_bnds[0], T_fit_bnds[1], at(T)))


def mk_submodel(shape, hdd_bp, hdd_beta, hdd_k, cdd_bp, cdd_beta, cdd_k, intercept, T_min, T_max, T_min_seg,
                T_max_seg, f_unc):
    """A DailySubmodelParameters object holding exactly the fields the shape stores."""
    heat = shape in ["hdd_tidd", "hdd_tidd_smooth", "hdd_tidd_cdd", "hdd_tidd_cdd_smooth"]
    cool = shape in ["tidd_cdd", "tidd_cdd_smooth", "hdd_tidd_cdd", "hdd_tidd_cdd_smooth"]
    smooth = shape in SMOOTH
    coeffs = MC(
        model_type=MT(shape),
        intercept=intercept,
        hdd_bp=hdd_bp if heat else None,
        hdd_beta=hdd_beta if heat else None,
        hdd_k=hdd_k if (heat and smooth) else None,
        cdd_bp=cdd_bp if cool else None,
        cdd_beta=cdd_beta if cool else None,
        cdd_k=cdd_k if (cool and smooth) else None,
    )
    return DSP(
        coefficients=coeffs,
        temperature_constraints={"T_min": T_min, "T_max": T_max, "T_min_seg": T_min_seg, "T_max_seg": T_max_seg},
        f_unc=f_unc,
    )


@harness("C11.point", prop="C11", cases=CASES)
def point(shape, hdd_bp: Real, hdd_beta: Real, hdd_k: Real, cdd_bp: Real, cdd_beta: Real, cdd_k: Real,
          intercept: Real, T_min: Real, T_max: Real, T_min_seg: Real, T_max_seg: Real, f_unc: Real, T: Vec):
    """Single-temperature claims: flat between the balance points, exact line when unsmoothed, loads."""
    assume(adm(shape, hdd_bp, hdd_beta, hdd_k, cdd_bp, cdd_beta, cdd_k, T_min, T_max, T_min_seg, T_max_seg))
    sub = mk_submodel(shape, hdd_bp, hdd_beta, hdd_k, cdd_bp, cdd_beta, cdd_k, intercept, T_min, T_max,
                      T_min_seg, T_max_seg, f_unc)
    r = PS(None, sub, T)
    E = at(r[0])
    t = at(T)
    hl = at(r[2])
    cl = at(r[3])
    corner = edge_corner(shape, hdd_bp, hdd_k, cdd_bp, cdd_k, T_min, T_max)
    drop = edge_drop(shape, hdd_bp, cdd_bp, T_min, T_max)
    # `loose` excludes both known classes (claims about the line / asymptote beyond a balance point whose slope
    # the read-back step removes); everything else is excluded only where it really fails on the pinned tree:
    # for the smoothed two-sided shape removing a side also re-derives the smoothing of the other side, so every
    # claim stated relative to the documented joints is in the class; for the unsmoothed one only the line claims.
    loose = Or(corner, drop)
    fid = "C11-edge"
    fid_loose = "C11-edge+C11-edge-drop"
    if shape == "hdd_tidd_cdd_smooth":
        corner = loose
        fid = fid_loose
    [bph, kh, bpc, kc] = eff_points(shape, hdd_bp, hdd_k, cdd_bp, cdd_k)
    bh = heating_slope(shape, hdd_beta)
    bc = cooling_slope(shape, cdd_beta)
    above_h = True if bph is None else t >= bph
    below_c = True if bpc is None else t <= bpc
    check("C11.flat", implies(And(above_h, below_c), E == intercept), finding=fid, unless=corner)
    if bph is not None:
        if shape in SMOOTH:
            line = intercept + bh * (bph - kh - t)
            # beyond the balance point the curve lies above the straight line with the fitted slope through
            # (bp - k, base load), by at most slope*k; it is ON the line when no smoothing is in effect
            check("C11.asymptote.heat", implies(t < bph, And(E >= line, E - line <= bh * kh, implies(kh > 0, E > line))),
                  finding=fid_loose, unless=loose)
        else:
            check("C11.linear.heat", implies(t < bph, E == intercept + bh * (bph - t)), finding=fid_loose, unless=loose)
    if bpc is not None:
        if shape in SMOOTH:
            line = intercept + bc * (t - bpc - kc)
            check("C11.asymptote.cool", implies(t > bpc, And(E >= line, E - line <= bc * kc, implies(kc > 0, E > line))),
                  finding=fid_loose, unless=loose)
        else:
            check("C11.linear.cool", implies(t > bpc, E == intercept + bc * (t - bpc)), finding=fid_loose, unless=loose)
    check("C11.loads.nonneg", And(hl >= 0, cl >= 0), finding=fid, unless=corner)
    check("C11.loads.exclusive", Or(hl == 0, cl == 0), finding=fid, unless=corner)
    check("C11.loads.additive", intercept + hl + cl == E)
    check("C11.unc", at(r[1]) == f_unc)


@harness("C11.pair", prop="C11", cases=CASES)
def pair(shape, hdd_bp: Real, hdd_beta: Real, hdd_k: Real, cdd_bp: Real, cdd_beta: Real, cdd_k: Real,
         intercept: Real, T_min: Real, T_max: Real, T_min_seg: Real, T_max_seg: Real, f_unc: Real,
         T1: Vec, T2: Vec):
    """Two-temperature claims: continuity (Lipschitz with the larger slope) and monotonicity."""
    assume(adm(shape, hdd_bp, hdd_beta, hdd_k, cdd_bp, cdd_beta, cdd_k, T_min, T_max, T_min_seg, T_max_seg))
    sub = mk_submodel(shape, hdd_bp, hdd_beta, hdd_k, cdd_bp, cdd_beta, cdd_k, intercept, T_min, T_max,
                      T_min_seg, T_max_seg, f_unc)
    t1 = at(T1)
    t2 = at(T2)
    assume(t1 < t2)
    E1 = at(PS(None, sub, T1)[0])
    E2 = at(PS(None, sub, T2)[0])
    corner = edge_corner(shape, hdd_bp, hdd_k, cdd_bp, cdd_k, T_min, T_max)
    drop = edge_drop(shape, hdd_bp, cdd_bp, T_min, T_max)
    # `loose` excludes both known classes (claims about the line / asymptote beyond a balance point whose slope
    # the read-back step removes); everything else is excluded only where it really fails on the pinned tree:
    # for the smoothed two-sided shape removing a side also re-derives the smoothing of the other side, so every
    # claim stated relative to the documented joints is in the class; for the unsmoothed one only the line claims.
    loose = Or(corner, drop)
    fid = "C11-edge"
    fid_loose = "C11-edge+C11-edge-drop"
    if shape == "hdd_tidd_cdd_smooth":
        corner = loose
        fid = fid_loose
    [bph, kh, bpc, kc] = eff_points(shape, hdd_bp, hdd_k, cdd_bp, cdd_k)
    bh = heating_slope(shape, hdd_beta)
    bc = cooling_slope(shape, cdd_beta)
    L = bc
    if bh >= bc:
        L = bh
    # Proof structure (lemmas are proved on the path in the full context, then the final claim is proved
    # from the lemmas alone, with the definitions of E1/E2 hidden from the solver):
    #  (1) the load above base is squeezed between 0 and slope x distance beyond the balance point,
    #  (2) on one side of a balance point the curve is monotone with slope at most the fitted slope,
    #  (3) flat in between,
    #  (4) => Lipschitz with the larger slope, i.e. continuity, across all regimes and their joints.
    facts = [t1 < t2, bh >= 0, bc >= 0, L >= bh, L >= bc]
    if bph is not None and bpc is not None:
        facts.append(bph <= bpc)
    if bph is not None:
        facts.append(lemma("C11.excess.heat",
                           And(implies(t1 <= bph, And(E1 >= intercept, E1 - intercept <= bh * (bph - t1))),
                               implies(t2 <= bph, And(E2 >= intercept, E2 - intercept <= bh * (bph - t2)))),
                           finding=fid, unless=corner))
        facts.append(lemma("C11.mono.heat", implies(t2 <= bph, E1 >= E2), finding=fid, unless=corner))
        facts.append(lemma("C11.slope.heat", implies(t2 <= bph, E1 - E2 <= bh * (t2 - t1)), finding=fid, unless=corner))
        if shape in SMOOTH:
            # the gap to the asymptote does not grow as the temperature moves away from the balance point
            g1 = E1 - (intercept + bh * (bph - kh - t1))
            g2 = E2 - (intercept + bh * (bph - kh - t2))
            check("C11.asymptote.shrinks.heat", implies(t2 <= bph, g1 <= g2), finding=fid_loose, unless=loose)
    if bpc is not None:
        facts.append(lemma("C11.excess.cool",
                           And(implies(t1 >= bpc, And(E1 >= intercept, E1 - intercept <= bc * (t1 - bpc))),
                               implies(t2 >= bpc, And(E2 >= intercept, E2 - intercept <= bc * (t2 - bpc)))),
                           finding=fid, unless=corner))
        facts.append(lemma("C11.mono.cool", implies(t1 >= bpc, E2 >= E1), finding=fid, unless=corner))
        facts.append(lemma("C11.slope.cool", implies(t1 >= bpc, E2 - E1 <= bc * (t2 - t1)), finding=fid, unless=corner))
        if shape in SMOOTH:
            g1 = E1 - (intercept + bc * (t1 - bpc - kc))
            g2 = E2 - (intercept + bc * (t2 - bpc - kc))
            check("C11.asymptote.shrinks.cool", implies(t1 >= bpc, g2 <= g1), finding=fid_loose, unless=loose)
    above_h1 = True if bph is None else t1 >= bph
    below_c1 = True if bpc is None else t1 <= bpc
    above_h2 = True if bph is None else t2 >= bph
    below_c2 = True if bpc is None else t2 <= bpc
    facts.append(lemma("C11.flat.pair", And(implies(And(above_h1, below_c1), E1 == intercept),
                                            implies(And(above_h2, below_c2), E2 == intercept)),
                       finding=fid, unless=corner))
    check("C11.lipschitz.down", E1 - E2 <= L * (t2 - t1), finding=fid, unless=corner, given=facts)
    check("C11.lipschitz.up", E2 - E1 <= L * (t2 - t1), finding=fid, unless=corner, given=facts)


# ----------------------------------------------------------------------------------------------------------------------------------
# models imported from CalTRACK 2.0 parameter files: the recorded temperature range must leave every balance point of the 2.0 search grid (30..90 F)
# strictly inside it -- a balance point ON the edge of the range switches the kernel to its single-regime rules (known finding C11-edge)

DMP = repo("opendsm/eemeter/models/daily/parameters.py::DailyModelParameters")
LEGACY_CASES = [{"mt": m} for m in ["intercept_only", "hdd_only", "cdd_only", "cdd_hdd"]]


def tc_get(tc, name):
    if isinstance(tc, dict):
        return tc[name]
    return getattr(tc, name)


@harness("C11.legacy_import", prop="C11", cases=LEGACY_CASES, permissive=True)
def legacy_import(mt, hbp: Real, cbp: Real, bh: Real, bc: Real, c: Real):
    assume(And(30 <= hbp, hbp <= cbp, cbp <= 90, bh >= 0, bc >= 0))
    mp = {"intercept": c}
    if mt in ("hdd_only", "cdd_hdd"):
        mp["heating_balance_point"] = hbp
        mp["beta_hdd"] = bh
    if mt in ("cdd_only", "cdd_hdd"):
        mp["cooling_balance_point"] = cbp
        mp["beta_cdd"] = bc
    out = DMP.from_2_0_params({"model_type": mt, "model_params": mp})
    sub = out.submodels["fw-su_sh_wi"]
    tc = sub.temperature_constraints
    lo = tc_get(tc, "T_min")
    hi = tc_get(tc, "T_max")
    lo_seg = tc_get(tc, "T_min_seg")
    hi_seg = tc_get(tc, "T_max_seg")
    check("C11.legacy_import.range_ordered", And(lo <= lo_seg, lo_seg <= hi_seg, hi_seg <= hi))
    if mt in ("hdd_only", "cdd_hdd"):
        check("C11.legacy_import.heating_bp_inside", And(lo < hbp, hbp < hi, lo_seg <= hbp, hbp <= hi_seg))
    if mt in ("cdd_only", "cdd_hdd"):
        check("C11.legacy_import.cooling_bp_inside", And(lo < cbp, cbp < hi, lo_seg <= cbp, cbp <= hi_seg))
    co = sub.coefficients
    # sign convention of the stored heating slope: negative for a heating-only model (usage falls as it gets warmer), as given for the two-sided one
    if mt == "hdd_only":
        check("C11.legacy_import.heating_slope", co.hdd_beta == 0 - bh)
    if mt == "cdd_hdd":
        check("C11.legacy_import.slopes", And(co.hdd_beta == bh, co.cdd_beta == bc))
