"""C14 (proof part) -- the cross-field validators of the daily settings raise exactly on their documented condition,
and the developer-mode lock is skipped exactly when developer_mode is set (symbolic execution of the real validator
methods on objects whose fields are symbolic)."""
from pyvc.api import *  # noqa

DS = repo("opendsm/eemeter/models/daily/utilities/settings.py::DailySettings")
SSD = repo("opendsm/eemeter/models/daily/utilities/settings.py::Split_Selection_Definition")
OPT = repo("opendsm/eemeter/models/daily/utilities/opt_settings.py::OptimizationSettings")
ALG = repo("opendsm/eemeter/models/daily/utilities/opt_settings.py::AlgorithmChoice")

OPAQUE = {"opendsm/eemeter/models/daily/utilities/settings.py::_check_developer_mode": "lock_effect"}


def lock_effect(cls):
    cls.ghost_lock_checked = True
    return cls


AF_CASES = [{"af": a, "aft": t} for a in ["none", "float", "adaptive", "otherstr"] for t in [None, "last", "all"]]


@harness("C14.validators.alpha_final", prop="C14", cases=AF_CASES)
def alpha_final(af, aft, x: Real, amin: Real):
    val = None if af == "none" else x if af == "float" else "adaptive" if af == "adaptive" else "something"
    s = new_object(DS, alpha_final=val, alpha_final_type=aft, alpha_minimum=amin)
    out = outcome(s._check_alpha_final)
    if af == "none":
        check("C14.validators.alpha_final", iff(out.raises("ValueError"), aft is not None))
    elif af == "float":
        check("C14.validators.alpha_final", iff(out.raises("ValueError"), Or(amin > x, x > 2)))
    elif af == "adaptive":
        check("C14.validators.alpha_final", out.returned)
    else:
        check("C14.validators.alpha_final", out.raises("ValueError"))


FBS_CASES = [{"has": h, "aft": t} for h in [True, False] for t in [None, "last", "all"]]


@harness("C14.validators.final_bounds_scalar", prop="C14", cases=FBS_CASES)
def final_bounds_scalar(has, aft, x: Real):
    s = new_object(DS, final_bounds_scalar=x if has else None, alpha_final_type=aft)
    out = outcome(s._check_final_bounds_scalar)
    if has:
        check("C14.validators.final_bounds_scalar", iff(out.raises("ValueError"), Or(x <= 0, aft is None)))
    else:
        check("C14.validators.final_bounds_scalar", iff(out.raises("ValueError"), aft is not None))


ISP_CASES = [{"has": True, "alg": "NLOPT_SBPLX"}, {"has": False, "alg": "NLOPT_SBPLX"}, {"has": False, "alg": "NLOPT_DIRECT"},
             {"has": False, "alg": "SCIPY_SLSQP"}, {"has": False, "alg": "SCIPY_DIRECT"}, {"has": True, "alg": "SCIPY_SLSQP"}]


@harness("C14.validators.initial_step_percentage", prop="C14", cases=ISP_CASES)
def initial_step(has, alg, x: Real):
    s = new_object(DS, initial_step_percentage=x if has else None, algorithm_choice=getattr(ALG, alg))
    out = outcome(s._check_initial_step_percentage)
    if has:
        check("C14.validators.initial_step_percentage", iff(out.raises("ValueError"), Or(x <= 0, x > 0.5)))
    else:
        check("C14.validators.initial_step_percentage", iff(out.raises("ValueError"), alg.startswith("NLOPT")))


RS_CASES = [{"n": n} for n in [None, 0, 1, 2, 3]]


@harness("C14.validators.reduce_splits_num_std", prop="C14", cases=RS_CASES)
def reduce_splits(n, a: Real, b: Real, c: Real):
    val = None if n is None else [a, b, c][:n]
    s = new_object(SSD, reduce_splits_num_std=val)
    out = outcome(s._check_reduce_splits_num_std)
    if n is None:
        check("C14.validators.reduce_splits_num_std", out.returned)
    elif n != 2:
        check("C14.validators.reduce_splits_num_std", out.raises("ValueError"))
    else:
        check("C14.validators.reduce_splits_num_std", iff(out.raises("ValueError"), Or(a <= 0, b <= 0)))


PM_CASES = [{"has": h, "isres": i} for h in [True, False] for i in [True, False]]


@harness("C14.validators.population_multiplier", prop="C14", cases=PM_CASES)
def population_multiplier(has, isres, x: Real):
    s = new_object(OPT, initial_population_multiplier=x if has else None, algorithm=ALG.NLOPT_ISRES if isres else ALG.NLOPT_SBPLX)
    out = outcome(s._check_population_multiplier)
    if not has:
        check("C14.validators.population_multiplier", iff(out.raises("ValueError"), isres))
    elif isres:
        check("C14.validators.population_multiplier", iff(out.raises("ValueError"), x <= 1))
    else:
        check("C14.validators.population_multiplier", out.raises("ValueError"))


DEV_CASES = [{"dev": d, "silent": s} for d in [True, False] for s in [True, False]]


@harness("C14.devmode.gate", prop="C14", cases=DEV_CASES)
def devmode_gate(dev, silent):
    """the recursive lock check runs exactly when developer_mode is off (whatever the silent flag says)"""
    s = new_object(DS, developer_mode=dev, silent_developer_mode=silent, ghost_lock_checked=False)
    out = outcome(s._check_developer_mode)
    check("C14.devmode.gate.returns", out.returned)
    check("C14.devmode.gate", s.ghost_lock_checked == (not dev))
