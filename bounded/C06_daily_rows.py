"""Bounded part of C06 for the daily / billing models: the real _predict returns exactly the input index, in order, with
predicted finite exactly on rows with a finite temperature (and usage, when supplied) -- the same enumerated frames as
bounded/C07_mask.py (NaN / +-inf patterns), reported under C06."""
from bounded import C07_mask as base
from bounded.common import Bounded, load_known

MODULE = "bounded.C06_daily_rows"


def calendar_case(case):
    """a year of daily readings stamped at a fixed hour (local clock or UTC clock), carried in ONE frame with hourly temperatures, across both clock
    changes: the data object has exactly one row per local day of the readings, and the real predict() returns exactly those rows, finite"""
    import numpy as np
    import pandas as pd
    import opendsm.eemeter as em
    from opendsm.eemeter.models.daily.model import DailyModel
    from bounded.C01_roundtrip import param_doc
    tz = case["tz"]
    hi = pd.date_range("2022-01-01", "2023-01-01", freq="h", tz=tz, inclusive="left")
    temp = pd.Series(55 + 20 * np.sin(np.arange(len(hi)) / 1400.0), index=hi, name="temperature")
    if case["clock"] == "local":
        stamps = pd.DatetimeIndex([d + pd.Timedelta(hours=case["hour"]) for d in pd.date_range("2022-01-01", periods=365, freq="D", tz=tz)])
        stamps = stamps[stamps.isin(hi)]
    else:
        stamps = pd.date_range(f"2022-01-01 {case['hour']:02d}:00", periods=364, freq="24h", tz="UTC").tz_convert(tz)
    obs = pd.Series(np.nan, index=hi, name="observed")
    obs.loc[stamps] = 30.0 + np.arange(len(stamps)) % 7
    data = em.DailyReportingData(pd.concat([obs, temp], axis=1), is_electricity_data=True)
    f = data.df
    bad = []
    days = pd.Index(stamps.date).unique()
    dup = int(pd.Index(f.index.date).duplicated().sum())
    if dup:
        bad.append(f"{dup} local days appear twice in the data object's frame ({len(f)} rows for {len(days)} days of readings)")
    if abs(len(f) - len(days)) > 1:
        bad.append(f"{len(f)} rows for {len(days)} local days of readings")
    m = DailyModel.from_dict(param_doc("daily", "hdd_tidd_cdd", "unsplit", False))
    m.baseline_timezone = f.index.tz
    p = m.predict(data, ignore_disqualification=True)
    if not p.index.equals(f.index):
        bad.append("prediction index differs from the data object's frame index")
    fin = np.isfinite(p["predicted"].astype(float)).values
    want = np.isfinite(f["temperature"].astype(float)).values & np.isfinite(f["observed"].astype(float)).values
    if not np.array_equal(fin, want):
        bad.append(f"{int((fin != want).sum())} rows whose prediction is not finite exactly when temperature and usage are")
    if case["clock"] == "local" and int(want.sum()) < len(days) - 2:
        bad.append(f"only {int(want.sum())} of {len(days)} days carry usage and temperature")
    return {"ok": not bad, "problems": bad}


def replay(case):
    if case.get("kind") == "calendar":
        return calendar_case(case)
    return base.replay(case)


def run(tier="quick", seed=0):
    r = base.run(tier, seed)
    b = Bounded("C06", "C06.daily.rows", MODULE, r["rule"], known_findings=load_known("C06"))
    # re-run the cases under this property's name so that replay files belong to C06
    import itertools
    import numpy as np
    rng = np.random.default_rng(seed)
    tpat = list(itertools.product(base.VALUES_T, repeat=3))
    opat = list(itertools.product(base.VALUES_O, repeat=3)) + [None]
    combos = [(t, o) for t in tpat for o in opat]
    sel = rng.choice(len(combos), size=(150 if tier == "quick" else len(combos)), replace=False)
    for fam, shape, split in (("daily", "hdd_tidd", "unsplit"), ("billing", "tidd_cdd", "season2"), ("daily", "tidd", "unsplit")):
        for i in sel:
            t, o = combos[i]
            case = {"family": fam, "shape": shape, "split": split, "T": list(t), "O": None if o is None else list(o)}
            try:
                res = replay(case)
            except Exception as e:  # noqa
                res = {"ok": False, "problems": [f"exception {type(e).__name__}: {e}"]}
            b.case("C06.daily.rows", case, res["ok"], nontrivial_key=(fam, shape, tuple(t), None if o is None else tuple(o)), detail=res["problems"])
    cal = [{"kind": "calendar", "tz": "America/Chicago", "clock": "local", "hour": 0}, {"kind": "calendar", "tz": "America/Chicago", "clock": "local", "hour": 9}]
    if tier == "thorough":
        cal += [{"kind": "calendar", "tz": "Europe/Berlin", "clock": "local", "hour": 6}, {"kind": "calendar", "tz": "Australia/Sydney", "clock": "local", "hour": 9}]
    for case in cal:
        try:
            res = replay(case)
        except Exception as e:  # noqa
            import traceback
            res = {"ok": False, "problems": [f"exception {type(e).__name__}: {e}", traceback.format_exc()[-400:]]}
        b.case("C06.daily.rows", case, res["ok"], nontrivial_key=("calendar", case["tz"], case["clock"], case["hour"]), detail=res["problems"])
    return b.result()
