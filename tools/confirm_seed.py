#!/venv/bin/python
"""Confirm a seeded change in its scratch worktree and store it: demo passes on HEAD, fails with the patch, the pinned suite keeps every
baseline-passing test.   usage: tools/confirm_seed.py <worktree> <Cnn> [--skip-suite]   (stores seeded/<Cnn>-<name>/ for each <wt>/seeded_out/<name>/)"""
import json, os, shutil, subprocess, sys
V = os.path.dirname(os.path.dirname(os.path.abspath(__file__)))
wt, pid = sys.argv[1], sys.argv[2]
skip = "--skip-suite" in sys.argv
env = dict(os.environ, PYTHONPATH=wt, NUMBA_CACHE_DIR=os.path.join(wt, ".numba_cache"), PYTHONDONTWRITEBYTECODE="1")


def sh(cmd, **kw):
    return subprocess.run(cmd, shell=True, cwd=wt, env=env, capture_output=True, text=True, **kw)


out = os.path.join(wt, "seeded_out")
sh("git checkout -q -- . ")
for name in sorted(os.listdir(out)):
    d = os.path.join(out, name)
    if not os.path.isfile(os.path.join(d, "patch.diff")):
        continue
    rec = {"name": name}
    r0 = sh(f"/venv/bin/python {d}/demo.py", timeout=1800)
    rec["demo_on_head"] = r0.returncode
    a = sh(f"git apply {d}/patch.diff")
    rec["applies"] = a.returncode == 0
    if a.returncode == 0:
        r1 = sh(f"/venv/bin/python {d}/demo.py", timeout=1800)
        rec["demo_with_patch"] = r1.returncode
        imp = sh("/venv/bin/python -c 'import opendsm, opendsm.eemeter; print(opendsm.__file__)'")
        rec["imports"] = imp.returncode == 0 and wt in imp.stdout
        if not skip:
            s = subprocess.run(["/venv/bin/python", os.path.join(V, "tools", "run_baseline.py"), wt, "-n", "8"], capture_output=True, text=True)
            rec["suite"] = s.stdout.strip().splitlines()[0] if s.stdout.strip() else s.stderr[-300:]
            rec["suite_ok"] = s.returncode == 0
        sh("git checkout -q -- . && git clean -fdq opendsm")
    ok = rec.get("demo_on_head") == 0 and rec.get("demo_with_patch") == 1 and rec.get("imports") and (skip or rec.get("suite_ok"))
    rec["confirmed"] = bool(ok)
    print(json.dumps(rec))
    if ok:
        dst = os.path.join(V, "seeded", f"{pid}-{name}")
        os.makedirs(dst, exist_ok=True)
        for f in ("patch.diff", "demo.py", "meta.json"):
            shutil.copy(os.path.join(d, f), os.path.join(dst, f))
        try:
            meta = json.load(open(os.path.join(dst, "meta.json")))
        except Exception:
            meta = {}
        meta["confirmed_by_main_session"] = {k: rec[k] for k in rec if k != "name"}
        json.dump(meta, open(os.path.join(dst, "meta.json"), "w"), indent=1)
notes = os.path.join(out, "NOTES.md")
if os.path.exists(notes):
    os.makedirs(os.path.join(V, ".scratch", "notes"), exist_ok=True)
    shutil.copy(notes, os.path.join(V, ".scratch", "notes", f"{pid}-round4-NOTES.md"))
