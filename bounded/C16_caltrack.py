"""Bounded part of C16 for the CalTRACK hourly statistics (opendsm/eemeter/models/hourly_caltrack/metrics.py::ModelMetrics): the real class
against the textbook formulas on random observed / predicted series (NaN rows, unequal lengths, net-metered series with negative values)."""
import logging
import warnings

import numpy as np
import pandas as pd

from bounded.common import Bounded, load_known

MODULE = "bounded.C16_caltrack"
logging.disable(logging.CRITICAL)
warnings.filterwarnings("ignore")


def build(case):
    rng = np.random.default_rng(case["seed"])
    n = case["n"]
    idx = pd.date_range("2022-01-01", periods=n, freq="h", tz="UTC")
    obs = rng.uniform(0.5, 5.0, n)
    if case["kind"] == "net_metered":
        obs = obs - 2.5
    if case["kind"] == "with_zeros":
        obs[rng.choice(n, size=max(1, n // 10), replace=False)] = 0.0
    pred = obs + rng.normal(0, 0.4, n) + 0.1 * np.sin(np.arange(n) / 5.0)
    obs, pred = pd.Series(obs, index=idx), pd.Series(pred, index=idx)
    if case.get("nan"):
        obs.iloc[rng.choice(n, size=case["nan"], replace=False)] = np.nan
        pred.iloc[rng.choice(n, size=case["nan"], replace=False)] = np.nan
    return obs, pred


def _close(a, b, rel=1e-9):
    if a is None or b is None:
        return a is None and b is None
    a, b = float(a), float(b)
    if np.isnan(a) or np.isnan(b):
        return np.isnan(a) and np.isnan(b)
    return abs(a - b) <= rel * max(1.0, abs(a), abs(b))


def replay(case):
    from opendsm.eemeter.models.hourly_caltrack.metrics import ModelMetrics
    obs, pred = build(case)
    p = case["p"]
    before = (obs.copy(), pred.copy())
    m = ModelMetrics(obs, pred, num_parameters=p)
    both = obs.notna() & pred.notna()
    o, f = obs[both].values, pred[both].values
    r = f - o
    n = len(r)
    rmse = float(np.sqrt(np.mean(r ** 2)))
    ref = {"observed_length": int(obs.notna().sum()), "predicted_length": int(pred.notna().sum()), "merged_length": n,
           "rmse": rmse, "rmse_adj": float(np.sqrt(np.sum(r ** 2) / (n - p))) if n > p else np.nan,
           "cvrmse": rmse / float(np.mean(o)), "nmae": float(np.sum(np.abs(r)) / np.sum(o)), "nmbe": float(np.sum(r) / np.sum(o)),
           "r_squared": float(np.corrcoef(f, o)[0, 1] ** 2), "num_meter_zeros": int(np.sum(~(o > 0)))}
    ref["cvrmse_adj"] = ref["rmse_adj"] / float(np.mean(o))
    ref["r_squared_adj"] = 1 - (1 - ref["r_squared"]) * (n - 1) / (n - p - 1)
    rho = float(pd.Series(r).autocorr(lag=1))
    ref["autocorr_resid"] = rho
    ref["n_prime"] = ref["observed_length"] * (1 - rho) / (1 + rho)
    bad, known = [], []
    for k, v in ref.items():
        got = getattr(m, k)
        if _close(got, v, 1e-8):
            continue
        msg = f"{k} = {got!r}, textbook formula gives {v!r}"
        # known finding: the ratios are normalised by mean(|observed|) instead of mean(observed) (differs only when usage goes negative)
        if k in ("cvrmse", "cvrmse_adj") and (o < 0).any() and _close(got, v * float(np.mean(o)) / float(np.mean(np.abs(o))), 1e-8):
            known.append(msg)
        else:
            bad.append(msg)
    if not (obs.equals(before[0]) and pred.equals(before[1])):
        bad.append("the input series were modified")
    return {"ok": not bad and not known, "problems": bad or known, "known_only": bool(known) and not bad}


def run(tier="quick", seed=0):
    b = Bounded("C16", "C16.caltrack_metrics", MODULE,
                "real hourly_caltrack ModelMetrics on random hourly series of length 30..2000 (plain, with zero readings, net-metered with negative readings), 0-5 % NaN in "
                "either series (unequal lengths), 1..10 parameters; lengths, rmse, rmse_adj, cvrmse(_adj), nmae, nmbe, r-squared(_adj), residual autocorrelation, n' against "
                "textbook formulas (relative tolerance 1e-8); inputs untouched. distinct = case", known_findings=load_known("C16"))
    rng = np.random.default_rng(500 + seed)
    N = 24 if tier == "quick" else 400
    for i in range(N):
        case = {"kind": ["plain", "with_zeros", "net_metered"][i % 3], "n": int(rng.integers(30, 2000)), "p": int(rng.integers(1, 11)), "seed": int(rng.integers(0, 10 ** 6)),
                "nan": int(rng.choice([0, 0, 3, 20]))}
        try:
            r = replay(case)
        except Exception as e:  # noqa
            r = {"ok": False, "problems": [f"exception {type(e).__name__}: {e}"]}
        b.case("C16.caltrack_metrics", case, r["ok"], nontrivial_key=str(case), detail=r["problems"], known_id="C16-caltrack-abs-mean" if r.get("known_only") else None)
    return b.result()
