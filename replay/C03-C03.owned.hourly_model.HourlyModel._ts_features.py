#!/venv/bin/python
"""Ownership obligation C03.owned.hourly/model.HourlyModel._ts_features failed (structural: no failing input).
__init__:148 self._ts_features = self.settings.train_features or []  (alias: self.settings.train_features); fit:192 self._ts_features = self.settings.train_features  (alias: self.settings.train_features) -- while the attribute is mutated in place at ['_add_supplemental_features:770 .append()']
"""
print("__init__:148 self._ts_features = self.settings.train_features or []  (alias: self.settings.train_features); fit:192 self._ts_features = self.settings.train_features  (alias: self.settings.train_features) -- while the attribute is mutated in place at ['_add_supplemental_features:770 .append()']")
import sys; sys.exit(1)
