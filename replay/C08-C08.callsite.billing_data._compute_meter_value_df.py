#!/venv/bin/python
"""Call-site obligation C08.callsite.billing/data._compute_meter_value_df failed (structural: no failing input).
line 118: atomic_freq='1D' does not divide the reading intervals (900 s)
"""
print("line 118: atomic_freq='1D' does not divide the reading intervals (900 s)")
import sys; sys.exit(1)
