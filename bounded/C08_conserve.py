"""Bounded part of C08: the REAL billing / daily data classes and the resampling helpers against an exact interval-arithmetic
reference (each reading is a constant rate over [t_i, t_{i+1}) in ABSOLUTE time):
  billing : the days of every valid period add up to the billed amount, each day carries bill * day_length / period_length,
            off-cycle periods (<25, >35 monthly, >70 bi-monthly days) are missing, nothing is invented elsewhere;
  subdaily: every local day except the last equals sum(present readings) / coverage when coverage > 1/2 and is missing otherwise
            (fully covered day = plain sum), for 15/30/60-minute readings with NaN cells or absent rows, through the data classes
            and through as_freq / downsample_and_clean_daily_data directly;
  daily   : daily readings pass through unchanged."""
import logging
import warnings

import numpy as np
import pandas as pd

from bounded.common import Bounded, load_known

MODULE = "bounded.C08_conserve"
logging.disable(logging.CRITICAL)
warnings.filterwarnings("ignore")
REL = 1e-9
ZONES = ["America/Chicago", "Europe/Berlin", "Australia/Sydney", "Asia/Kolkata", "UTC", "America/Los_Angeles"]


def _calendar(tz, start, lengths):
    reads = [pd.Timestamp(start)]
    for n in lengths:
        reads.append(reads[-1] + pd.Timedelta(days=int(n)))
    return pd.DatetimeIndex(reads).tz_localize(tz)


# ------------------------------------------------------------------ billing
def billing_case(case):
    import opendsm.eemeter as em
    tz, lengths, values = case["tz"], case["lengths"], case["values"]
    upper = 35 if case["cycle"] == "monthly" else 70
    reads = _calendar(tz, case["start"], lengths)
    if case["entry"] == "frame":
        days = pd.date_range(reads[0], reads[-1], freq="D", inclusive="left")
        df = pd.DataFrame({"temperature": 55.0, "observed": np.nan}, index=days)
        for r, v in zip(reads[:-1], values):
            df.loc[r, "observed"] = v
        cls = em.BillingReportingData if case.get("reporting") else em.BillingBaselineData
        data = cls(df, is_electricity_data=False)
    else:
        bills = pd.Series(list(values) + [np.nan], index=reads, name="observed")
        temp = pd.Series(55.0, index=pd.date_range(reads[0] - pd.Timedelta(days=2), reads[-1] + pd.Timedelta(days=2), freq="h"), name="temperature")
        cls = em.BillingReportingData if case.get("reporting") else em.BillingBaselineData
        data = cls.from_series(bills, temp, is_electricity_data=False)
    out = data.df
    if "observed" not in out.columns:
        return {"ok": False, "problems": ["no observed column in the data object"]}
    daily = out["observed"].astype(float)
    bad = []
    if daily.index.duplicated().any():
        bad.append("duplicate days in the data object")
    covered = pd.Series(False, index=daily.index)
    for a, b, n, v in zip(reads[:-1], reads[1:], lengths, values):
        sel = (daily.index >= a) & (daily.index < b)
        seg = daily[sel]
        covered |= sel
        if 25 <= n <= upper:
            if len(seg) != n or seg.isna().any():
                bad.append(f"valid period {a.date()}..{b.date()} ({n} d): {len(seg)} daily rows, {int(seg.isna().sum())} missing")
                continue
            if abs(seg.sum() - v) > REL * abs(v):
                bad.append(f"valid period {a.date()}..{b.date()} ({n} d) billed {v!r} but its days add up to {seg.sum()!r}")
            # constant rate in absolute time: a 23-hour day carries 23/24 of a normal day's share
            ends = list(seg.index[1:]) + [b]
            share = np.array([(e - s) / (b - a) for s, e in zip(seg.index, ends)], dtype=float)
            if not np.allclose(seg.values, v * share, rtol=1e-9, atol=0):
                i = int(np.argmax(np.abs(seg.values - v * share)))
                bad.append(f"period {a.date()}..{b.date()}: day {seg.index[i].date()} carries {seg.values[i]!r}, constant rate gives {v * share[i]!r}")
        elif seg.notna().any():
            bad.append(f"off-cycle period {a.date()}..{b.date()} ({n} d) should be missing but carries {seg.sum()!r}")
    stray = daily[~covered.values].dropna()
    if len(stray):
        bad.append(f"usage outside every billing period: {stray.sum()!r} on {[str(t.date()) for t in stray.index[:3]]}")
    return {"ok": not bad, "problems": bad}


# ------------------------------------------------------------------ sub-daily readings
def _subdaily_series(case):
    rng = np.random.default_rng(case["seed"])
    step = pd.Timedelta(minutes=case["minutes"])
    start = pd.Timestamp(case["start"]).tz_localize(case["tz"]) + pd.Timedelta(hours=case.get("start_hour", 0))
    end = (pd.Timestamp(case["start"]) + pd.Timedelta(days=case["n_days"])).tz_localize(case["tz"])
    idx = pd.date_range(start, end, freq=step, inclusive="left")
    s = pd.Series(np.round(rng.uniform(0.2, 3.0, len(idx)), 4), index=idx, name="observed")
    present = np.ones(len(idx), dtype=bool)
    for (day, a, k) in case.get("gaps", []):          # gap of k readings starting at reading a of local day `day`
        d0 = (pd.Timestamp(case["start"]) + pd.Timedelta(days=day)).tz_localize(case["tz"])
        pos = idx.searchsorted(d0) + a
        present[pos:pos + k] = False
    return s, present, step


def _reference_days(s, present, step, tz):
    """per local day except the last: (sum of present readings, present duration, day duration)"""
    first_day = s.index[0].tz_convert(tz).normalize()
    last = s.index[-1]
    days = pd.date_range(first_day, last.tz_convert(tz).normalize(), freq="D")
    rows = []
    vals = s.values
    for d, e in zip(days[:-1], days[1:]):
        a, b = s.index.searchsorted(d), s.index.searchsorted(e)
        p = present[a:b]
        rows.append((d, float(vals[a:b][p].sum()), p.sum() * step, e - d, int((~p).sum())))
    return rows


def _spread_present(s, present, a, b):
    """usage that constant-rate spreading of the PRESENT readings alone (each lasting until the next present reading) puts into [a, b)"""
    idx = s.index[present]
    vals = s.values[present]
    tot = 0.0
    for i in range(len(idx) - 1):
        t0, t1 = idx[i], idx[i + 1]
        lo, hi = max(t0, a), min(t1, b)
        if hi > lo:
            tot += vals[i] * ((hi - lo) / (t1 - t0))
    return tot


def subdaily_case(case):
    import opendsm.eemeter as em
    from opendsm.eemeter.common.data_processor_utilities import as_freq, downsample_and_clean_daily_data
    s, present, step = _subdaily_series(case)
    tz = case["tz"]
    gapped = s.copy()
    if case["gap_kind"] == "nan":
        gapped[~present] = np.nan
    else:
        gapped = gapped[present]
    via = case["via"]
    if via == "function":
        if case["gap_kind"] != "nan":
            return {"ok": True, "problems": [], "skipped": "absent rows are indistinguishable from long readings at function level"}
        out = downsample_and_clean_daily_data(gapped.copy(), [])["value"]
    else:
        temp = pd.Series(60.0, index=pd.date_range(s.index[0].tz_convert(tz).normalize(), s.index[-1], freq="h"), name="temperature")
        cls = em.DailyReportingData if case.get("reporting") else em.DailyBaselineData
        if via == "from_series":
            data = cls.from_series(gapped.copy(), temp, is_electricity_data=False)
        else:
            df = pd.concat([gapped.rename("observed"), temp], axis=1)
            data = cls(df, is_electricity_data=False)
        out = data.df["observed"]
    out = out.astype(float)
    bad, known = [], []
    ref = _reference_days(s, present, step, tz)
    for j, (d, tot, pdur, ddur, n_gap) in enumerate(ref):
        if d not in out.index:
            bad.append(f"day {d.date()} absent from the result")
            continue
        got = out[d]
        cov = pdur / ddur
        msg = None
        if cov > 0.5:
            want = tot / cov
            if not (np.isfinite(got) and abs(got - want) <= 1e-9 * max(1.0, abs(want))):
                msg = f"day {d.date()} ({ddur / pd.Timedelta(hours=1):g} h, coverage {cov:.4f}): got {got!r}, sum of readings / coverage = {want!r} (sum {tot!r})"
        elif np.isfinite(got):
            msg = f"day {d.date()} covered for {cov:.4f} <= 1/2 should be missing but is {got!r}"
        if msg is None:
            continue
        # known finding C08-subdaily-gap-not-scaled: through the data classes a day with a gap carries exactly what the constant-rate
        # spreading of the readings PRESENT puts into it (the gap was dropped, coverage counted as 1)
        # (only a day that HAS a gap inside the series qualifies: a leading partial day has no dropped reading)
        if via != "function" and n_gap > 0 and cov < 1 and np.isfinite(got) and abs(got - _spread_present(s, present, d, d + ddur)) <= 1e-9 * max(1.0, abs(got)):
            known.append(msg)
        else:
            bad.append(msg)
    return {"ok": not bad and not known, "problems": (bad or known)[:6], "n_bad": len(bad), "known_only": bool(known) and not bad}


def daily_case(case):
    import opendsm.eemeter as em
    rng = np.random.default_rng(case["seed"])
    idx = pd.date_range(case["start"], periods=case["n_days"], freq="D", tz=case["tz"])
    obs = pd.Series(np.round(rng.uniform(5, 60, len(idx)), 3), index=idx, name="observed")
    for k in case.get("missing", []):
        obs.iloc[k] = np.nan
    temp = pd.Series(60.0, index=idx, name="temperature")
    cls = em.DailyReportingData if case.get("reporting") else em.DailyBaselineData
    data = cls(pd.concat([obs, temp], axis=1), is_electricity_data=False)
    out = data.df["observed"].astype(float)
    bad = []
    if not out.index.equals(idx):
        bad.append("daily index changed")
    elif not ((out.values == obs.values) | (np.isnan(out.values) & np.isnan(obs.values))).all():
        bad.append("daily readings changed")
    return {"ok": not bad, "problems": bad}


def replay(case):
    return {"billing": billing_case, "subdaily": subdaily_case, "daily": daily_case}[case["kind"]](case)


def cases(tier, seed):
    out = []
    rng = np.random.default_rng(100 + seed)
    # billing calendars
    n_cal = 10 if tier == "quick" else 60
    for i in range(n_cal):
        cycle = "monthly" if i % 3 else "bimonthly"
        base = [28, 29, 30, 31, 32, 33, 25, 35] if cycle == "monthly" else [56, 58, 59, 60, 61, 62, 63, 70, 36]
        n = 13 if cycle == "monthly" else 8
        lengths = [int(x) for x in rng.choice(base, size=n)]
        if i % 2:
            off = [int(rng.choice([5, 12, 24])), int(rng.choice([36, 41]) if cycle == "monthly" else rng.choice([71, 80]))]
            for o in off:
                lengths[int(rng.integers(1, n - 1))] = o
        values = [float(np.round(rng.uniform(150, 900), 2)) for _ in lengths]
        out.append({"kind": "billing", "tz": ZONES[i % len(ZONES)], "start": str(pd.Timestamp("2021-01-03") + pd.Timedelta(days=int(rng.integers(0, 300)))).split()[0],
                    "lengths": lengths, "values": values, "cycle": cycle, "entry": "frame" if i % 4 < 2 else "series", "reporting": bool(i % 5 == 4)})
    # threshold calendars: exactly 24/25/35/36 and 70/71
    for cyc, ls in (("monthly", [30, 24, 31, 25, 30, 35, 29, 36, 30, 31, 30, 30]), ("bimonthly", [60, 24, 61, 25, 59, 70, 60, 71, 61])):
        for tz in ("America/Chicago", "Europe/Berlin"):
            out.append({"kind": "billing", "tz": tz, "start": "2021-02-10", "lengths": ls, "values": [100.0 + 7 * k for k in range(len(ls))], "cycle": cyc, "entry": "frame"})
    # sub-daily readings
    dst = {"America/Chicago": ["2023-03-08", "2023-11-01"], "Europe/Berlin": ["2023-03-22", "2023-10-25"], "Australia/Sydney": ["2023-09-27", "2023-03-29"],
           "America/Los_Angeles": ["2023-03-08"]}
    k = 0
    for tz in ZONES:
        for start in ["2023-06-05"] + dst.get(tz, []):
            for minutes in (60, 30, 15):
                per_day = 24 * 60 // minutes
                for via in ("function", "frame", "from_series"):
                    for gap_kind in ("nan", "absent"):
                        k += 1
                        if tier == "quick" and k % 5 != seed % 5:
                            continue
                        r = np.random.default_rng(seed * 7919 + k)
                        gaps = []
                        # day 1: complete; day 2: a short gap; day 3: exactly half missing; day 4: one reading more than half present;
                        # day 5 (the DST day when start is a DST week): short gap; day 6: more than half missing; others random
                        gaps.append((1, int(r.integers(1, per_day // 2)), max(1, per_day // 8)))
                        gaps.append((2, int(r.integers(0, per_day // 2)), per_day // 2))
                        gaps.append((3, int(r.integers(0, per_day // 2)), per_day // 2 - 1))
                        gaps.append((4, int(r.integers(1, per_day // 2)), max(1, per_day // 6)))
                        gaps.append((5, int(r.integers(0, per_day // 4)), per_day // 2 + max(1, per_day // 12)))
                        out.append({"kind": "subdaily", "tz": tz, "start": start, "n_days": 9, "minutes": minutes, "via": via, "gap_kind": gap_kind,
                                    "gaps": gaps, "seed": int(seed * 7919 + k), "reporting": bool(k % 2)})
    out.append({"kind": "subdaily", "tz": "America/Chicago", "start": "2023-06-05", "n_days": 6, "minutes": 60, "via": "frame", "gap_kind": "nan", "gaps": [], "seed": 1})
    out.append({"kind": "subdaily", "tz": "America/Chicago", "start": "2023-11-01", "n_days": 8, "minutes": 15, "via": "from_series", "gap_kind": "nan", "gaps": [], "seed": 2})
    out.append({"kind": "subdaily", "tz": "America/Chicago", "start": "2023-06-05", "n_days": 6, "minutes": 60, "via": "frame", "gap_kind": "nan", "gaps": [],
                "seed": 3, "start_hour": 12})   # the first day is covered for exactly one half
    out.append({"kind": "subdaily", "tz": "America/Chicago", "start": "2023-06-05", "n_days": 6, "minutes": 30, "via": "frame", "gap_kind": "nan", "gaps": [],
                "seed": 3, "start_hour": 11})   # ... for more than half
    # a series whose first reading is not at local midnight: the first day is covered for a quarter / three quarters (the function itself, and the classes)
    for hour, minutes, via in ((18, 30, "function"), (6, 60, "function"), (6, 15, "from_series"), (18, 60, "frame")):
        out.append({"kind": "subdaily", "tz": "Europe/Berlin", "start": "2023-06-05", "n_days": 5, "minutes": minutes, "via": via, "gap_kind": "nan", "gaps": [],
                    "seed": 6, "start_hour": hour})
    # read calendars that mix monthly and bi-monthly periods: the cadence is the median spacing of the BILLS (the open-ended closing period does not vote)
    for ls, cyc in (([30, 30, 31, 30, 61, 61, 61, 61], "monthly"), ([30, 31, 30, 61, 61, 61, 30], "bimonthly")):
        out.append({"kind": "billing", "tz": "America/Chicago", "start": "2021-01-05", "lengths": ls, "values": [200.0 + 11 * k for k in range(len(ls))], "cycle": cyc, "entry": "frame"})
        out.append({"kind": "billing", "tz": "America/Chicago", "start": "2021-01-05", "lengths": ls, "values": [200.0 + 11 * k for k in range(len(ls))], "cycle": cyc, "entry": "series"})
    for tz in ("America/Chicago", "UTC", "Australia/Sydney"):
        out.append({"kind": "daily", "tz": tz, "start": "2023-01-01", "n_days": 365, "seed": 4, "missing": [5, 6, 100]})
        out.append({"kind": "daily", "tz": tz, "start": "2023-03-01", "n_days": 40, "seed": 5, "reporting": True})
    return out


def run(tier="quick", seed=0):
    b = Bounded("C08", "C08.conserve", MODULE,
                "real BillingBaselineData / BillingReportingData (frame and from_series) on random monthly / bi-monthly read calendars (period lengths 25-35 / "
                "36-70 days with off-cycle periods of 5-24, 36-41, 71-80 days; thresholds 24/25/35/36/70/71) in " + ", ".join(ZONES) + "; real DailyBaselineData / "
                "DailyReportingData (frame, from_series) and downsample_and_clean_daily_data on 9-day 15/30/60-minute feeds in summer and across each zone's DST "
                "changes with NaN or absent-row gaps of 1/8, 1/6, exactly 1/2, one reading under 1/2 and over 1/2 of a day; first day covered for exactly / more "
                "than one half; daily readings unchanged. Reference: exact interval arithmetic in absolute time, relative tolerance 1e-9. distinct = case",
                known_findings=load_known("C08"))
    for case in cases(tier, seed):
        try:
            r = replay(case)
        except Exception as e:  # noqa
            import traceback
            r = {"ok": False, "problems": [f"harness exception {type(e).__name__}: {e}", traceback.format_exc()[-600:]]}
        ob = "C08." + case["kind"] + ("." + case["via"] if case["kind"] == "subdaily" else "")
        b.case(ob, case, r["ok"], nontrivial_key=str(case), detail=r["problems"],
               known_id="C08-subdaily-gap-not-scaled" if r.get("known_only") else None)
    return b.result()
