"""Single source of truth for MANIFEST.json (run tools_manifest.py after editing)."""
ENGINES = [
    {"name": "pyvc", "path": "pyvc/", "serves_properties": [],
     "kind_free_text": "own deductive verifier: symbolic execution of the real Python source (ast) of the functions under contract, sidecar contracts, verification conditions discharged by z3 (cvc5 second)"},
]
NOTES = ("Contract-based deductive verification; see DESIGN.md. Exit codes of ./check: 0 held, 1 violation "
         "(VIOLATION line), 2 undecided, 3 checker error.")
CHECKS = [
    {"id": "C11", "level": "proof", "modules": ["contracts.C11_curve"], "bounded": ["bounded.C11_floats"],
     "technique": "deductive verification: sidecar contracts on the real source, VCs by symbolic execution (pyvc), z3 (over the reals) + bounded IEEE-double grid through the real prediction path",
     "text": "Every claim of the statement (flat between the balance points, exact line / asymptote beyond them, monotone, "
             "Lipschitz-continuous, loads non-negative, exclusive and additive) is a postcondition of DailyModel._predict_submodel "
             "over all admissible coefficient vectors of all seven shapes and ALL real temperatures; the numba kernel full_model is "
             "verified against its own contract (curve7, result as long as T) and used modularly; models imported from CalTRACK 2.0 parameter files "
             "(DailyModelParameters.from_2_0_params) record a temperature range that leaves every balance point of the 2.0 grid (30..90 F) strictly inside it, with the "
             "documented slope signs. Obligations are generated from /repo's source text on every run. Bounded (labelled so, bounded/C11_floats.py): the same clauses and the documented formula in IEEE doubles through the real prediction path on random coefficient vectors of every shape (smoothing fractions adding up to 1 and more, joints 1e-9 apart, integer temperature dtype): the proofs are over the reals and cannot see rounding.",
     "note": "floats as reals (A1), numba==CPython on the subset (A2), exp replaced by axiom instances of the real exponential; "
             "admissibility predicate adm(shape) is what C12 proves of fitted models; known finding C11-edge excluded by its witness class",
     "not_covered": ["floating-point rounding of (m - c) + c in the additive identity", "coefficients outside adm(shape) (hand-written parameter files)"],
     },
    {"id": "C12", "level": "proof", "modules": ["contracts.C12_refine"], "bounded": ["bounded.C12_fits"],
     "technique": "deductive verification: sidecar contracts on the real source, VCs by symbolic execution (pyvc), z3 + bounded real fits (admissibility and curve preservation of what the installed optimisers return)",
     "text": "Post-processing of the optimiser's result: for every raw vector inside the box the fit functions build and every "
             "temperature, the real _set_model_key/_refine_model/reduce_model/from_np_arrays chain yields named coefficients that "
             "satisfy the admissibility predicate adm(shape) (order, range, slope signs, smoothing range, type<->fields), and the "
             "stored coefficients evaluate to the curve the objective scored (curve-preservation lemma). The construction of the optimiser's box (_hdd_tidd_cdd_smooth_update_bnds, _c_hdd_tidd_update_bnds) is under contract: ordered rows, non-negative lower bounds for slopes / smoothing, fresh breakpoint and intercept rows.",
     "note": "the optimiser is assumed to return a point inside its box (NLopt/SciPy are outside the verifier's reach); floats as reals; "
             "known finding C12-H excluded by its witness class",
     "not_covered": ["that the optimiser honours its bounds", "base load within the observed usage range beyond the quantile box", "behaviour of the fit on data"],
     },
    {"id": "C16", "level": "proof", "modules": ["contracts.C16_metrics"], "bounded": ["bounded.C16_metrics", "bounded.C16_fitted", "bounded.C16_caltrack"],
     "technique": "deductive verification: sidecar contracts on the real source, VCs by symbolic execution (pyvc) over abstract aggregates, z3 + bounded differentials (metric classes, fitted models end to end, CalTRACK metrics)",
     "text": "Every computed field of BaselineMetrics / ReportingMetrics equals the textbook formula over abstract aggregates of the "
             "finite rows (for all n, parameter counts and aggregate values), _safe_divide and both poor-fit gates are verified in iff form; row-wise: "
             "BaselineMetrics._df / ReportingMetrics._df keep a row exactly when observed AND predicted are ordinary numbers, values unchanged, residual = observed - predicted; "
             "DailyModel._get_error_metrics: RMSE / MAE of the residuals, CVRMSE = RMSE / mean(observed), PNRMSE = RMSE / (95th - 5th percentile), from the PLAIN RMSE. Bounded (labelled so): the statistics a fitted daily / billing / hourly model reports and stores against the formulas applied to its own predict(baseline) (hourly: non-interpolated hours; re-checked after another model was fitted); the CalTRACK hourly ModelMetrics against textbook formulas.",
     "note": "pandas aggregates (sum, var, quantile, autocorr, corr) are assumed contracts; floats as reals; known findings C16-safe-divide, C16-daily-ratio-unguarded "
             "(the daily CVRMSE / PNRMSE are numbers whatever the sign of their denominator), C16-fsu-zero-savings, C16-caltrack-abs-mean",
     "not_covered": ["numerical accuracy of pandas' var/autocorr/corr", "that X_predict equals what a later predict(baseline) rebuilds (needs a fit)"],
     },
    {"id": "C04", "level": "proof", "modules": ["contracts.C04_gate"], "bounded": ["bounded.C04_gate"],
     "technique": "deductive verification: exceptional postconditions of the real fit/predict/from_dict guards (pyvc symbolic execution, z3) + bounded real fits on data with each sufficiency defect",
     "text": "For the daily, billing and hourly model the guards of fit() and predict() are verified in iff form over symbolic-length "
             "disqualification lists, symbolic override flags and uninterpreted timezone strings: fit raises DataSufficiencyError exactly "
             "when the data is disqualified and not overridden, appends the poor-fit disqualification exactly when the gate condition holds; "
             "predict returns only when fitted, right data type, equal timezone and (not disqualified or overridden); from_dict restores "
             "lists of the stored length.",
     "note": "_fit/_adaptive_fit/_predict are opaque (assumed to return normally and to write only self.*); pydantic record construction "
             "and settings classes are opaque; end-to-end behaviour of fit on data is not decided here",
     "not_covered": ["that fit returns normally on every well-formed dataset (bounded part of C01/C10 exercises real fits)"],
     },
    {"id": "C01", "level": "proof", "modules": ["contracts.C01_roundtrip"], "bounded": ["flow.C01_restore", "bounded.C01_roundtrip"],
     "technique": "deductive verification of the prediction formula and coefficient packing (pyvc, z3) + bounded real round trips",
     "text": "Proof: for every admissible stored coefficient vector of all seven shapes and every real temperature the real "
             "_predict_submodel equals the documented piecewise formula evaluated from the JSON parameters alone; to_np_array and "
             "from_np_arrays are inverse. Bounded (labelled so): real to_json/from_json round trips of fitted daily, billing, hourly and "
             "CalTRACK-hourly models and of parameter-built models of all shapes, compared bit-for-bit.",
     "note": "pydantic / json / pandas serialisation internals are outside the verifier's reach (assumed contracts, exercised by the bounded part); "
             "known findings C11-edge / C11-edge-drop apply to the formula",
     "not_covered": ["round trip of models from arbitrary fits (bounded sample only)"],
     },
    {"id": "C20", "level": "proof", "modules": ["contracts.C20_windows"], "bounded": ["bounded.C20_windows"],
     "technique": "deductive verification over a sorted-index model of pandas label slicing (pyvc symbolic execution, z3 with quantified sortedness)",
     "text": "get_baseline_data / get_reporting_data are executed symbolically for every row count, every sorted integer-time index, every "
             "end/start instant, max_days and all option combinations: returned rows lie inside the requested limits (tight at both ends), the "
             "result is a fresh contiguous slice with only its last row blanked, the input is not written, the overshoot start is a nearest row, "
             "only the dedicated empty-selection error escapes, the gap warnings are emitted iff the data stops short.",
     "note": "assumed pandas contracts: inclusive label slicing of a sorted index, index.max/min/get_indexer(nearest), NaT comparisons False, "
             "Copy-on-Write; timestamps as integers (absolute time); dropna().empty as a monotone predicate of the window",
     "not_covered": ["unsorted input (pandas raises)", "values inside the slice beyond 'only the last row is blanked' (frame ghost state)"],
     },
    {"id": "C07", "level": "proof", "modules": ["contracts.C07_mask", "contracts.C19_aggregation", "contracts.C04_gate"], "bounded": ["bounded.C07_mask", "bounded.pandas_contracts"],
     "technique": "deductive verification on a row-wise model of pandas (pyvc symbolic execution of the real _predict on one arbitrary row, z3)",
     "text": "The real DailyModel._predict (with _initialize_data, _meter_segment, _predict_submodel) is executed on one arbitrary row with "
             "explicitly tagged NaN / +-inf cells: in the returned frame predicted is present iff observed is present, a day without a finite "
             "temperature has its usage masked, a day without usage gets no prediction, reported usage values are the supplied ones; for every "
             "split layout tried and with/without a usage column.",
     "note": "assumed pandas row-wise contracts (filters, dropna, isfinite, loc-assignment, isin on unique labels, left join, concat, sort_index); "
             "billing aggregation is covered by C19",
     "not_covered": ["frames with duplicated index labels (data classes remove duplicates)", "frames carrying extra columns with NaN cells"],
     },
    {"id": "C19", "level": "proof", "modules": ["contracts.C19_aggregation"], "bounded": ["bounded.C19_aggregation", "bounded.pandas_contracts"],
     "technique": "deductive verification: the real BillingModel.predict executed on the row-wise model with abstract aggregates (pyvc, z3)",
     "text": "For every aggregation argument (all strings symbolically, plus non-string values) the real BillingModel.predict is executed: "
             "unaggregated iff None/any-case 'none', 'monthly' -> MS, 'bimonthly' -> 2MS, anything else rejected; each output column is the "
             "documented aggregate (sum / mean / root-sum-square / first; the callable given to apply() is characterised SEMANTICALLY on three symbolic numbers, whatever its "
             "spelling) of the same prediction frame on its own index with the same period "
             "key, which with the partition law of sums gives conservation of totals across aggregation levels; no column is required that "
             "_predict need not return.",
     "note": "resample().agg() is an abstract aggregate (assumed: groups by calendar period of the series' own index); _predict by its C07 contract; "
             "one row per calendar period and the partition law are exercised by the bounded part",
     "not_covered": ["pandas' binning of resample('MS'/'2MS') itself"],
     },
    {"id": "C05", "level": "proof", "modules": ["contracts.C07_mask", "contracts.C05_prepare"], "bounded": ["bounded.C05_independence", "bounded.pandas_contracts"],
     "technique": "deductive verification (row-wise symbolic execution of the real daily _predict: free symbols of the predicted cells) + bounded paired predictions of real hourly/CalTRACK models",
     "text": "Proof (daily/billing): the symbolic per-row expressions of predicted / predicted_unc / heating_load / cooling_load returned by the "
             "real _predict contain no symbol of the row's observed cell, for every split layout; observed only decides whether the row is "
             "predicted at all (C07). Bounded (labelled so): real fitted hourly and CalTRACK-hourly models predict paired reporting sets "
             "differing only in observed, incl. DST weeks. Proof (data preparation): the daily / billing and CalTRACK hourly data classes blank a zero electricity reading and only that cell; the row's temperature reaches the aggregation untouched. Bounded additions: exact zeros / scaling by zero through the daily class fed with an hourly frame; an hourly model whose baseline has an outage over one (month, weekday) combination.",
     "note": "hourly / CalTRACK prediction paths run through scikit-learn, statsmodels and clustering code outside the verifier's reach: bounded only",
     "not_covered": ["hourly models whose baseline misses (month, weekday) pairs (excluded by the statement's precondition)"],
     },
    {"id": "C06", "level": "proof", "modules": ["contracts.C07_mask"], "bounded": ["bounded.C06_dst", "bounded.C06_daily_rows", "bounded.pandas_contracts"],
     "technique": "deductive verification (row-wise symbolic execution of the real daily _predict) + bounded-exhaustive run-time contract of the DST kernel over all IANA transitions",
     "text": "Proof (daily/billing): for one arbitrary input row the real _predict returns that row exactly once, in a frame produced by "
             "sort_index, without writing to the input, with predicted finite exactly when temperature (and usage, when supplied) is finite. "
             "Bounded-exhaustive (labelled so): the real _get_dst_indices/_transform_dst on every zone of the tz database x every offset change "
             "2000-2037; real hourly predictions return the reporting frame's index, all finite. Bounded additions: _transform_dst against a slot-by-slot specification for every set of up to three clock changes on six days in any order (absent / repeated hours 0, 1, 2, 23; "
             "first and last day); the change day as the first / last day of the frame; spans with several changes, the autumn one first; a span ending on the day clocks go back at "
             "midnight; two meters whose frames cover the same instants in zones with different changes, predicted one after the other; daily readings stamped at 00:00 / 09:00 in a frame "
             "with hourly temperatures (one row per local day); hourly spans that begin / end on the day of the change; every supplied timestamp has its row; the value predicted for a timestamp is unchanged when the span is extended by three days on either side.",
     "note": "hourly finiteness depends on fitted coefficients and scalers (bounded only); the data class's contiguous index is C17",
     "not_covered": ["hourly predictions finite for every fitted model (bounded sample only)"],
     },
    {"id": "C02", "level": "other", "modules": ["contracts.C02_frames"], "bounded": ["flow.C02_flow", "flow.C02_owned", "bounded.C02_history"], "engine": "pyvc+flow",
     "technique": "flow contracts (assigns / frame conditions) checked by abstract interpretation of the real AST + deductive frame obligations on fit (pyvc) + bounded histories",
     "text": "Frame conditions in the SPARK tradition: for predict, fit, the data-class constructors/from_series and the window functions a "
             "flow-sensitive points-to/effect analysis of /repo's AST (engine B) discharges 'nothing reachable from a parameter is mutated', "
             "'the predict path writes no self attribute outside an approved, value-preserving set', 'df/billing_df return a new object on every "
             "path'; symbolic execution (engine A) proves that fit leaves the data object's lists unmodified and un-aliased. History independence "
             "then follows by induction over calls. The bounded part replays scripted histories on real objects. Ownership obligations (flow/C02_owned.py): an attribute that is mutated in place is only ever assigned a fresh object. Bounded addition: a fitted model and a loaded copy compared before and after other models are constructed, loaded and fitted.",
     "note": "may-analysis over the repository's own code; library calls are pure unless in the mutator table; pandas Copy-on-Write semantics assumed; "
             "value preservation of the approved hourly predict-time writes is only exercised by the bounded histories",
     "not_covered": ["mutation inside scikit-learn / pandas objects by library code", "CalTRACK-hourly predict history beyond the flow obligations"],
     "explanation": "flow obligations + engine-A frame obligations discharged on every run; bounded histories labelled bounded",
     },
    {"id": "C18", "level": "proof", "modules": ["contracts.C18_caltrack"], "bounded": ["bounded.C18_hours", "bounded.pandas_contracts"],
     "technique": "deductive verification on the row-wise model (pyvc symbolic execution of the real weight / bin functions for one arbitrary hour, z3) + bounded-exhaustive hours",
     "text": "The real _segment_weights_* functions are executed for one arbitrary hour with a symbolic calendar month: full weight in exactly "
             "the segment centred on its month, one half in exactly the two neighbours (cyclic), the prediction map sends month k to the fitted "
             "segment centred on k and predicts with one_month segments. compute_temperature_bin_features is executed for 0..6 strictly increasing "
             "SYMBOLIC endpoints and a symbolic temperature cell: bins sum to T, each within its width, filled in order, endpoint in the lower bin, "
             "missing T gives missing bins.",
     "note": "assumed pandas contracts: index.month / element-wise map, boolean indexing, reindex(fill_value), Series addition; "
             "hour-of-week and occupancy features are decided by the bounded-exhaustive part only",
     "not_covered": ["pandas' own month arithmetic across timezones (exercised by the bounded part)"],
     },
    {"id": "C14", "level": "proof", "modules": ["contracts.C14_validators"], "bounded": ["bounded.C14_settings"],
     "technique": "deductive verification of the cross-field validators and the developer-mode gate (pyvc, z3) + table obligations + bounded-exhaustive enumeration of every settings field on the real pydantic classes",
     "text": "Proof: each cross-field validator of the daily settings raises iff its documented condition, for all numeric values; the recursive "
             "lock check runs iff developer_mode is off. Table obligations: the defaults of every settings class equal the approved constants (for "
             "the current daily profile the published dump in the documentation), for every order in which the model families are first "
             "constructed; the set of developer-only flags equals the approved set. Bounded-exhaustive (labelled so): every field x alternative "
             "values x key variants x dict/object x developer_mode x silent flag on the real classes.",
     "note": "pydantic's metaclass behaviour (validators run on every construction, frozen models) is outside the verifier's reach and is what the "
             "bounded enumeration exercises; approved constants for legacy/billing/hourly are the pinned source (change detector); the hourly "
             "tree has no developer flags, so the lock is vacuous there",
     "not_covered": ["settings changed after construction through private attributes"],
     },
    {"id": "C13", "level": "proof", "modules": ["contracts.C13_selection", "contracts.C07_mask"], "bounded": ["bounded.C13_combinations", "bounded.pandas_contracts"],
     "technique": "deductive verification of the argmin selection (symbolic criteria incl. NaN and -inf) and of the row routing on the row-wise model (pyvc, z3) + bounded-exhaustive enumeration of the real candidate generator",
     "text": "Proof: the real _best_combination returns the first candidate whose criterion is <= every other finite one, never a NaN-scored "
             "candidate, and the first exactly fitting (-inf) candidate when there is one, for every pattern of {real, NaN, -inf} over up to 4 candidates and all real criterion values; "
             "the real _predict/_meter_segment give each "
             "predicted row the split name of the unique component whose (season, day type) cell contains it (symbolic month and weekday of the LOCAL clock: calendar "
             "fields read after tz_convert(None) / tz_convert('UTC') are unrelated values in the model). "
             "Bounded-exhaustive (labelled so): the real _combinations over the finite space of allow flags x ellipsoid outcomes x day counts; real "
             "predictions via from_dict for every candidate split string x custom season / weekday maps x every date of 2023-2024.",
     "note": "the argmin proof unrolls the candidate list (length fixed per case); selection_criteria's formulas and the ellipsoid filter itself are not under contract",
     "not_covered": ["the published formula of each selection criterion", "that the ellipsoid filter honours custom weekday maps (it hard-codes Mon-Fri)"],
     },
    {"id": "C09", "level": "proof", "modules": ["contracts.C09_daymean", "contracts.C08_asfreq"], "bounded": ["flow.C09_tables", "bounded.C09_daymean", "bounded.pandas_contracts"],
     "technique": "deductive verification of the half rule and of as_freq (instantaneous) on a row-wise model (pyvc, z3) + call-site table obligations + bounded per-meter-day reference through the real data classes",
     "text": "Proof: for one arbitrary day of the aggregated frame, _compute_temperature_features (daily and billing classes, real source) blanks the day's "
             "temperature exactly when half or fewer of its readings are present (hourly feeds: not_null / (not_null + null) <= 1/2; sub-hourly feeds: "
             "coverage <= 1/2), otherwise hands the aggregated mean on unchanged -- in particular NOT divided by the coverage -- names the result "
             "'temperature' and passes the present / absent counts on untouched. Bounded (labelled so): real Daily / Billing data classes on daily "
             "meters read at 00:00 or 06:00 with hourly and half-hourly feeds in other zones, DST spans, gaps at and around one half of a day, "
             "against a per-meter-day reference of means and counts.",
     "note": "compute_temperature_features (merge_asof group-by) and as_freq enter the proof as opaque frames: that their means / counts are the per-meter-day "
             "ones is decided by the bounded part only. Known findings C09-subhourly-counts-are-flags, C09-subhourly-offhour-meter, C09-billing-23h-half. "
             "A day with no present reading carries NaN/NaN counts; accepted as 'no counts' (it fails the coverage test either way).",
     "not_covered": ["15-minute feeds", "feeds whose offset is not a whole number of sampling intervals (outside the quantifier)"]},
    {"id": "C10", "level": "proof", "modules": ["contracts.C10_sufficiency"], "bounded": ["flow.C10_tables", "bounded.C10_boundary", "bounded.pandas_contracts"],
     "technique": "deductive verification of the threshold checks (integer VCs) and of the day counting / data-dependent checks on a row-wise model (pyvc, z3) + call-set / writer-set table obligations from the AST + bounded end-to-end verdicts at the thresholds",
     "text": "Proof: each day-count check of SufficiencyCriteria appends exactly its own disqualification iff its published criterion (span outside "
             "329-365; valid days / meter days / temperature days under 90% of the span, in integer arithmetic) and writes nothing else, for all "
             "day counts. Table obligations: the checks each criteria class invokes for baseline / reporting equal the published lists; each check "
             "appends only to its published list; nothing else writes verdicts. Row-wise proofs (one arbitrary row of an arbitrary sufficiency frame): "
             "_compute_valid_meter_temperature_days counts each timestamp for the period up to the next one (elapsed days; the last row for nothing), "
             "as valid usage iff the reading is present, as valid temperature iff more than 90 % of its readings are present, as valid iff both "
             "(reporting: temperature only), and stores the rounded totals; no_data / negative usage (non-electric baselines only) are sound for the "
             "row; the monthly coverage checks (temperature; hourly: usage for baselines, irradiance when supplied) test the share of present readings "
             "per calendar month against < 0.9; the hourly sufficiency frame blanks each interpolated value by its own flag; _compute_n_days_total (symbolic "
             "instants: index.min / max of the COMPLETE rows tied to the arbitrary row, floor-valued .days): span = whole days from the first to the last complete row + 1 "
             "+ whole days to a requested start / end. Bounded (labelled so): real "
             "data classes (daily, hourly) exactly at every threshold, frame edges, both entry points.",
     "note": "group-by / sum aggregations enter as structural records (assumed pandas contracts); an unrecognised spelling of the monthly share is "
             "UNDECIDED, a changed column / operator / threshold is a violation. index.min / max, Timestamp subtraction and .days enter as assumed pandas contracts "
             "(pd.index_extremes, pd.timedelta_days); the verdicts end to end (incl. a daily meter read off-midnight in a frame with hourly temperatures) are "
             "decided by the bounded part only; known finding C10-offcycle-disqualifies",
     "not_covered": ["_compute_n_days_total (first / last complete row) symbolically", "billing period day counting"],
     },
    {"id": "C03", "level": "other", "explanation": "seed contract proved for all seeds; ownership / frame obligations decided on the AST; history independence itself decided by bounded repeated fits (labelled bounded)", "modules": ["contracts.C03_seed"], "bounded": ["flow.C03_tables", "bounded.C03_repeat"],
     "technique": "deductive verification of the seed validator (pyvc, integer VCs, z3, counterexamples replayed) + ownership / frame obligations from the AST of the whole package + bounded repeated fits under different process histories",
     "text": "Proof: for every seed value the hourly settings accept, _check_seed copies exactly that seed to _seed and to the ElasticNet and clustering "
             "settings and draws nothing from the global generator; a missing seed is drawn once and the same value reaches both consumers. Ownership "
             "obligations (violations when they fail): every attribute of a model / data / settings class that is mutated in place is only ever assigned "
             "a fresh object, so no in-place write can land in the caller's settings, in another model or in a module constant. Frame conditions "
             "(UNDECIDED when they stop holding, never an alarm): no module-level container is mutated, no mutable default is mutated or mutated "
             "through the attribute it escapes to, the only process-global source of nondeterminism is the approved seed draw, every random_state "
             "derives from the seed, the BLAS/OpenMP pins precede the numeric imports. Bounded (labelled so): real daily / billing / hourly fits in "
             "worker processes compared bit for bit across histories (fresh, after other fits with other settings and supplemental columns, tight "
             "batches on one data object, repeated, reordered, 4 threads in the environment, up to 16 concurrent workers).",
     "note": "history independence is a whole-history property; the deductive part decides the seed contract and the ownership invariant, the frame "
             "conditions are conditions of the argument and the bounded part decides the rest; nlopt / sklearn / numba determinism is assumed",
     "not_covered": ["CalTRACK hourly fits in the bounded part", "bit-identity across machines / BLAS builds (not claimed by the property)"]},
    {"id": "C08", "level": "proof", "modules": ["contracts.C08_conserve", "contracts.C08_asfreq"], "bounded": ["flow.C08_tables", "bounded.C08_conserve", "bounded.pandas_contracts"],
     "technique": "deductive verification of as_freq and the cleaning steps on a row-wise model (pyvc, z3) + call-site table obligations + bounded exact-arithmetic conservation through the real data classes",
     "text": "Proof: for one arbitrary row of an arbitrary frame, downsample_and_clean_daily_data keeps every day, blanks a day covered for half or "
             "less and divides a day covered for more than half by its coverage (a fully covered day is the plain sum); clean_billing_data keeps "
             "the billed amount of a period of 25..35 (bi-monthly 25..70) calendar days, blanks every other period and KEEPS its row, and does not "
             "touch its input. Period lengths are calendar days on the index's own clock (the elapsed-time day count, one less across the spring "
             "daylight-saving change, is modelled and refuted). Bounded (labelled so): real billing / daily data classes and the helpers against "
             "exact interval arithmetic in absolute time: per-period sums, per-day constant-rate shares, off-cycle thresholds, 15/30/60-minute "
             "feeds with gaps on DST days.",
     "note": "as_freq is proved over ASSUMED contracts of pandas' asfreq / resample: for one arbitrary reading whose interval is a whole number of "
             "minutes, the per-slot rate times the number of slots is the reading itself (conservation), the aggregate is a daily sum blanked where the "
             "bin starts with a missing slot, coverage is present slots / all slots, and the atomic step must divide every interval (obligation at the "
             "asfreq call; call-site table obligations keep every caller on the default 1-minute step and on the right series type). That pandas' "
             "asfreq / resample behave as assumed, and the end-to-end numbers, are decided by the bounded part only; known finding "
             "C08-subdaily-gap-not-scaled; fix 8ca01c07 (calendar-day period lengths)",
     "not_covered": ["pandas' asfreq / resample themselves (assumed contracts, exercised by the bounded part)", "readings not aligned to the reading interval / local midnight (outside the property's quantifier)"]},
    {"id": "C17", "level": "proof", "modules": ["contracts.C17_prepare"], "bounded": ["flow.C17_frame", "bounded.C17_keep", "bounded.pandas_contracts"],
     "technique": "deductive verification of interpolate() on a row-wise model (pyvc, one arbitrary row of an arbitrary frame, z3) + AST frame obligation on _interpolate_col + bounded cell-by-cell comparison through the real hourly data classes",
     "text": "Proof: for one arbitrary row of an arbitrary frame and every branch of the lag selection, interpolate() keeps every cell that was "
             "present on entry, sets interpolated_<col> exactly when the cell was missing on entry and is present on exit, leaves no cell missing "
             "in a column that has a present cell, writes no other column and returns the frame it was given. _interpolate_col enters through "
             "its frame contract (changes only missing cells), which a flow obligation discharges on the real AST. _HourlyData._set_data end to end for one arbitrary label "
             "(absent / present / duplicated): zero -> NaN for electricity only, first duplicate kept, the label once on the grid, keep / flag; that the whole-day grid "
             "CONTAINS every supplied on-the-hour label is proved from _get_contiguous_datetime (symbolic instants: index.min / max, Timestamp.replace(hour=0 / 23), "
             "date_range between known ends). Bounded (labelled so): real "
             "HourlyBaselineData / HourlyReportingData on 4-40 day frames with NaN cells, absent rows, duplicated rows, zeros, with and without "
             "irradiance, electric and gas, several zones including DST weeks: cell-by-cell comparison with the input, whole-local-day gap-free "
             "index, flag exactness, totality.",
     "note": "_HourlyData._set_data is also proved end to end for one arbitrary label that may be absent, present once or duplicated (the cells are "
             "those of its first occurrence): copy, zero -> NaN for electricity only, first duplicate kept (reindex would raise otherwise: uniqueness "
             "obligation), every supplied label once on the grid, keep / flag through the real interpolate(). Assumed: the pandas contracts of "
             "interpolate / ffill / bfill / reindex / date_range / index.duplicated, and the property's precondition that every supplied label is a "
             "point of the hourly grid; that the grid covers whole LOCAL days (DST) is decided by the bounded part only",
     "not_covered": ["frames longer than the bounded part's spans for the data-class skeleton", "the numeric quality of filled values (not part of the property)"],
     },
]
_NOT_BUILT = "machinery for this property is not built yet (see DESIGN.md §7 build order); not claimed"
NOT_APPLICABLE = [{"property_id": f"C{n:02d}", "reason": _NOT_BUILT} for n in range(1, 21) if n != 15 and f"C{n:02d}" not in {c["id"] for c in CHECKS}] + [
    {"property_id": "C15", "reason": "statistical accuracy bound on the output of a black-box non-convex optimiser over generated noisy data; no pre/postcondition on any function within reach expresses or decides it (DESIGN.md §4 C15)"},
]
NOT_APPLICABLE.sort(key=lambda d: d["property_id"])
