"""Bounded part of C16 (end to end): the statistics a FITTED model reports are those of its own predictions.
  daily / billing : model.error (RMSE, MAE, CVRMSE, PNRMSE) equals the textbook formulas applied to (observed, predict(baseline)) on the
                    rows that have both, and the model carries the poor-fit disqualification exactly when CVRMSE exceeds the threshold;
  hourly          : model.baseline_metrics (n, rmse, cvrmse, pnrmse, mae, mbe, r-squared) equals the formulas applied to predict(baseline)
                    on the hours that were NOT interpolated, and the poor-fit disqualification is present exactly when both adjusted
                    ratios miss their thresholds."""
import logging
import warnings

import numpy as np
import pandas as pd

from bounded.common import Bounded, load_known

MODULE = "bounded.C16_fitted"
logging.disable(logging.CRITICAL)
warnings.filterwarnings("ignore")


def _close(a, b, rel=1e-9):
    if a is None or b is None:
        return a is None and b is None
    a, b = float(a), float(b)
    if np.isnan(a) or np.isnan(b):
        return np.isnan(a) and np.isnan(b)
    return abs(a - b) <= rel * max(1.0, abs(a), abs(b))


def daily_case(case):
    import opendsm.eemeter as em
    import bounded.C12_fits as F
    df = F.build(case)
    if case["family"] == "billing":
        bills = df["observed"].resample("MS").sum()
        bills = pd.concat([bills, pd.Series([np.nan], index=[bills.index[-1] + pd.offsets.MonthBegin(1)])])
        temp = df["temperature"].resample("h").ffill()
        data = em.BillingBaselineData.from_series(bills.rename("observed"), temp.rename("temperature"), is_electricity_data=True)
        m = em.BillingModel().fit(data, ignore_disqualification=True)
    else:
        data = em.DailyBaselineData(df, is_electricity_data=True)
        m = em.DailyModel(model=case.get("profile", "current")).fit(data, ignore_disqualification=True)
    p = m.predict(data, ignore_disqualification=True)
    ok = np.isfinite(p["predicted"].astype(float)) & np.isfinite(p["observed"].astype(float))
    obs, pred = p.loc[ok, "observed"].astype(float).values, p.loc[ok, "predicted"].astype(float).values
    r = obs - pred
    rmse = float(np.sqrt(np.mean(r ** 2)))
    ref = {"RMSE": rmse, "MAE": float(np.mean(np.abs(r))), "CVRMSE": rmse / float(np.mean(obs)),
           "PNRMSE": rmse / float(np.diff(np.quantile(obs, [0.05, 0.95]))[0])}
    bad = []
    for k, v in ref.items():
        if not _close(m.error[k], v, 1e-7):
            bad.append(f"reported {k} = {m.error[k]!r} but the model's predictions of its baseline give {v!r}")
    thr = m.settings.cvrmse_threshold
    has = any(w.qualified_name == "eemeter.model_fit_metrics.cvrmse" for w in m.disqualification)
    if has != (m.error["CVRMSE"] > thr):
        bad.append(f"poor-fit disqualification present = {has} but CVRMSE {m.error['CVRMSE']} vs threshold {thr}")
    # ... and they stay those of THIS model when another model is fitted afterwards
    other = dict(case, seed=case["seed"] + 991, base=case.get("base", 20) * 2.5, noise=0.3)
    other_df = F.build(other)
    em.DailyModel().fit(em.DailyBaselineData(other_df, is_electricity_data=True), ignore_disqualification=True)
    for k, v in ref.items():
        if not _close(m.error[k], v, 1e-7):
            bad.append(f"after another model was fitted, reported {k} = {m.error[k]!r} but this model's predictions give {v!r}")
            break
    doc = m.to_dict()
    stored = doc.get("info", {}).get("error", {})
    for k in ref:
        if k in stored and not _close(stored[k], m.error[k], 1e-12):
            bad.append(f"stored {k} = {stored[k]!r} differs from the reported one {m.error[k]!r}")
    return {"ok": not bad, "problems": bad, "cvrmse": m.error["CVRMSE"]}


def hourly_case(case):
    import opendsm.eemeter as em
    rng = np.random.default_rng(case["seed"])
    n = case["n_days"] * 24
    idx = pd.date_range("2022-01-01", periods=n, freq="h", tz="America/Chicago")
    h = np.arange(n)
    T = 55 + 25 * np.sin((h / 24 - 105) / 365 * 2 * np.pi) + 6 * np.sin(h / 24 * 2 * np.pi) + rng.normal(0, 2, n)
    obs = 1.0 + 0.05 * np.maximum(50 - T, 0) + 0.04 * np.maximum(T - 68, 0) + 0.3 * np.sin(h / 24 * 2 * np.pi) ** 2
    obs = obs * (1 + rng.normal(0, case.get("noise", 0.08), n))
    if case.get("poor_fit"):
        obs = rng.lognormal(0.0, 1.6, n)
    df = pd.DataFrame({"temperature": T, "observed": obs}, index=idx)
    for a, k in case.get("gaps", []):
        df.iloc[a:a + k, df.columns.get_loc(case.get("gap_col", "observed"))] = np.nan
    data = em.HourlyBaselineData(df, is_electricity_data=True)
    m = em.HourlyModel(settings={"seed": 1}).fit(data, ignore_disqualification=True)
    p = m.predict(data, ignore_disqualification=True)
    flags = [c for c in p.columns if c.startswith("interpolated_")]
    keep = ~p[flags].any(axis=1) if flags else pd.Series(True, index=p.index)
    q = p.loc[keep]
    ok = np.isfinite(q["predicted"].astype(float)) & np.isfinite(q["observed"].astype(float))
    o, f = q.loc[ok, "observed"].astype(float).values, q.loc[ok, "predicted"].astype(float).values
    r = o - f
    nn = len(r)
    bm = m.baseline_metrics
    rmse = float(np.sqrt(np.mean(r ** 2)))
    ref = {"n": nn, "rmse": rmse, "mae": float(np.mean(np.abs(r))), "cvrmse": rmse / float(np.mean(o)),
           "pnrmse": rmse / float(np.quantile(o, 0.75) - np.quantile(o, 0.25)) if hasattr(bm, "pnrmse") else None}
    bad = []
    if int(keep.sum()) == len(p) and case.get("gaps"):
        bad.append("harness: no interpolated hours although gaps were made")
    for k in ("n", "rmse", "mae", "cvrmse"):
        if not _close(getattr(bm, k), ref[k], 1e-7):
            bad.append(f"stored baseline {k} = {getattr(bm, k)!r} but predict(baseline) on the non-interpolated hours gives {ref[k]!r}")
    cv, pn = bm.cvrmse_adj, bm.pnrmse_adj
    acceptable = (cv is not None and cv < m.settings.cvrmse_threshold) or (pn is not None and pn < m.settings.pnrmse_threshold)
    has = any("model_fit" in w.qualified_name or "cvrmse" in w.qualified_name.lower() or "pnrmse" in w.qualified_name.lower() for w in m.disqualification)
    if has == acceptable:
        bad.append(f"poor-fit disqualification present = {has} but cvrmse_adj {cv} / pnrmse_adj {pn} vs thresholds {m.settings.cvrmse_threshold} / {m.settings.pnrmse_threshold}")
    return {"ok": not bad, "problems": bad, "interpolated_hours": int((~keep).sum())}


def replay(case):
    return hourly_case(case) if case["family"] == "hourly" else daily_case(case)


def cases(tier, seed):
    import bounded.C12_fits as F
    out = []
    pool = [c for c in F.cases("thorough", seed) if c["n_days"] == 365]
    want = ["both", "heating", "weekend", "noisy", "outliers"] if tier == "quick" else sorted({c["name"] for c in pool})
    for c in pool:
        if c["name"] in want and (tier == "thorough" or (c["family"], c["profile"]) in (("daily", "current"), ("billing", "current")) and c["name"] in ("both", "heating", "noisy", "outliers")
                                  or (c["family"], c["profile"], c["name"]) == ("daily", "legacy", "weekend")):
            out.append(dict(c))
    # a daily meter whose usage is unrelated to the weather: CVRMSE above the threshold
    out.append({"name": "poor_fit", "family": "daily", "profile": "current", "n_days": 365, "seed": 77, "base": 30, "heat_slope": 0, "cool_slope": 0, "heat_bp": 50, "cool_bp": 65,
                "noise": 1.4})
    out.append({"family": "hourly", "n_days": 150, "seed": 3, "gaps": [[500, 30], [1500, 6], [2500, 60]]})
    out.append({"family": "hourly", "n_days": 150, "seed": 4, "gaps": [[700, 48]], "gap_col": "temperature"})
    out.append({"family": "hourly", "n_days": 120, "seed": 5, "poor_fit": True, "gaps": [[300, 12]]})
    if tier == "thorough":
        out.append({"family": "hourly", "n_days": 365, "seed": 6, "gaps": [[100, 20], [4000, 100]]})
        out.append({"family": "hourly", "n_days": 200, "seed": 7, "noise": 0.5, "gaps": []})
    return out


def run(tier="quick", seed=0):
    from concurrent.futures import ProcessPoolExecutor
    b = Bounded("C16", "C16.fitted", MODULE,
                "real DailyModel (current, legacy) / BillingModel fits on the synthetic baselines of bounded/C12_fits.py (both, heating, weekend, noisy, outliers; thorough: all "
                "regimes) and a weather-independent meter; real HourlyModel fits on 120-365 day meters with usage / temperature gaps (interpolated hours) and a poor-fit meter. "
                "Reported statistics vs the formulas applied to predict(baseline) (hourly: non-interpolated hours only); poor-fit disqualification vs thresholds; stored = "
                "reported. distinct = case", known_findings=load_known("C16"))
    cs = cases(tier, seed)
    with ProcessPoolExecutor(max_workers=min(12, len(cs))) as ex:
        futs = [ex.submit(replay, c) for c in cs]
        for c, f in zip(cs, futs):
            try:
                r = f.result()
            except Exception as e:  # noqa
                import traceback
                r = {"ok": False, "problems": [f"harness exception {type(e).__name__}: {e}", traceback.format_exc()[-400:]]}
            b.case("C16.fitted." + c["family"], c, r["ok"], nontrivial_key=str(c), detail=r["problems"])
    return b.result()
