"""C09 view of the as_freq call-site obligations (see flow/C08_tables.py)."""
from flow.C08_tables import run as _run


def run(tier="quick", seed=0):
    return _run(tier, seed, prop="C09")
