"""C20 -- baseline and reporting windows never leak across the intervention.

get_baseline_data / get_reporting_data are executed on the sorted-index model (pyvc/sortedindex.py): the input is
n rows with a non-decreasing integer (ns) index, every derived frame is a window of positions.  All claims are
for every n, every index, every end/start instant, every max_days and every option combination.
"""
from pyvc.api import *  # noqa

GBD = repo("opendsm/eemeter/common/transform.py::get_baseline_data")
GRD = repo("opendsm/eemeter/common/transform.py::get_reporting_data")
DAY = 86400 * 10 ** 9

OPAQUE = {"opendsm/eemeter/common/warnings.py::EEMeterWarning.warn": None}

OPTS = [{"has_limit": hl, "has_max": hm, "overshoot": ov, "ignore": ig, "ndays": nd}
        for hl in [True, False] for hm in [True, False] for ov in [False, True] for ig in [False, True]
        for nd in [False, True] if not (nd and not (ov or ig))]


def names(warns):
    return [w.qualified_name for w in warns]


@harness("C20.baseline", prop="C20", cases=OPTS)
def baseline(has_limit, has_max, overshoot, ignore, ndays, n: Int, end: Int, max_days: Int, nd: Int, p: Int, q: Int):
    assume(And(max_days >= 0, nd >= 0))
    data = sorted_frame(n)
    e = timestamp(end) if has_limit else None
    md = max_days if has_max else None
    out = outcome(GBD, data, None, e, md, overshoot, nd if ndays else None, ignore)
    check("C20.base.only_dedicated_error", Or(out.returned, out.raises("NoBaselineDataError")))
    check("C20.input_untouched", Not(data.mutated))
    if out.returned:
        res = out.value[0]
        warns = out.value[1]
        check("C20.base.slice", And(0 <= res.lo, res.lo < res.hi, res.hi <= n))
        check("C20.base.independent_copy", And(res.fresh, Not(is_same(res, data))))
        check("C20.base.only_last_blanked", res.blank_last)
        check("C20.base.nonempty_selection", has_complete(res.lo, res.hi))
        assume(And(res.lo <= p, p < res.hi))
        if has_limit:
            check("C20.base.end", label_at(p) <= end)
            # the slice reaches up to the end: the first row after it (if any) is beyond the end
            check("C20.base.end.tight", implies(res.hi < n, label_at(res.hi) > end))
        else:
            check("C20.base.end.all", res.hi == n)
        if has_limit and has_max and not overshoot:
            if ignore:
                # day count starts at the last reading at or before the end (documented option)
                check("C20.base.start", label_at(p) >= label_at(res.hi - 1) - max_days * DAY)
            else:
                check("C20.base.start", label_at(p) >= end - max_days * DAY)
                check("C20.base.start.tight", implies(res.lo > 0, label_at(res.lo - 1) < end - max_days * DAY))
        if has_limit and has_max and overshoot and not ignore:
            # first returned row is a row nearest to end - max_days among the rows at or before the end
            target = end - max_days * DAY
            assume(And(0 <= q, q < res.hi))
            d_first = ite(label_at(res.lo) >= target, label_at(res.lo) - target, target - label_at(res.lo))
            d_q = ite(label_at(q) >= target, label_at(q) - target, target - label_at(q))
            check("C20.base.overshoot.nearest", d_first <= d_q)
        if not (has_limit and has_max):
            if not overshoot:
                check("C20.base.start.all", res.lo == 0)
        # warnings: a gap between the requested end and the data is reported
        gap_end = "eemeter.get_baseline_data.gap_at_baseline_end" in names(warns)
        if has_limit:
            check("C20.base.warn.end", iff(gap_end, label_at(n - 1) < end), finding="C20-warn-ignored-gap",
                  unless=ignore)
        else:
            check("C20.base.warn.end", Not(gap_end))
    else:
        # empty selection: no complete row among the rows the request selects
        if not overshoot and not ignore and has_limit and has_max:
            lo = fresh_int("slo")
            hi = fresh_int("shi")
            assume(And(0 <= lo, lo <= hi, hi <= n))
            assume(And(implies(hi > 0, label_at(hi - 1) <= end), implies(hi < n, label_at(hi) > end)))
            assume(And(implies(lo > 0, label_at(lo - 1) < end - max_days * DAY), implies(lo < n, label_at(lo) >= end - max_days * DAY)))
            check("C20.base.empty_iff", Not(has_complete(lo, hi)))


@harness("C20.baseline.args", prop="C20")
def baseline_args(n: Int, start: Int, max_days: Int):
    data = sorted_frame(n)
    out = outcome(GBD, data, timestamp(start), None, max_days)
    check("C20.base.args", out.raises("ValueError"))


@harness("C20.reporting", prop="C20", cases=[c for c in OPTS if not c["ndays"]])
def reporting(has_limit, has_max, overshoot, ignore, ndays, n: Int, start: Int, max_days: Int, p: Int, q: Int):
    assume(max_days >= 0)
    data = sorted_frame(n)
    s = timestamp(start) if has_limit else None
    md = max_days if has_max else None
    out = outcome(GRD, data, s, None, md, overshoot, ignore)
    check("C20.rep.only_dedicated_error", Or(out.returned, out.raises("NoReportingDataError")))
    check("C20.input_untouched", Not(data.mutated))
    if out.returned:
        res = out.value[0]
        warns = out.value[1]
        check("C20.rep.slice", And(0 <= res.lo, res.lo < res.hi, res.hi <= n))
        check("C20.rep.independent_copy", And(res.fresh, Not(is_same(res, data))))
        check("C20.rep.only_last_blanked", res.blank_last)
        check("C20.rep.nonempty_selection", has_complete(res.lo, res.hi))
        assume(And(res.lo <= p, p < res.hi))
        if has_limit:
            check("C20.rep.start", label_at(p) >= start)
            check("C20.rep.start.tight", implies(res.lo > 0, label_at(res.lo - 1) < start))
        else:
            check("C20.rep.start.all", res.lo == 0)
        if has_limit and has_max and not overshoot:
            if ignore:
                check("C20.rep.end", label_at(p) <= label_at(res.lo) + max_days * DAY)
            else:
                check("C20.rep.end", label_at(p) <= start + max_days * DAY)
                check("C20.rep.end.tight", implies(res.hi < n, label_at(res.hi) > start + max_days * DAY))
        if has_limit and has_max and overshoot and not ignore:
            target = start + max_days * DAY
            assume(And(res.lo <= q, q < n))
            d_last = ite(label_at(res.hi - 1) >= target, label_at(res.hi - 1) - target, target - label_at(res.hi - 1))
            d_q = ite(label_at(q) >= target, label_at(q) - target, target - label_at(q))
            check("C20.rep.overshoot.nearest", d_last <= d_q)
        gap_start = "eemeter.get_reporting_data.gap_at_reporting_start" in names(warns)
        if has_limit:
            check("C20.rep.warn.start", iff(gap_start, start < label_at(0)), finding="C20-warn-ignored-gap", unless=ignore)
        else:
            check("C20.rep.warn.start", Not(gap_start))


@harness("C20.reporting.args", prop="C20")
def reporting_args(n: Int, end: Int, max_days: Int):
    data = sorted_frame(n)
    out = outcome(GRD, data, None, timestamp(end), max_days)
    check("C20.rep.args", out.raises("ValueError"))


@harness("C20.baseline.both", prop="C20")
def baseline_both(n: Int, start: Int, end: Int, p: Int):
    """both limits explicit (max_days=None): rows inside [start, end], the two gap warnings independent"""
    data = sorted_frame(n)
    out = outcome(GBD, data, timestamp(start), timestamp(end), None)
    check("C20.base.only_dedicated_error", Or(out.returned, out.raises("NoBaselineDataError")))
    if out.returned:
        res = out.value[0]
        ws = names(out.value[1])
        assume(And(res.lo <= p, p < res.hi))
        check("C20.base.both.inside", And(label_at(p) >= start, label_at(p) <= end))
        check("C20.base.both.warn.end", iff("eemeter.get_baseline_data.gap_at_baseline_end" in ws, label_at(n - 1) < end))
        check("C20.base.both.warn.start", iff("eemeter.get_baseline_data.gap_at_baseline_start" in ws, start < label_at(0)))


@harness("C20.reporting.both", prop="C20")
def reporting_both(n: Int, start: Int, end: Int, p: Int):
    data = sorted_frame(n)
    out = outcome(GRD, data, timestamp(start), timestamp(end), None)
    check("C20.rep.only_dedicated_error", Or(out.returned, out.raises("NoReportingDataError")))
    if out.returned:
        res = out.value[0]
        ws = names(out.value[1])
        assume(And(res.lo <= p, p < res.hi))
        check("C20.rep.both.inside", And(label_at(p) >= start, label_at(p) <= end))
        check("C20.rep.both.warn.end", iff("eemeter.get_reporting_data.gap_at_reporting_end" in ws, label_at(n - 1) < end))
        check("C20.rep.both.warn.start", iff("eemeter.get_reporting_data.gap_at_reporting_start" in ws, start < label_at(0)))
