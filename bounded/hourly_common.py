"""Real hourly models for the bounded parts (fit takes ~1-2 s per year of data in this sandbox)."""
import logging
import warnings

import numpy as np
import pandas as pd

logging.disable(logging.CRITICAL)
warnings.filterwarnings("ignore")
_CACHE = {}


def hourly_frame(tz="America/Chicago", with_ghi=False):
    key = ("frame", tz, with_ghi)
    if key not in _CACHE:
        from opendsm.eemeter.samples import load_sample
        meter, temp, meta = load_sample("il-electricity-cdd-hdd-hourly")
        df = pd.concat([meter.rename(columns={"value": "observed"}), temp.rename("temperature")], axis=1).dropna()
        # re-label the absolute instants as local wall-clock hours of `tz` (keeps DST days of that zone)
        df = df.tz_convert(tz)
        if with_ghi:
            # clear-sky bell times a slowly varying cloud factor (so that the value filled into a gap depends on WHICH
            # lags/leads the interpolation uses)
            h = df.index.hour.values + 0.5
            rng = np.random.default_rng(7)
            cloud = pd.Series(rng.uniform(0.35, 1.0, len(df)), index=df.index).rolling(9, min_periods=1, center=True).mean().values
            df["ghi"] = (np.clip(np.cos(np.pi / 2 * (h - 12) / 6.5), 0, None) * 800 * cloud).round(1)
            df["observed"] = (df["observed"] - 0.004 * df["ghi"]).round(3)
        _CACHE[key] = df
    return _CACHE[key].copy()


def fitted_hourly(tz="America/Chicago", year=2016, with_ghi=False):
    key = ("model", tz, year, with_ghi)
    if key not in _CACHE:
        import opendsm.eemeter as em
        df = hourly_frame(tz, with_ghi)
        base = df.loc[f"{year}-01-01":f"{year}-12-31"]
        data = em.HourlyBaselineData(base, is_electricity_data=True)
        m = em.HourlyModel().fit(data, ignore_disqualification=True)
        _CACHE[key] = (m, data)
    return _CACHE[key]


def reporting(tz, start, end, transform=None, with_ghi=False):
    import opendsm.eemeter as em
    df = hourly_frame(tz, with_ghi)
    # whole local days by DATE (a date-string slice fails where the end of the day is an ambiguous wall-clock time)
    df = df[(df.index.date >= pd.Timestamp(start).date()) & (df.index.date <= pd.Timestamp(end).date())]
    if transform is not None:
        df = transform(df.copy())
    return em.HourlyReportingData(df, is_electricity_data=True)
