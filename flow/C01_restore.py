"""Restoration obligation of C01 on the real AST (re-read from /repo every run):
  C01.restore.<Class> : every attribute that the fit path WRITES and the predict path READS is restored by from_dict -- assigned on the object
                        it builds (directly or through a nested attribute such as _feature_scaler.mean_), or passed to the constructor, or
                        recomputed inside the predict path itself.  A fitted attribute that predict uses but from_dict never sets would make a
                        reloaded model predict from a constructor default.
Flow-insensitive on purpose in the direction that cannot raise a false alarm: a write anywhere in the predict path counts as 'recomputed'.
The analysis is path-insensitive, so an obligation it cannot discharge is reported as UNDECIDED (exit 2), never as a violation; the bounded round
trips (bit-identical predictions of the reloaded model) decide then."""
import ast
import os
import time

REPO = os.environ.get("VERIF_REPO", "/repo")
CLASSES = [("opendsm/eemeter/models/hourly/model.py", "HourlyModel", []),
           ("opendsm/eemeter/models/daily/model.py", "DailyModel", []),
           ("opendsm/eemeter/models/hourly_caltrack/wrapper.py", "HourlyModel", [])]


def _methods(cls):
    return {m.name: m for m in cls.body if isinstance(m, (ast.FunctionDef, ast.AsyncFunctionDef))}


def _reach(meths, start):
    seen, st = set(), [start]
    while st:
        x = st.pop()
        if x in seen or x not in meths:
            continue
        seen.add(x)
        for n in ast.walk(meths[x]):
            if isinstance(n, ast.Call) and isinstance(n.func, ast.Attribute) and isinstance(n.func.value, ast.Name) and n.func.value.id == "self" and n.func.attr in meths:
                st.append(n.func.attr)
    return seen


def _base_attr(node, recv):
    """'a' for recv.a, recv.a.b, recv.a[...] ..."""
    while isinstance(node, (ast.Attribute, ast.Subscript)):
        inner = node.value
        if isinstance(node, ast.Attribute) and isinstance(inner, ast.Name) and inner.id == recv:
            return node.attr
        node = inner
    return None


def _defaulted_params_always_passed(meths, names, m):
    """parameters of method m with default None that EVERY call of m from the methods `names` passes explicitly"""
    fn = meths[m]
    params = [a.arg for a in fn.args.args][1:]
    defaults = dict(zip(params[::-1], fn.args.defaults[::-1]))
    cand = {p for p, d in defaults.items() if isinstance(d, ast.Constant) and d.value is None}
    if not cand:
        return set()
    calls = []
    for c in names:
        for n in ast.walk(meths[c]):
            if isinstance(n, ast.Call) and isinstance(n.func, ast.Attribute) and isinstance(n.func.value, ast.Name) and n.func.value.id == "self" and n.func.attr == m:
                calls.append(n)
    if not calls:
        return set()
    out = set()
    for p in cand:
        pos = params.index(p)
        if all(len(c.args) > pos or any(k.arg == p for k in c.keywords) for c in calls):
            out.add(p)
    return out


def _loads(meths, names, recv="self"):
    """attributes of `recv` read in the methods `names`; a read inside `if <param> is None:` is skipped when every call of that method from
    `names` passes the parameter (the fallback to stored state is then unreachable from this path)"""
    out = set()
    for m in names:
        passed = _defaulted_params_always_passed(meths, names, m)
        skip = set()
        for n in ast.walk(meths[m]):
            if isinstance(n, ast.If) and isinstance(n.test, ast.Compare) and isinstance(n.test.left, ast.Name) and n.test.left.id in passed and \
                    len(n.test.ops) == 1 and isinstance(n.test.ops[0], ast.Is) and isinstance(n.test.comparators[0], ast.Constant) and n.test.comparators[0].value is None:
                for st in n.body:
                    skip |= {id(x) for x in ast.walk(st)}
        for n in ast.walk(meths[m]):
            if id(n) in skip:
                continue
            if isinstance(n, ast.Attribute) and isinstance(n.value, ast.Name) and n.value.id == recv and isinstance(n.ctx, ast.Load) and n.attr not in meths:
                out.add(n.attr)
    return out


def _stores(meths, names, recv="self"):
    out = set()
    for m in names:
        for n in ast.walk(meths[m]):
            targets = n.targets if isinstance(n, ast.Assign) else [n.target] if isinstance(n, (ast.AugAssign, ast.AnnAssign)) else []
            for t in targets:
                for e in ([t] if not isinstance(t, (ast.Tuple, ast.List)) else t.elts):
                    a = _base_attr(e, recv)
                    if a:
                        out.add(a)
    return out


def obligations():
    obs = []
    for rel, cname, _ in CLASSES:
        tree = ast.parse(open(os.path.join(REPO, rel)).read())
        cls = next((n for n in tree.body if isinstance(n, ast.ClassDef) and n.name == cname), None)
        name = f"C01.restore.{rel.split('/')[-2]}.{cname}"
        if cls is None:
            obs.append({"name": name, "ok": None, "detail": "class not found"})
            continue
        meths = _methods(cls)
        if not {"fit", "predict", "from_dict"} <= set(meths):
            obs.append({"name": name, "ok": None, "detail": f"fit / predict / from_dict not all defined here ({sorted(set(meths) & {'fit', 'predict', 'from_dict'})})"})
            continue
        fit_path, predict_path = _reach(meths, "fit"), _reach(meths, "predict")
        fit_writes = _stores(meths, fit_path)
        predict_reads = _loads(meths, predict_path)
        predict_writes = _stores(meths, predict_path)
        fd = meths["from_dict"]
        # the object from_dict builds: names bound to cls(...) / the class name(...)
        built = set()
        ctor_args = set()
        for n in ast.walk(fd):
            if isinstance(n, ast.Assign) and isinstance(n.value, ast.Call) and isinstance(n.value.func, ast.Name) and n.value.func.id in ("cls", cname):
                for t in n.targets:
                    if isinstance(t, ast.Name):
                        built.add(t.id)
                ctor_args |= {k.arg for k in n.value.keywords if k.arg}
        restored = set()
        for b in built:
            restored |= _stores(meths, ["from_dict"], b)
        # constructor arguments restore the attribute of the same name (settings=settings); and whatever __init__ derives from them
        restored |= ctor_args
        missing = sorted((fit_writes & predict_reads) - restored - predict_writes)
        obs.append({"name": name, "ok": not missing,
                    "detail": (f"fitted attributes used by predict but never restored by from_dict: {missing}" if missing else
                               f"{len(fit_writes & predict_reads)} fitted attributes used by predict; restored {sorted((fit_writes & predict_reads) & restored)}; "
                               f"recomputed in the predict path {sorted(((fit_writes & predict_reads) - restored) & predict_writes)}")})
    return obs


def run(tier="quick", seed=0):
    t0 = time.time()
    verif = os.path.dirname(os.path.dirname(os.path.abspath(__file__)))
    obs = obligations()
    viol, und = [], []
    for o in obs:
        if o["ok"]:
            continue
        if o["ok"] is None or True:
            # path-insensitive analysis: a read it cannot rule out is not a proof of a missing restoration -> UNDECIDED, the bounded round trips decide
            und.append({"obligation": o["name"], "reason": o["detail"]})
            continue
        path = os.path.join(verif, "replay", f"C01-{o['name']}.py")
        os.makedirs(os.path.dirname(path), exist_ok=True)
        with open(path, "w") as f:
            f.write(f'#!/venv/bin/python\n"""Restoration obligation {o["name"]} failed (structural: no failing input).\n{o["detail"]}\n"""\nprint({o["detail"]!r})\nimport sys; sys.exit(1)\n')
        viol.append({"obligation": o["name"], "replay": path, "reproduced": False, "detail": o["detail"]})
    return {"name": "C01.restore", "kind": "table", "n_obligations": len(obs), "n_discharged": sum(bool(o["ok"]) for o in obs),
            "obligations": {o["name"]: ("discharged" if o["ok"] else "failed" if o["ok"] is False else "undecided") for o in obs}, "violations": viol, "known": [],
            "undecided": und, "details": {o["name"]: o["detail"] for o in obs}, "wall_s": round(time.time() - t0, 2)}


if __name__ == "__main__":
    for o in obligations():
        print(o)
