#!/usr/bin/env python
"""Regenerates MANIFEST.json from the registry in checks_registry.py (single source of truth)."""
import json, os, sys
HERE = os.path.dirname(os.path.abspath(__file__))
sys.path.insert(0, HERE)
from checks_registry import CHECKS, NOT_APPLICABLE, ENGINES, NOTES

def main():
    m = {
        "version": 1,
        "setup_cmd": "./setup.sh",
        "hooks": {
            "guard": "OPENDSM_EEMETER_VERIF",
            "enable": "OPENDSM_EEMETER_VERIF=1 in the environment of the process that imports opendsm (set by bounded/C12_fits.py for its fit workers only): "
                      "OptimizedResult keeps the optimiser's raw vector so that a curve mismatch of a real fit can be attributed to known finding C12-H. "
                      "The proofs need no hook: contracts are sidecar files and the prover reads /repo's source text",
            "baseline_off_cmd": "cd /repo && /venv/bin/python -m pytest -ra -q -p no:cacheprovider --timeout=900 --continue-on-collection-errors",
            "source_commits": ["00f534c2"],
            "add_only": True,
        },
        "engines": ENGINES,
        "checks": [],
        "notes": NOTES,
        "not_applicable": NOT_APPLICABLE,
    }
    for c in CHECKS:
        pid = c["id"]
        m["checks"].append({
            "property_id": pid,
            "quick_cmd": f"./check {pid} --tier quick",
            "thorough_cmd": f"./check {pid} --tier thorough",
            "evidence_file": f"evidence/{pid}.json",
            "replay_cmd_template": "/venv/bin/python {path}",
            "engine": c.get("engine", "pyvc"),
            "level_claimed": {"category": c["level"], "text": c["text"], "design_ref": c.get("design_ref", "DESIGN.md §4 " + pid)},
            "level_note": c["note"],
            "technique": c["technique"],
        })
    with open(os.path.join(HERE, "MANIFEST.json"), "w") as f:
        json.dump(m, f, indent=1)
        f.write("\n")
    import jsonschema
    jsonschema.validate(m, json.load(open("/root/.vp/MANIFEST.schema.json")))
    print("MANIFEST.json written:", len(m["checks"]), "checks,", len(m["not_applicable"]), "not applicable")

if __name__ == "__main__":
    main()
