"""C17 (proof part) -- interpolate() of opendsm/common/hourly_interpolation.py on the row-wise model: for ONE ARBITRARY ROW
of an arbitrary frame (any length: every branch of the lag selection is explored),
   keep  : a cell that was present on entry leaves with the same value,
   flag  : interpolated_<col> is True exactly when the cell was missing on entry and is present on exit,
   total : a column with at least one present cell has no missing cell on exit,
   frame : no other column is written, the frame handed back is the one passed in.
_interpolate_col (numpy autocorrelation fill) is replaced by its frame contract 'changes only missing cells', which is itself
discharged on the real AST by flow/C17_frame.py; Series.interpolate / ffill / bfill are assumed pandas contracts (listed in the
evidence).  The data-class skeleton (whole local days, duplicates, zero -> NaN end to end) is the bounded part."""
from pyvc.api import *  # noqa

INTERPOLATE = repo("opendsm/common/hourly_interpolation.py::interpolate")
OPAQUE = {"opendsm/common/hourly_interpolation.py::_interpolate_col": "interpolate_col_frame"}

NUM = 0
NAN = 1


def interpolate_col_frame(x, lags):
    # C17.frame.interpolate_col (flow obligation): every store into x is x.loc[<subset of x.index[x.isna()]>] = ...
    return fill_only_missing(x)


CASES = [{"ghi": False, "explicit": True}, {"ghi": True, "explicit": True}, {"ghi": True, "explicit": False}]


@harness("C17.interpolate", prop="C17", cases=CASES)
def interpolate_row(ghi, explicit):
    cols = ["temperature", "observed"]
    if ghi:
        cols = cols + ["ghi"]
    df = row_frame(cols + ["date", "hour_of_day"])
    k0 = []
    v0 = []
    h0 = []
    for c in cols:
        k0.append(cell_kind(df, c))
        v0.append(cell_val(df, c))
        h0.append(column_has_present(df, c))
    kd = cell_kind(df, "date")
    vd = cell_val(df, "date")
    kh = cell_kind(df, "hour_of_day")
    vh = cell_val(df, "hour_of_day")
    if explicit:
        out = INTERPOLATE(df, columns=cols)        # how _HourlyData._interpolate calls it
    else:
        out = INTERPOLATE(df)                      # default column list
    check("C17.same_frame", is_same(out, df))
    i = 0
    for c in cols:
        k1 = cell_kind(out, c)
        v1 = cell_val(out, c)
        flag = cell_val(out, "interpolated_" + c)
        check("C17.keep." + c, implies(k0[i] != NAN, And(k1 == k0[i], implies(k0[i] == NUM, v1 == v0[i]))))
        check("C17.flag." + c, iff(flag, And(k0[i] == NAN, k1 != NAN)))
        check("C17.total." + c, implies(h0[i], k1 != NAN))
        i = i + 1
    check("C17.frame.other_columns", And(cell_kind(out, "date") == kd, implies(kd == NUM, cell_val(out, "date") == vd),
                                         cell_kind(out, "hour_of_day") == kh, implies(kh == NUM, cell_val(out, "hour_of_day") == vh)))
    cover("C17.cover.filled", And(k0[0] == NAN, cell_kind(out, "temperature") == NUM))
    cover("C17.cover.left_missing", And(k0[1] == NAN, cell_kind(out, "observed") == NAN))


@harness("C17.interpolate.preflagged", prop="C17")
def interpolate_preflagged():
    """a column that already carries its interpolated_ flag is left alone (the second call of _interpolate on a prepared frame)"""
    df = row_frame(["temperature", "observed", "interpolated_temperature"])
    kt = cell_kind(df, "temperature")
    vt = cell_val(df, "temperature")
    kf = cell_kind(df, "interpolated_temperature")
    vf = cell_val(df, "interpolated_temperature")
    out = INTERPOLATE(df, columns=["temperature", "observed"])
    check("C17.preflagged.untouched", And(cell_kind(out, "temperature") == kt, implies(kt == NUM, cell_val(out, "temperature") == vt),
                                          cell_kind(out, "interpolated_temperature") == kf,
                                          implies(kf == NUM, cell_val(out, "interpolated_temperature") == vf)))


HD = repo("opendsm/eemeter/models/hourly/data.py::_HourlyData")


@harness("C17.set_data", prop="C17", permissive=True, cases=[{"electric": True, "ghi": False}, {"electric": False, "ghi": False}, {"electric": True, "ghi": True}])
def set_data_row(electric, ghi):
    """_HourlyData._set_data end to end for one arbitrary label of an arbitrary on-the-hour frame: copy, zero -> NaN (electric only), first
    duplicate kept, whole-day hourly grid, interpolation with flags."""
    cols = ["observed", "temperature"]
    if ghi:
        cols = cols + ["ghi"]
    df = row_frame(cols, label="input", multiplicity="any")        # the label may be absent, present once or duplicated
    k0 = []
    v0 = []
    for c in cols:
        k0.append(cell_kind(df, c))
        v0.append(cell_val(df, c))
    supplied = df.mult > 0
    # precondition of the property: on-the-hour hourly input, so every supplied label is a point of the whole-day hourly grid between the
    # first and the last supplied day (that the grid itself is right -- whole LOCAL days, DST -- is the bounded part)
    # -- now PROVED from the grid's construction: the grid runs from 00:00 of the first supplied label's day to 23:00 of the last one's (symbolic instants),
    # so an on-the-hour supplied label is one of its points; only "labels are on the hour" is assumed
    assume(labels_on_the_hour())
    obj = new_object(HD, warnings=fresh_seq("warnings"), disqualification=fresh_seq("disqualification"), is_electricity_data=electric, tz=None, pv_start=None,
                     _kwargs={}, _outputs=["temperature", "observed"], _to_be_interpolated_columns=[])
    out = obj._set_data(df)
    check("C17.set_data.input_untouched", Not(df.mutated))
    # every supplied label is on the grid exactly once
    check("C17.set_data.on_grid_once", implies(supplied, out.mult == 1))
    i = 0
    for c in cols:
        k1 = cell_kind(out, c)
        v1 = cell_val(out, c)
        flag = cell_val(out, "interpolated_" + c)
        missing0 = Or(Not(supplied), k0[i] == NAN)
        if c == "observed" and electric:
            missing0 = Or(missing0, And(k0[i] == NUM, v0[i] == 0))
        check("C17.set_data.keep." + c, implies(And(Not(missing0), out.mult > 0), And(k1 == k0[i], implies(k0[i] == NUM, v1 == v0[i]))))
        check("C17.set_data.flag." + c, implies(out.mult > 0, iff(flag, And(missing0, k1 != NAN))))
        i = i + 1
    cover("C17.cover.set_data.zero", And(supplied, k0[0] == NUM, v0[0] == 0))
    cover("C17.cover.set_data.absent_row", And(Not(supplied), out.mult > 0))
    cover("C17.cover.set_data.duplicated", df.mult > 1)
