"""Verdicts, replay, evidence, known findings (DESIGN §3.9)."""
from __future__ import annotations

import importlib
import json
import os
import re
import subprocess
import sys
import time
from collections import Counter, defaultdict

from . import frontend, libmodels, native, runner
from .main import VERIF, cvc5_check, explore_all, load_baseline, load_known_findings

PY_ASSUMPTIONS = [
    "A1 float arithmetic is treated as real arithmetic (no rounding, overflow, NaN/inf unless a value is an explicit tagged cell)",
    "A2 numba nopython/error_model='numpy' computes what CPython computes on the translated subset",
    "A3 np.float64 scalars behave as float (no operator-overloading surprises on the scalar types involved)",
    "A4 no concurrent mutation while a function under contract runs",
    "A5 attribute access has no side effects (pydantic cached_property is a pure function of the object)",
    "A6 isinstance/dispatch is resolved from the class the sidecar declares for the receiver",
    "z3 (and cvc5 in the thorough tier) are trusted; obligations are decided on fresh solvers, exp is replaced by fresh reals + axiom instances",
]


def registry_entry(prop):
    sys.path.insert(0, VERIF)
    import checks_registry
    for c in checks_registry.CHECKS:
        if c["id"] == prop:
            return c
    raise SystemExit(f"property {prop} is not claimed (see MANIFEST.json not_applicable)")


def _san(name):
    return re.sub(r"[^A-Za-z0-9_.-]+", "_", name)[:120]


def decide(prop, tier, seed, args, t0):
    reg = registry_entry(prop)
    kf = load_known_findings()
    known = {f["id"]: f for f in kf.get("findings", []) if f["property"] == prop or prop in f.get("also", [])}
    baseline = load_baseline().get(prop, {})
    ob_timeout_ms = int(reg.get("ob_timeout_ms", 30000 if tier == "quick" else 60000))
    max_paths = int(reg.get("max_paths", 20000))
    keep_smt = False
    if tier == "thorough":
        # export discharged VCs for cvc5: all of them for small checks, a deterministic 4 % sample for large ones
        keep_smt = "all"
        try:
            prev = json.load(open(os.path.join(VERIF, "evidence", f"{prop}.json")))["coverage"].get("obligations", 0)
            if prev > 3000:
                keep_smt = "sample"
        except Exception:  # noqa
            pass

    jobs = [j for j in runner.make_jobs(reg.get("modules", []), only=args.only or None) if j["prop"] == prop]
    if tier == "quick":
        jobs = [j for j in jobs if not j["opts"].get("thorough_only")]
    results = explore_all(jobs, known, ob_timeout_ms, keep_smt, args.nproc, max_paths, progress=args.verbose) if jobs else []

    notes = []
    # ---- carrier-contract fallback: a callee contract that no longer holds is not by itself a violation of the
    # property; the dependants are re-verified with that callee inlined and THEY decide.
    failed_carriers = []
    for j, r in zip(jobs, results):
        if j["kind"] == "contract" and j["opts"].get("carrier", True):
            bad = [o for o in r["obligations"] if o["status"] != "discharged" and o["kind"] != "safety"] or r["unsupported"]
            if bad:
                failed_carriers.append(j["target"])
    if failed_carriers:
        notes.append(f"carrier contract(s) not met on this tree: {sorted(set(failed_carriers))}; dependants re-verified with the callee inlined")
        idx = [i for i, j in enumerate(jobs) if j["kind"] == "harness"]
        jobs2 = []
        for i in idx:
            j = dict(jobs[i])
            j["opts"] = dict(j["opts"])
            j["opts"]["inline"] = sorted(set(list(j["opts"].get("inline", []) or []) + failed_carriers))
            jobs2.append(j)
        res2 = explore_all(jobs2, known, ob_timeout_ms, keep_smt, args.nproc, max_paths, progress=args.verbose)
        for i, j2, r2 in zip(idx, jobs2, res2):
            jobs[i], results[i] = j2, r2
        # the failed carriers themselves no longer decide anything
        for i, j in enumerate(jobs):
            if j["kind"] == "contract" and j["target"] in failed_carriers:
                results[i]["superseded"] = True

    # ---- bounded / table / flow parts
    bounded_out = []
    for bm in reg.get("bounded", []):
        mod = importlib.import_module(bm)
        bt0 = time.time()
        try:
            import contextlib
            import io
            with contextlib.redirect_stdout(io.StringIO()), contextlib.redirect_stderr(io.StringIO()):
                out = mod.run(tier=tier, seed=seed)
        except Exception as e:  # noqa
            import traceback
            out = {"name": bm, "error": f"{type(e).__name__}: {e}", "trace": traceback.format_exc()[-2000:]}
        out.setdefault("name", bm)
        out["wall_s"] = round(time.time() - bt0, 2)
        bounded_out.append(out)

    # ---- aggregate
    all_obs = []
    for j, r in zip(jobs, results):
        if r.get("superseded"):
            continue
        for o in r["obligations"]:
            o = dict(o)
            o["job"] = j["id"]
            o["case"] = j["case"]
            o["module"] = j["module"]
            o["harness"] = j["name"]
            o["jobkind"] = j["kind"]
            all_obs.append(o)
    if os.environ.get("VERIF_DUMP"):
        json.dump([{k: v for k, v in o.items() if k != "smt2"} for o in all_obs], open(os.environ["VERIF_DUMP"], "w"), default=str)
    unsupported = [(j, u) for j, r in zip(jobs, results) if not r.get("superseded") for u in r["unsupported"]]
    errors = [(j, r["error"]) for j, r in zip(jobs, results) if r.get("error")]
    errors += [(b["name"], b["error"]) for b in bounded_out if b.get("error")]

    # cvc5 second opinion in the thorough tier, and on z3 unknowns in either tier
    cvc5_stats = Counter()
    for o in all_obs:
        if o["status"] == "unknown" and o.get("smt2"):
            r = cvc5_check(o["smt2"], 30)
            cvc5_stats[r] += 1
            if r == "unsat":
                o["status"], o["backend"] = "discharged", "cvc5"
    cvc5_disagree = []
    if tier == "thorough":
        # second opinion on a sample of the VCs z3 discharged: at most 4 per obligation name and 160 per check, 10 s each, 12 at a time
        from concurrent.futures import ThreadPoolExecutor
        per_name = Counter()
        sample = []
        for o in all_obs:
            if o["status"] == "discharged" and o.get("smt2") and per_name[o["name"]] < 4 and len(sample) < 160:
                per_name[o["name"]] += 1
                sample.append(o)
        with ThreadPoolExecutor(max_workers=12) as ex:
            for o, r in zip(sample, ex.map(lambda o: cvc5_check(o["smt2"], 10), sample)):
                r = r if r in ("unsat", "sat", "unknown", "unavailable") else "error"
                cvc5_stats["sample_" + r] += 1
                if r == "unsat":
                    o["backend"] = "z3+cvc5"
                elif r == "sat":
                    # the two solvers disagree on this VC: not trusted either way
                    o["status"], o["reason"] = "unknown", "z3 discharged this VC but cvc5 reports a model (solver disagreement)"
                    cvc5_disagree.append(o["name"])
        for o in all_obs:
            if o["status"] == "discharged":
                o.pop("smt2", None)

    violations = []      # (obligation name, replay path, reproduced?)
    undecided = []
    rc = 0
    refuted_by_name = defaultdict(list)
    for o in all_obs:
        if o["status"] == "refuted":
            refuted_by_name[o["name"]].append(o)
        elif o["status"] == "unknown":
            undecided.append((o["name"], o.get("reason", "solver unknown")))
    for name, obs in sorted(refuted_by_name.items()):
        o = obs[0]
        local = name
        rep = None
        reproduced = False
        if o["jobkind"] == "harness" and o.get("model") is not None:
            for cand in obs[:4]:
                if cand.get("model") is None:
                    continue
                res = native.run_native(cand["module"], cand["harness"], cand["case"], cand["model"])
                hit = [c for c in res.get("checks", []) if c["name"] == local and not c["ok"] and c.get("in_known_class") is not True]
                if name.endswith("]") and "no_unexpected_exception" in name and res["status"] == "error":
                    hit = [1]
                if hit:
                    o = cand
                    reproduced = True
                    break
        if o.get("kind") == "assert" and not reproduced:
            res_native = None
            if o["jobkind"] == "harness" and o.get("model") is not None:
                res_native = native.run_native(o["module"], o["harness"], o["case"], o["model"])
            if not (res_native and res_native.get("status") == "error" and "AssertionError" in str(res_native.get("error", ""))):
                undecided.append((name, f"an assert statement of the code ({o.get('loc', '')}) could not be proved in the symbolic model and no input that trips it "
                                        "was found (an abstract counter-model is not a failing input)"))
                continue
            reproduced = True
        path = os.path.join(VERIF, "replay", f"{prop}-{_san(name)}.py")
        solver_output = f"z3: sat (counter-model) for obligation {name} on path {o.get('path', '')}; model={json.dumps(o.get('model'))[:1500]}"
        if o["jobkind"] == "harness":
            native.write_replay(path, prop, name, local, o["module"], o["harness"], o["case"], o.get("model") or {}, solver_output)
        else:
            _write_plain_replay(path, prop, name, solver_output, o)
        violations.append((name, path, reproduced, o))

    # ---- baseline: obligations that used to be generated and discharged must still be there
    names_now = {o["name"] for o in all_obs if o["kind"] not in ("safety", "assert")}
    for b in bounded_out:
        names_now |= set(b.get("obligations", {}).keys()) if isinstance(b.get("obligations"), dict) else set()
    missing = sorted(set(baseline.get("names", [])) - names_now) if not (args.only or args.update_baseline) else []

    # ---- bounded parts verdicts
    for b in bounded_out:
        for v in b.get("violations", []):
            violations.append((v["obligation"], v.get("replay", ""), v.get("reproduced", True), v))
        for u in b.get("undecided", []):
            undecided.append((u["obligation"], u.get("reason", "")))

    # ---- print
    known_lines = {}
    for o in all_obs:
        if o.get("finding") and o["status"] == "discharged":
            for fid in o["finding"].split("+"):
                f = known.get(fid, {})
                known_lines[fid] = f.get("what", fid)
    for b in bounded_out:
        for k in b.get("known", []):
            known_lines[k["id"]] = k.get("what", k["id"])
    for fid, what in sorted(known_lines.items()):
        print(f"KNOWN-FINDING: property={prop} {fid}: {what}")

    n_ob = len(all_obs) + sum(int(b.get("n_obligations", 0)) for b in bounded_out)
    n_dis = sum(1 for o in all_obs if o["status"] == "discharged") + sum(int(b.get("n_discharged", 0)) for b in bounded_out)

    if errors:
        for who, e in errors:
            print(f"CHECKER-ERROR property={prop} in {who if isinstance(who, str) else who['id']}: {str(e)[:2000]}")
        rc = 3
    if violations:
        for name, path, reproduced, o in violations:
            if reproduced:
                print(f"VIOLATION property={prop} replay={path} obligation={name}")
            else:
                print(f"VIOLATION property={prop} replay={path} obligation={name} no-failing-input-found")
        # a violation replayed on the real code stands even if another harness of the check crashed
        rc = 1 if (rc == 0 or any(rep for _, _, rep, _ in violations)) else rc
    if rc == 0 and (undecided or unsupported or missing):
        for name, reason in undecided[:20]:
            print(f"UNDECIDED property={prop} obligation={name} reason={reason}")
        for j, u in unsupported[:20]:
            print(f"UNDECIDED property={prop} obligation={j['id']} reason=unsupported: {u['msg']} at {u.get('where', '')}")
        for m in missing[:20]:
            print(f"UNDECIDED property={prop} obligation={m} reason=obligation of the committed baseline was not generated on this tree")
        rc = 2
    # vacuity guards
    if rc in (1, 2):
        for j, r in zip(jobs, results):
            if not r.get("superseded") and r["completed_paths"] + r["raised_paths"] == 0 and not r["unsupported"]:
                print(f"UNDECIDED property={prop} obligation={j['id']} reason=case {j['case']} has no feasible path on this tree (nothing was checked for it)")
    if rc == 0:
        if n_ob == 0:
            print(f"CHECKER-ERROR property={prop}: zero obligations generated")
            rc = 3
        for j, r in zip(jobs, results):
            if r.get("superseded"):
                continue
            if r["completed_paths"] + r["raised_paths"] == 0:
                print(f"CHECKER-ERROR property={prop}: harness {j['id']} case {j['case']} has no feasible path (vacuous precondition?)")
                rc = 3
            elif r["sat_paths"] == 0 and not j["opts"].get("allow_unsat_sample"):
                notes.append(f"vacuity guard: no path of {j['id']} {j['case']} produced a concrete sample (solver unknown)")

    wall = time.time() - t0
    if not args.no_evidence and not args.only:
        write_evidence(prop, tier, seed, reg, jobs, results, all_obs, bounded_out, violations, undecided, unsupported,
                       known_lines, notes, wall, n_ob, n_dis, cvc5_stats)
    if args.update_baseline and rc == 0:
        p = os.path.join(VERIF, "contracts", "baseline_obligations.json")
        base = load_baseline()
        base[prop] = {"names": sorted(names_now)}
        json.dump(base, open(p, "w"), indent=1, sort_keys=True)
        print(f"baseline updated: {len(names_now)} named obligations for {prop}")
    byname = Counter((o["name"], o["status"]) for o in all_obs if o["kind"] != "safety")
    if args.verbose:
        for (n, s), c in sorted(byname.items()):
            print(f"   {n:55s} {s:11s} x{c}")
    print(f"{prop} [{tier}] obligations={n_ob} discharged={n_dis} paths={sum(r['paths'] for r in results)} "
          f"jobs={len(jobs)} bounded_parts={len(bounded_out)} wall={wall:.1f}s exit={rc}")
    return rc


def _write_plain_replay(path, prop, name, solver_output, o):
    os.makedirs(os.path.dirname(path), exist_ok=True)
    with open(path, "w") as f:
        f.write(f'#!/venv/bin/python\n"""No native replay for this obligation (contract-level); verifier output follows.\n'
                f'property   : {prop}\nobligation : {name}\njob        : {o.get("job")} case={o.get("case")}\n"""\n'
                f'print({solver_output!r})\nimport sys; sys.exit(1)\n')
    os.chmod(path, 0o755)


def write_evidence(prop, tier, seed, reg, jobs, results, all_obs, bounded_out, violations, undecided, unsupported,
                   known_lines, notes, wall, n_ob, n_dis, cvc5_stats):
    funcs = {}
    assumptions = set()
    opaque = set()
    for r in results:
        funcs.update(r.get("functions_read", {}))
        assumptions |= set(r["assumptions"])
        opaque |= set(r["opaque_calls"])
    named = defaultdict(lambda: {"instances": 0, "discharged": 0, "time_s": 0.0, "backends": set(), "known_finding": None})
    for o in all_obs:
        d = named[o["name"]]
        d["instances"] += 1
        d["discharged"] += o["status"] == "discharged"
        d["time_s"] += o["time_s"]
        d["backends"].add(o["backend"])
        if o.get("finding"):
            d["known_finding"] = o["finding"]
    named_json = {k: {"kind": "safety" if k.startswith("safety.") else "contract", "instances": v["instances"],
                      "discharged": v["discharged"], "solver_time_s": round(v["time_s"], 3), "backends": sorted(v["backends"]),
                      **({"verified_outside_known_finding": v["known_finding"]} if v["known_finding"] else {})}
                  for k, v in sorted(named.items())}
    samples = []
    for j, r in list(zip(jobs, results))[:6]:
        samples.append({"harness": j["id"], "case": j["case"], "paths": r["paths"],
                        "sample_input_satisfying_the_preconditions": r["sample_inputs"],
                        "obligations_on_this_case": sorted({o["name"] for o in r["obligations"]})[:12]})
    level = reg["level"]
    coverage = {
        "obligations": n_ob,
        "discharged": n_dis,
        "checker_cmd": f"./check {prop} --tier {tier}",
        "trusted_base": sorted(assumptions) + PY_ASSUMPTIONS,
        "named_obligations": named_json,
        "functions_under_contract": funcs,
        "extraction_drops": frontend.DROPS,
        "paths_explored": sum(r["paths"] for r in results),
        "infeasible_after_assume": sum(r["dead_paths"] for r in results),
        "solver_time_s": round(sum(o["time_s"] for o in all_obs), 2),
        "back_ends": {"z3": sum(1 for o in all_obs if o["backend"] == "z3"), "cvc5": sum(1 for o in all_obs if o["backend"] == "cvc5"),
                      "z3_and_cvc5_agree_on_sample": sum(1 for o in all_obs if o["backend"] == "z3+cvc5"), "cvc5_sample": dict(cvc5_stats)},
        "opaque_calls": sorted(opaque),
        "known_findings_reported": known_lines,
        "bounded_parts": [{k: v for k, v in b.items() if k not in ("trace",)} for b in bounded_out],
        "not_covered": reg.get("not_covered", []),
        "notes": notes,
        "samples": samples,
        "explanation": reg.get("explanation", ""),
        "undecided": [{"obligation": n, "reason": r} for n, r in undecided[:50]] +
                     [{"obligation": j["id"], "reason": f"unsupported: {u['msg']} at {u.get('where', '')}"} for j, u in unsupported[:50]],
    }
    # bounded parts contribute exploration-style counts, kept separate from the proof counts
    ev_b = [b for b in bounded_out if "evaluations" in b]
    if ev_b:
        coverage["evaluations"] = sum(int(b["evaluations"]) for b in ev_b)
        coverage["distinct_nontrivial"] = sum(int(b.get("distinct_nontrivial", 0)) for b in ev_b)
        coverage["rule"] = " | ".join(f"{b['name']}: {b.get('rule', '')}" for b in ev_b)
        coverage["exhaustive"] = all(bool(b.get("exhaustive")) for b in ev_b)
        for b in ev_b:
            for smp in b.get("samples", [])[:3]:
                coverage["samples"].append({"bounded_part": b["name"], "case": smp})
    ev = {
        "property_id": prop,
        "tier": tier,
        "seed": seed,
        "level": level,
        "coverage": coverage,
        "assumptions": sorted(assumptions) + PY_ASSUMPTIONS + reg.get("assumptions", []),
        "wall_s": round(wall, 2),
        "violations": len(violations),
    }
    os.makedirs(os.path.join(VERIF, "evidence"), exist_ok=True)
    with open(os.path.join(VERIF, "evidence", f"{prop}.json"), "w") as f:
        json.dump(ev, f, indent=1, default=str)
        f.write("\n")
