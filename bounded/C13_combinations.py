"""Bounded parts of C13.
(a) C13.cover -- EXHAUSTIVE over the finite configuration space: the real DailyModel._combinations under all 16 allow-flag
    combinations x 16 outcomes of the ellipsoid filter (stubbed by its boolean result) x per-season day counts x weekend counts:
    every candidate partitions the 6-cell calendar, the unsplit model is always present, forbidden / unsupported splits absent.
(b) C13.calendar -- every date of 2023-2024 through the real predict of parameter-built models read with from_dict, for candidate
    splits x custom season / weekday maps: each day is predicted by the sub-model whose cell contains it."""
import itertools
import logging
import warnings

import numpy as np
import pandas as pd

from bounded.common import Bounded, load_known

MODULE = "bounded.C13_combinations"
logging.disable(logging.CRITICAL)
warnings.filterwarnings("ignore")
SEASONS = ["su", "sh", "wi"]
FULL = {"su": "summer", "sh": "shoulder", "wi": "winter"}


def cells(component):
    days, seas = component.split("-")
    ds = {"fw": ["wd", "we"], "wd": ["wd"], "we": ["we"]}[days]
    return {(s, d) for s in seas.split("_") for d in ds}


def frame(n_season, n_weekend_per_season):
    """synthetic df_meter: per season, n weekdays... rows with season and day_of_week columns"""
    rows = []
    for s in SEASONS:
        n, we = n_season[s], n_weekend_per_season[s]
        we = min(we, n)
        rows += [(FULL[s], 6 + (i % 2)) for i in range(we)]
        rows += [(FULL[s], 1 + (i % 5)) for i in range(n - we)]
    return pd.DataFrame(rows, columns=["season", "day_of_week"])


def check_cover(case):
    import opendsm.eemeter.models.daily.model as dm
    from opendsm.eemeter.models.daily.model import DailyModel
    flags = case["flags"]
    settings = {"developer_mode": True, "silent_developer_mode": True,
                "split_selection": {"allow_separate_summer": flags[0], "allow_separate_shoulder": flags[1],
                                    "allow_separate_winter": flags[2], "allow_separate_weekday_weekend": flags[3],
                                    "reduce_splits_by_gaussian": case["ellipsoid"] is not None}}
    import io
    import contextlib
    with contextlib.redirect_stdout(io.StringIO()):
        m = DailyModel(settings=settings)
    m.df_meter = frame(case["n_season"], case["n_weekend"])
    allow = case["ellipsoid"]
    orig = dm.ellipsoid_split_filter
    dm.ellipsoid_split_filter = lambda df, n_std=None: {"summer": allow[0], "shoulder": allow[1], "winter": allow[2], "weekday_weekend": allow[3]}
    try:
        combos = m._combinations()
    finally:
        dm.ellipsoid_split_filter = orig
    bad = []
    if "fw-su_sh_wi" not in combos:
        bad.append("the unsplit model is not a candidate")
    if len(set(combos)) != len(combos):
        bad.append("duplicate candidates")
    eff = [flags[i] and (allow is None or allow[i]) for i in range(4)]
    for i, s in enumerate(SEASONS):
        if case["n_season"][s] < 30:
            eff[i] = False
    allcells = {(s, d) for s in SEASONS for d in ("wd", "we")}
    df = m.df_meter
    for c in combos:
        comps = c.split("__")
        cover = [cells(x) for x in comps]
        union = set().union(*cover)
        if union != allcells or sum(len(x) for x in cover) != 6:
            bad.append(f"candidate {c} does not partition the calendar")
            continue
        if c == "fw-su_sh_wi":
            continue
        for x in comps:
            days, seas = x.split("-")
            sl = seas.split("_")
            if len(sl) == 1 and not eff[SEASONS.index(sl[0])]:
                bad.append(f"candidate {c} isolates {sl[0]} although that is not allowed / not supported by the data")
            if days in ("wd", "we") and not eff[3]:
                bad.append(f"candidate {c} splits weekdays from weekends although that is not allowed")
            we_count = int(((df["season"].isin([FULL[s] for s in sl])) & (df["day_of_week"].isin([6, 7]))).sum())
            if we_count < 8:
                bad.append(f"candidate {c}: component {x} has only {we_count} weekend days")
    return bad


SEASON_MAPS = {
    "default": None,
    "shifted": {"1": "winter", "2": "winter", "3": "winter", "4": "shoulder", "5": "summer", "6": "summer", "7": "summer", "8": "summer",
                "9": "shoulder", "10": "shoulder", "11": "shoulder", "12": "winter"},
}
WEEK_MAPS = {
    "default": None,
    "friday_weekend": {"1": "weekday", "2": "weekday", "3": "weekday", "4": "weekday", "5": "weekend", "6": "weekend", "7": "weekend"},
    "sunday_only": {"1": "weekday", "2": "weekday", "3": "weekday", "4": "weekday", "5": "weekday", "6": "weekday", "7": "weekend"},
}


def check_calendar(case):
    from opendsm.eemeter.models.daily.model import DailyModel
    from opendsm.eemeter.models.daily.utilities.settings import DailySettings
    from bounded.C01_roundtrip import submodel
    import io
    import contextlib
    kw = {}
    MONTHS = ["january", "february", "march", "april", "may", "june", "july", "august", "september", "october", "november", "december"]
    DAYS = ["monday", "tuesday", "wednesday", "thursday", "friday", "saturday", "sunday"]
    if SEASON_MAPS[case["season_map"]]:
        kw["season"] = {MONTHS[int(k) - 1]: v for k, v in SEASON_MAPS[case["season_map"]].items()}
    if WEEK_MAPS[case["week_map"]]:
        kw["weekday_weekend"] = {DAYS[int(k) - 1]: v for k, v in WEEK_MAPS[case["week_map"]].items()}
    with contextlib.redirect_stdout(io.StringIO()):
        settings = DailySettings(**kw).model_dump()
    comps = case["split"].split("__")
    doc = {"submodels": {k: submodel("tidd", 10.0 * i) for i, k in enumerate(comps)},
           "info": {"error": {}, "baseline_timezone": "UTC", "disqualification": [], "warnings": []}, "settings": settings}
    import json
    with contextlib.redirect_stdout(io.StringIO()):
        m = DailyModel.from_json(json.dumps(doc, default=lambda o: getattr(o, "value", str(o))))
    tz = case.get("tz", "UTC")
    m.baseline_timezone = __import__("zoneinfo").ZoneInfo(tz) if tz != "UTC" else m.baseline_timezone
    idx = pd.date_range("2023-01-01", "2024-12-31", freq="D", tz=tz)
    df = pd.DataFrame({"temperature": 60.0}, index=idx)
    if case.get("other_model_built"):
        # ... and, before this model predicts, other models are built in the same process with OTHER settings (nothing may be shared between them)
        with contextlib.redirect_stdout(io.StringIO()):
            DailyModel()
            DailyModel(settings={"weekday_weekend": {d: ("weekend" if d in ("monday", "tuesday") else "weekday") for d in DAYS}})
    res = m._predict(df)
    season_of = {int(k): v for k, v in (SEASON_MAPS[case["season_map"]] or {"1": "winter", "2": "winter", "3": "shoulder", "4": "shoulder",
                                                                              "5": "shoulder", "6": "summer", "7": "summer", "8": "summer",
                                                                              "9": "summer", "10": "shoulder", "11": "winter", "12": "winter"}).items()}
    day_of = {int(k): v for k, v in (WEEK_MAPS[case["week_map"]] or {"1": "weekday", "2": "weekday", "3": "weekday", "4": "weekday", "5": "weekday",
                                                                        "6": "weekend", "7": "weekend"}).items()}
    inv = {"summer": "su", "shoulder": "sh", "winter": "wi"}
    bad = []
    if len(res) != len(idx):
        bad.append(f"{len(res)} rows for {len(idx)} dates")
    exp = []
    for ts in idx:
        cell = (inv[season_of[ts.month]], "wd" if day_of[ts.dayofweek + 1] == "weekday" else "we")
        owner = [c for c in comps if cell in cells(c)]
        exp.append(owner[0] if len(owner) == 1 else None)
    got = res["model_split"].tolist()
    wrong = [(str(idx[i].date()), got[i], exp[i]) for i in range(min(len(got), len(exp))) if got[i] != exp[i]]
    if wrong:
        bad.append(f"{len(wrong)} days predicted by the wrong sub-model, e.g. {wrong[:3]}")
    # the same through the PUBLIC path: the data class puts its own season / day-type columns (library defaults) into the frame; routing must still
    # follow the model's own maps
    import opendsm.eemeter as em
    with contextlib.redirect_stdout(io.StringIO()):
        data = em.DailyReportingData(df.copy(), is_electricity_data=True)
        res2 = m.predict(data, ignore_disqualification=True)
    got2 = res2["model_split"].reindex(idx).tolist()
    wrong2 = [(str(idx[i].date()), got2[i], exp[i]) for i in range(len(exp)) if got2[i] != exp[i]]
    if wrong2:
        bad.append(f"through DailyReportingData / predict(): {len(wrong2)} days predicted by the wrong sub-model, e.g. {wrong2[:3]}")
    return bad


def check_argmin(case):
    from opendsm.eemeter.models.daily.model import DailyModel
    crit = [float("nan") if c is None else float(c) for c in case["criteria"]]
    names = [f"combo{i}" for i in range(len(crit))]
    m = DailyModel.__new__(DailyModel)
    m.combinations = names
    m._combination_selection_criteria = lambda combo: crit[names.index(combo)]
    best = m._best_combination(print_out=False)
    finite = [i for i, c in enumerate(crit) if c == c]
    if not finite:
        return [] if best is None else [f"returned {best} although every criterion is NaN"]
    exp = min(finite, key=lambda i: (crit[i], i))
    return [] if best == names[exp] else [f"criteria {crit}: returned {best}, the lowest finite criterion is {names[exp]}"]


def replay(case):
    if case["kind"] == "argmin":
        bad = check_argmin(case)
        return {"ok": not bad, "problems": bad}
    bad = check_cover(case) if case["kind"] == "cover" else check_calendar(case)
    return {"ok": not bad, "problems": bad[:6]}


def run(tier="quick", seed=0):
    b = Bounded("C13", "C13.cover", MODULE,
                "real _combinations: 16 allow-flag combinations x {no ellipsoid filter, 16 filter outcomes} x per-season day counts in "
                "{(120,120,120),(29,120,120),(120,30,120),(120,120,0)} x weekend-day counts per season in {40, 8, 7, 0}; real predict via from_dict "
                "for all candidate split strings of the unrestricted model x 2 season maps x 3 weekday maps x every date of 2023-2024. "
                "distinct = case", exhaustive=True, known_findings=load_known("C13"))
    flagsets = list(itertools.product([True, False], repeat=4))
    ell = [None] + list(itertools.product([True, False], repeat=4))
    counts = [{"su": 120, "sh": 120, "wi": 120}, {"su": 29, "sh": 120, "wi": 120}, {"su": 120, "sh": 30, "wi": 120}, {"su": 120, "sh": 120, "wi": 0}]
    weekends = [{"su": 40, "sh": 40, "wi": 40}, {"su": 8, "sh": 40, "wi": 40}, {"su": 40, "sh": 7, "wi": 40}, {"su": 40, "sh": 40, "wi": 0},
                {"su": 40, "sh": 7, "wi": 7}]
    k = 0
    for fl in flagsets:
        for e in ell:
            for cn in counts:
                for we in weekends:
                    k += 1
                    if tier == "quick" and k % 23 != 0 and not (e is None and fl == (True, True, True, True)):
                        continue
                    case = {"kind": "cover", "flags": list(fl), "ellipsoid": None if e is None else list(e), "n_season": cn, "n_weekend": we}
                    try:
                        r = replay(case)
                    except Exception as ex:  # noqa
                        import traceback
                        r = {"ok": False, "problems": [f"exception {type(ex).__name__}: {ex}", traceback.format_exc()[-500:]]}
                    b.case("C13.cover", case, r["ok"], nontrivial_key=str(case), detail=r["problems"])
    rng = np.random.default_rng(seed)
    for k in (1, 2, 3, 5, 8):
        for pat in itertools.product([False, True], repeat=min(k, 4)):
            vals = rng.choice([0.5, 1.0, 1.0, 2.0, -3.0], size=k).tolist()
            crit = [None if (i < len(pat) and pat[i]) else vals[i] for i in range(k)]
            case = {"kind": "argmin", "criteria": crit}
            try:
                r = replay(case)
            except Exception as ex:  # noqa
                r = {"ok": False, "problems": [f"exception {type(ex).__name__}: {ex}"]}
            b.case("C13.argmin.real", case, r["ok"], nontrivial_key=str(crit), detail=r["problems"])
    # all candidate strings of the unrestricted model
    from opendsm.eemeter.models.daily.model import DailyModel
    import io
    import contextlib
    with contextlib.redirect_stdout(io.StringIO()):
        m = DailyModel(settings={"developer_mode": True, "silent_developer_mode": True, "split_selection": {"reduce_splits_by_gaussian": False}})
    m.df_meter = frame({"su": 120, "sh": 120, "wi": 120}, {"su": 40, "sh": 40, "wi": 40})
    allc = m._combinations()
    b.extra["candidate_strings"] = len(allc)
    for ci, c in enumerate(allc):
        for sm in SEASON_MAPS:
            for wm in WEEK_MAPS:
                if tier == "quick" and (ci % 6 != 0) and not (wm == "friday_weekend" and ci % 3 == 0):
                    continue
                case = {"kind": "calendar", "split": c, "season_map": sm, "week_map": wm}
                if ci % 2:
                    # local midnight east / west of UTC (the date on the UTC clock is the day before / the same day), and a process history
                    case["tz"] = ["Europe/Berlin", "Australia/Sydney", "America/Chicago"][(ci // 2) % 3]
                    case["other_model_built"] = True
                try:
                    r = replay(case)
                except Exception as ex:  # noqa
                    import traceback
                    r = {"ok": False, "problems": [f"exception {type(ex).__name__}: {ex}", traceback.format_exc()[-500:]]}
                b.case("C13.calendar", case, r["ok"], nontrivial_key=str(case), detail=r["problems"])
    b.exhaustive = tier == "thorough"
    return b.result()
