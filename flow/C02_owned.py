"""C02 view of the ownership obligations of flow/C03_tables.py: an attribute of a model / data / settings class that is mutated in place must only
ever be assigned a fresh object; otherwise an in-place write (fit storing its statistics, predict appending a warning) lands in an object shared
with other models, with the caller or with module state -- a hidden side effect."""
import ast
import os
import time

from flow.C03_tables import OFF_PATH, PKG, REPO, ownership


def run(tier="quick", seed=0):
    t0 = time.time()
    verif = os.path.dirname(os.path.dirname(os.path.abspath(__file__)))
    obs = []
    for root, _, files in os.walk(os.path.join(REPO, PKG)):
        for f in sorted(files):
            if not f.endswith(".py"):
                continue
            rel = os.path.relpath(os.path.join(root, f), REPO)
            if rel.startswith(("opendsm/eemeter/models/", "opendsm/eemeter/common/", "opendsm/common/")) and not rel.startswith(OFF_PATH):
                for o in ownership(rel, ast.parse(open(os.path.join(root, f)).read())):
                    obs.append(dict(o, name=o["name"].replace("C03.owned.", "C02.owned.")))
    viol = []
    for o in obs:
        if o["ok"]:
            continue
        path = os.path.join(verif, "replay", f"C02-{o['name'].replace('/', '_')}.py")
        os.makedirs(os.path.dirname(path), exist_ok=True)
        with open(path, "w") as f:
            f.write(f'#!/venv/bin/python\n"""Ownership obligation {o["name"]} failed (structural: no failing input).\n{o["detail"]}\n"""\nprint({o["detail"]!r})\nimport sys; sys.exit(1)\n')
        viol.append({"obligation": o["name"], "replay": path, "reproduced": False, "detail": o["detail"]})
    return {"name": "C02.owned", "kind": "table", "n_obligations": len(obs), "n_discharged": sum(bool(o["ok"]) for o in obs),
            "obligations": {o["name"]: ("discharged" if o["ok"] else "failed") for o in obs}, "violations": viol, "known": [], "undecided": [],
            "details": {o["name"]: o["detail"] for o in obs}, "wall_s": round(time.time() - t0, 2)}
