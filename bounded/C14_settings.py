"""C14 -- approved-method settings are locked unless developer mode is explicit.

(T) C14.constants.<profile>: the defaults of every settings class of the four profiles equal contracts/approved_constants.json
    (for the current daily profile the published dump of docs/source/learn/daily_billing_model.md, mapped to the nested names;
    for legacy / billing / hourly, where nothing is published, the pinned source itself -- a change detector),
    checked for EVERY order in which the four model families are first constructed in a process (24 orders).
(T) C14.flags: the set of developer-only fields equals the approved set.
(B) C14.enum (exhaustive over fields): every field of the daily, legacy, billing and hourly trees x alternative values x
    {exact, upper-case, padded key} x {dict, object for nested} x developer_mode in {absent, False, True} x silent flag in
    {absent, False, True}: rejected iff (developer field changed and not developer_mode) or value invalid; an accepted object
    dumps the value given.
"""
import itertools
import json
import os
import subprocess
import sys
import warnings

from bounded.common import Bounded, load_known, VERIF

MODULE = "bounded.C14_settings"
warnings.filterwarnings("ignore")
APPROVED = os.path.join(VERIF, "contracts", "approved_constants.json")

# published dump (docs/source/learn/daily_billing_model.md) -> nested setting it documents
DOC_PUBLISHED = {
    "algorithm_choice": "nlopt_sbplx", "alpha_final": "adaptive", "alpha_final_type": "last", "alpha_minimum": -100.0,
    "alpha_selection": 2.0, "cvrmse_threshold": 1.0, "developer_mode": False, "final_bounds_scalar": 1.0, "full_model": "hdd_tidd_cdd",
    "initial_guess_algorithm_choice": "nlopt_direct", "initial_step_percentage": 0.1, "regularization_alpha": 0.001,
    "regularization_percent_lasso": 1.0, "segment_minimum_count": 6, "uncertainty_alpha": 0.1,
    "split_selection.allow_separate_shoulder": True, "split_selection.allow_separate_summer": True,
    "split_selection.allow_separate_weekday_weekend": True, "split_selection.allow_separate_winter": True,
    "split_selection.reduce_splits_by_gaussian": True, "split_selection.reduce_splits_num_std": [1.4, 0.89],
    "split_selection.criteria": "bic", "split_selection.penalty_multiplier": 0.24, "split_selection.penalty_power": 2.061,
    "maximum_slope_oom_scalar": 2.0, "allow_smooth_model": True,
}


def profiles():
    from opendsm.eemeter.models.daily.utilities.settings import DailySettings, DailyLegacySettings
    from opendsm.eemeter.models.billing.settings import BillingSettings
    from opendsm.eemeter.models.hourly import settings as hs
    return {"daily": DailySettings, "legacy": DailyLegacySettings, "billing": BillingSettings,
            "hourly_nonsolar": hs.HourlyNonSolarSettings, "hourly_solar": hs.HourlySolarSettings}


def flatten(d, prefix=""):
    out = {}
    for k, v in d.items():
        key = f"{prefix}{k}"
        if isinstance(v, dict) and v and not all(isinstance(x, (int, str)) and str(x).isdigit() for x in v.keys()):
            out.update(flatten(v, key + "."))
        else:
            out[key] = v
    return out


def norm(v):
    return json.loads(json.dumps(v, default=lambda o: getattr(o, "value", str(o))))


def developer_fields(cls, prefix=""):
    import pydantic
    out = {}
    for name, f in cls.model_fields.items():
        extra = f.json_schema_extra or {}
        ann = f.annotation
        sub = None
        for cand in [ann] + list(getattr(ann, "__args__", []) or []):
            if isinstance(cand, type) and issubclass(cand, pydantic.BaseModel):
                sub = cand
        out[prefix + name] = bool(extra.get("developer", False))
        if sub is not None:
            out.update(developer_fields(sub, prefix + name + "."))
    return out


def current_tables():
    tabs = {}
    for name, cls in profiles().items():
        tabs[name] = {"defaults": flatten(norm(cls().model_dump())), "developer": developer_fields(cls)}
    return tabs


def model_constants_in_order(order):
    """run in a fresh interpreter: construct the four model families in the given order, dump their settings"""
    code = r'''
import json, sys, warnings, logging, io, contextlib
warnings.filterwarnings("ignore"); logging.disable(logging.CRITICAL)
sys.path.insert(0, %r)
order = %r
out = {}
with contextlib.redirect_stdout(io.StringIO()):
    from opendsm.eemeter.models.daily.model import DailyModel
    from opendsm.eemeter.models.billing.model import BillingModel
    from opendsm.eemeter.models.hourly.model import HourlyModel
    mk = {"daily": lambda: DailyModel(), "legacy": lambda: DailyModel(model="legacy"), "billing": lambda: BillingModel(),
          "hourly": lambda: HourlyModel()}
    for name in order:
        m = mk[name]()
        out[name] = json.loads(json.dumps(m.settings.model_dump(), default=lambda o: getattr(o, "value", str(o))))
    # and a second construction of each after all the others
    for name in order:
        m = mk[name]()
        out[name + "#2"] = json.loads(json.dumps(m.settings.model_dump(), default=lambda o: getattr(o, "value", str(o))))
print(json.dumps(out))
''' % (os.environ.get("VERIF_REPO", "/repo"), list(order))
    p = subprocess.run(["/venv/bin/python", "-c", code], capture_output=True, text=True, timeout=300,
                       env=dict(os.environ, PYTHONPATH=os.environ.get("VERIF_REPO", "/repo")))
    if p.returncode != 0:
        raise RuntimeError(p.stderr[-800:])
    return json.loads(p.stdout.strip().splitlines()[-1])


ALTS = {bool: lambda v: [not v], int: lambda v: [v + 1, v + 7], float: lambda v: [v * 1.5 + 0.125, v + 1.0],
        str: lambda v: [], list: lambda v: [[x * 2 for x in v]] if v and all(isinstance(x, (int, float)) for x in v) else []}


def alternatives(cls, name, value):
    from enum import Enum
    f = cls.model_fields[name]
    ann = f.annotation
    out = []
    cands = [ann] + list(getattr(ann, "__args__", []) or [])
    for c in cands:
        if isinstance(c, type) and issubclass(c, Enum):
            out += [m.value for m in c if m.value != getattr(value, "value", value)][:2]
    if isinstance(value, bool):
        out += [not value]
    elif isinstance(value, int):
        out += [value + 1]
        if any(c is float for c in cands):
            # a float field whose constant is written as an int literal: values a hair / half a unit away from it are changes too
            out += [value + 0.5, value + 1e-6]
    elif isinstance(value, float):
        out += [value * 1.5 + 0.125, value + 1e-6 if value >= 0 else value - 1e-6]
    elif isinstance(value, list) and value and all(isinstance(x, (int, float)) for x in value):
        out += [[x * 2 for x in value]]
    elif value is None:
        for c in cands:
            if c is float:
                out += [0.25]
            if c is int:
                out += [3]
    return out[:4]


def try_build(cls, kwargs):
    import io
    import contextlib
    try:
        with contextlib.redirect_stdout(io.StringIO()):
            obj = cls(**kwargs)
        return True, obj
    except Exception as e:  # noqa
        return False, e


BAD_NUM_STD = [[1.4], [], [1.0, 2.0, 3.0], [0.0, 1.0], [-1.0, 2.0], [1.4, 0.0]]
SETTINGS_OBJECT_INPUTS = ["legacy object -> current model", "billing object -> legacy model", "billing object -> billing model", "altered current object -> current model"]


def case_num_std(case):
    import io
    import contextlib
    cls = profiles()[case["profile"]]
    with contextlib.redirect_stdout(io.StringIO()):
        try:
            ss = {"reduce_splits_by_gaussian": True, "reduce_splits_num_std": case["value"]}
            if case["nested_as"] == "object":
                ss = type(cls().split_selection)(**ss)
            cls(developer_mode=True, silent_developer_mode=True, split_selection=ss)
            accepted = True
        except Exception:  # noqa
            accepted = False
    return {"ok": not accepted, "problems": [f"split_selection.reduce_splits_num_std = {case['value']!r} accepted by the {case['profile']} profile in developer mode"] if accepted else []}


def case_settings_object(case):
    import io
    import contextlib
    import opendsm.eemeter as em
    from opendsm.eemeter.models.daily.utilities.settings import DailySettings, DailyLegacySettings
    from opendsm.eemeter.models.billing.settings import BillingSettings
    label = case["input"]
    table = {"legacy object -> current model": (lambda: DailyLegacySettings(), lambda o: em.DailyModel(settings=o), lambda: em.DailyModel()),
             "billing object -> legacy model": (lambda: BillingSettings(), lambda o: em.DailyModel(model="legacy", settings=o), lambda: em.DailyModel(model="legacy")),
             "billing object -> billing model": (lambda: BillingSettings(), lambda o: em.BillingModel(settings=o), lambda: em.BillingModel()),
             "altered current object -> current model": (lambda: DailySettings().model_copy(update={"alpha_selection": 1.0}), lambda o: em.DailyModel(settings=o),
                                                         lambda: em.DailyModel())}
    make, ctor, ref_ctor = table[label]

    def constants(m):
        return flatten(norm(m.settings.model_dump()))
    with contextlib.redirect_stdout(io.StringIO()):
        ref = ref_ctor()
        try:
            m = ctor(make())
            outcome = "accepted"
        except Exception as e:  # noqa
            m, outcome = None, f"rejected ({type(e).__name__})"
    ok = m is None or bool(getattr(m.settings, "developer_mode", False)) or constants(m) == constants(ref)
    diff = [] if m is None else [k for k, v in constants(m).items() if constants(ref).get(k) != v][:4]
    return {"ok": ok, "problems": [] if ok else [f"{label}: {outcome}; without developer_mode the model runs with non-approved constants {diff}"]}


def case_stored_settings(case):
    """the settings recorded in a FITTED model's stored form are the ones the model was built with -- every key, the ones whose value is None included"""
    import io
    import json
    import contextlib
    import logging
    import warnings
    import opendsm.eemeter as em
    import bounded.C12_fits as F
    warnings.filterwarnings("ignore")
    logging.disable(logging.CRITICAL)
    df = F.build({"name": "both", "base": 20, "heat_slope": 1.2, "cool_slope": 0.9, "heat_bp": 50, "cool_bp": 68, "n_days": 365, "seed": 3, "family": "daily"})
    with contextlib.redirect_stdout(io.StringIO()):
        data = em.DailyBaselineData(df, is_electricity_data=True)
        if case["profile"] == "developer_none":
            m = em.DailyModel(settings={"developer_mode": True, "silent_developer_mode": True, "alpha_final_type": None, "final_bounds_scalar": None})
        else:
            m = em.DailyModel(model=case["profile"])
        m.fit(data, ignore_disqualification=True)
    built = json.loads(json.dumps(m.settings.model_dump(), default=lambda o: getattr(o, "value", str(o))))
    stored = json.loads(m.to_json())["settings"]
    fb, fs = flatten(norm(built)), flatten(norm(stored))
    missing = sorted(k for k in fb if k not in fs and k != "developer_mode")
    changed = sorted(k for k in fb if k in fs and fs[k] != fb[k] and k != "developer_mode")
    bad = []
    if missing:
        bad.append(f"options of the model's settings that are absent from the stored record: {missing[:5]}")
    if changed:
        bad.append(f"options stored with another value: {[(k, fb[k], fs[k]) for k in changed[:3]]}")
    return {"ok": not bad, "problems": bad}


def replay(case):
    if case.get("kind") == "stored_settings":
        return case_stored_settings(case)
    if case.get("kind") == "num_std":
        return case_num_std(case)
    if case.get("kind") == "settings_object":
        return case_settings_object(case)
    import pydantic
    if case.get("kind") == "nested_other_class":
        from opendsm.eemeter.models.daily.utilities import settings as S
        kw = {"split_selection": S.Split_Selection_Legacy_Definition()}
        if case["developer_mode"] is not None:
            kw.update(developer_mode=case["developer_mode"], silent_developer_mode=True)
        ok, _ = try_build(S.DailySettings, kw)
        return {"ok": ok == bool(case["developer_mode"]), "problems": [f"accepted={ok}"]}
    if case.get("kind") in ("constant", "flags", "published", "order", "wavelet", "stored_record"):
        r = run("quick", 0)
        mine = [v for v in r["violations"] if v["case"] == case or v["case"].get("field") == case.get("field")]
        return {"ok": not mine, "problems": [v["detail"] for v in mine]}
    cls = profiles()[case["profile"]]
    path = case["field"].split(".")
    dev_flags = developer_fields(cls)
    is_dev = dev_flags.get(case["field"], False) or any(dev_flags.get(".".join(path[:i]), False) for i in range(1, len(path)))
    value = case["value"]
    key = path[-1]
    key = {"exact": key, "upper": key.upper(), "padded": f" {key} "}[case["key"]]
    inner = {key: value}
    kwargs = inner
    for i in range(len(path) - 2, -1, -1):
        sub_cls = None
        c = cls
        for p in path[: i + 1]:
            ann = c.model_fields[p].annotation
            for cand in [ann] + list(getattr(ann, "__args__", []) or []):
                if isinstance(cand, type) and issubclass(cand, pydantic.BaseModel):
                    c = cand
        sub_cls = c
        if case["nested_as"] == "object":
            ok0, obj0 = try_build(sub_cls, dict(kwargs))
            if not ok0:
                kwargs = {path[i]: kwargs}  # invalid on its own: fall back to dict input
            else:
                kwargs = {path[i]: obj0}
        else:
            kwargs = {path[i]: kwargs}
    if case["developer_mode"] is not None:
        kwargs["developer_mode"] = case["developer_mode"]
    if case.get("silent") is not None:
        kwargs["silent_developer_mode"] = case["silent"]
    accepted, obj = try_build(cls, kwargs)
    # is the value valid on its own (with developer mode on, where the class has one)?
    has_dev = "developer_mode" in cls.model_fields
    probe = dict(kwargs)
    if has_dev:
        probe["developer_mode"] = True
        probe["silent_developer_mode"] = True
    valid, _ = try_build(cls, probe)
    dm = bool(case["developer_mode"]) if has_dev else True
    expect = valid and (dm or not is_dev)
    bad = []
    if accepted != expect:
        bad.append(f"{'accepted' if accepted else 'rejected'} but expected {'accepted' if expect else 'rejected'} "
                   f"(developer field={is_dev}, developer_mode={case['developer_mode']}, silent={case.get('silent')}, valid={valid}): "
                   f"{'' if accepted else str(obj)[:200]}")
    if accepted:
        dumped = flatten(norm(obj.model_dump()))
        got = dumped.get(case["field"])
        want = norm(value)
        if isinstance(want, str):
            want = want.lower().strip()
        if got != want and not (isinstance(got, float) and isinstance(want, (int, float)) and float(want) == got):
            bad.append(f"stored value {got!r} is not the value given {want!r}")
    return {"ok": not bad, "problems": bad}


def run(tier="quick", seed=0):
    known = load_known("C14")
    b = Bounded("C14", "C14.enum", MODULE,
                "every field of the daily / legacy / billing / hourly (solar, non-solar) settings trees x up to 3 alternative values x key written "
                "{exact, UPPER, padded} x nested settings given as {dict, object} x developer_mode {absent, False, True} x silent_developer_mode "
                "{absent, True}: construction rejected iff (developer-only field changed and developer mode off) or the value is invalid on its own; "
                "accepted objects dump the value given (numeric alternatives include values 1e-6 and 0.5 away from the constant); hourly wavelet names against pywt's list of "
                "discrete wavelets; stored records that say developer_mode false but carry a changed developer-only value are not loaded. Plus table obligations C14.constants / "
                "C14.flags. distinct = case tuple", exhaustive=True,
                known_findings=known)
    approved = json.load(open(APPROVED))
    tabs = current_tables()
    n_table = 0
    for prof, t in tabs.items():
        for field, val in t["defaults"].items():
            n_table += 1
            want = approved["defaults"].get(prof, {}).get(field, "<absent>")
            b.case(f"C14.constants.{prof}.{field}", {"profile": prof, "field": field, "kind": "constant"}, want == val,
                   nontrivial_key=("const", prof, field), detail=f"default {val!r}, approved {want!r}")
        for field in approved["defaults"].get(prof, {}):
            if field not in t["defaults"]:
                b.case(f"C14.constants.{prof}.{field}", {"profile": prof, "field": field, "kind": "constant"}, False,
                       nontrivial_key=("const", prof, field), detail="approved field no longer exists")
        b.case(f"C14.flags.{prof}", {"profile": prof, "kind": "flags"}, t["developer"] == approved["developer"].get(prof),
               nontrivial_key=("flags", prof), detail=f"developer-only flags differ: {sorted(k for k in set(t['developer']) | set(approved['developer'].get(prof, {})) if t['developer'].get(k) != approved['developer'].get(prof, {}).get(k))}")
    for k, v in DOC_PUBLISHED.items():
        got = tabs["daily"]["defaults"].get(k, "<absent>")
        b.case(f"C14.published.{k}", {"field": k, "kind": "published"}, got == v, nontrivial_key=("doc", k), detail=f"default {got!r}, published {v!r}")
    # construction orders
    orders = list(itertools.permutations(["daily", "legacy", "billing", "hourly"]))
    if tier == "quick":
        orders = [orders[i] for i in (0, 7, 14, 23)]
    fam_prof = {"daily": "daily", "legacy": "legacy", "billing": "billing", "hourly": "hourly_nonsolar"}
    for order in orders:
        try:
            got = model_constants_in_order(order)
            bad = []
            for name, dump in got.items():
                fam = name.split("#")[0]
                flat = flatten(dump)
                want = dict(approved["defaults"][fam_prof[fam]])
                if fam == "billing":
                    want = dict(approved["model_defaults"]["billing"])
                if fam == "hourly":
                    want = dict(approved["model_defaults"]["hourly"])
                diff = {k: (flat.get(k), want.get(k)) for k in set(flat) | set(want) if flat.get(k) != want.get(k)}
                if diff:
                    bad.append(f"{name} constructed in order {order}: {dict(list(diff.items())[:4])}")
        except Exception as e:  # noqa
            bad = [f"exception {type(e).__name__}: {str(e)[-400:]}"]
        b.case("C14.constants.order", {"order": list(order), "kind": "order"}, not bad, nontrivial_key=("order",) + tuple(order), detail=bad)
    # nested settings object of ANOTHER class (its own defaults differ): must count as a change of a developer-only field
    try:
        from opendsm.eemeter.models.daily.utilities import settings as S
        for dm, expect in ((None, False), (False, False), (True, True)):
            kw = {"split_selection": S.Split_Selection_Legacy_Definition()}
            if dm is not None:
                kw.update(developer_mode=dm, silent_developer_mode=True)
            ok, _ = try_build(S.DailySettings, kw)
            b.case("C14.enum.nested_other_class", {"kind": "nested_other_class", "developer_mode": dm}, ok == expect,
                   nontrivial_key=("nested_other_class", dm), detail=f"accepted={ok}, expected={expect}")
    except Exception as e:  # noqa
        b.case("C14.enum.nested_other_class", {"kind": "nested_other_class"}, False, nontrivial_key="nested_other_class", detail=repr(e))
    # strings with an independent validity oracle: wavelet names of the hourly tree (only DISCRETE wavelets can be used by the discrete transform)
    try:
        import pywt
        from opendsm.eemeter.models.hourly import settings as hs
        discrete = set(pywt.wavelist(kind="discrete"))
        names = ["haar", "db2", "sym4", "coif1", "bior1.3", "morl", "mexh", "gaus1", "cgau2", "shan", "fbsp", "cmor", "no_such_wavelet", ""]
        for prof, cls in profiles().items():
            if not prof.startswith("hourly"):
                continue
            flat = flatten(norm(cls().model_dump()))
            for field in [f for f in flat if f.split(".")[-1] in ("wavelet_name", "wavelet")]:
                for nm in names:
                    kw = nm
                    path = field.split(".")
                    kwargs = {path[-1]: nm}
                    for pth in reversed(path[:-1]):
                        kwargs = {pth: kwargs}
                    ok, obj = try_build(cls, kwargs)
                    want = nm in discrete
                    b.case("C14.enum.invalid_rejected", {"kind": "wavelet", "profile": prof, "field": field, "value": nm}, ok == want,
                           nontrivial_key=("wavelet", prof, field, nm), detail=f"wavelet name {nm!r}: accepted={ok}, a discrete wavelet={want}")
    except ImportError:
        pass
    # the lock also holds for a STORED record: a document that says developer_mode false but carries a changed developer-only value is not loaded
    try:
        from opendsm.eemeter.models.daily.model import DailyModel
        from opendsm.eemeter.models.billing.model import BillingModel
        from bounded.C01_roundtrip import param_doc
        for fam, M in (("daily", DailyModel), ("billing", BillingModel)):
            for field, val in (("cvrmse_threshold", 0.5), ("alpha_selection", 1.5), ("split_selection.penalty_power", 3.0)):
                doc = json.loads(json.dumps(param_doc("daily", "hdd_tidd_cdd", "unsplit", False), default=str))
                st = doc["settings"]
                st["developer_mode"] = False
                path = field.split(".")
                tgt = st
                for pth in path[:-1]:
                    tgt = tgt.get(pth, {})
                if path[-1] not in tgt:
                    continue
                tgt[path[-1]] = val
                import io as _io
                import contextlib as _cl
                try:
                    with _cl.redirect_stdout(_io.StringIO()):
                        loaded = M.from_dict(doc)
                    dm = getattr(loaded.settings, "developer_mode", None)
                    ok = False
                    detail = f"{M.__name__}.from_dict loaded a record with developer_mode false and {field} = {val} (loaded developer_mode = {dm})"
                except Exception as e:  # noqa
                    ok, detail = True, f"rejected: {type(e).__name__}"
                b.case("C14.enum.stored_record_lock", {"kind": "stored_record", "family": fam, "field": field, "value": val}, ok,
                       nontrivial_key=("stored", fam, field), detail=detail)
    except ImportError:
        pass
    # enumeration
    import io
    import contextlib
    for prof, cls in profiles().items():
        flags = developer_fields(cls)
        defaults = flatten(norm(cls().model_dump()))
        for field in flags:
            if field in ("developer_mode", "silent_developer_mode"):
                continue
            path = field.split(".")
            c = cls
            import pydantic
            for p in path[:-1]:
                ann = c.model_fields[p].annotation
                for cand in [ann] + list(getattr(ann, "__args__", []) or []):
                    if isinstance(cand, type) and issubclass(cand, pydantic.BaseModel):
                        c = cand
            if path[-1] not in c.model_fields:
                continue
            with contextlib.redirect_stdout(io.StringIO()):
                try:
                    cur = getattr(c(), path[-1])
                except Exception:
                    continue
            if isinstance(cur, pydantic.BaseModel) or isinstance(cur, dict):
                continue
            for value in alternatives(c, path[-1], cur):
                for key in (("exact", "upper", "padded") if tier == "thorough" else ("exact", "upper")):
                    for nested_as in (("dict", "object") if len(path) > 1 else ("dict",)):
                        for dm in (None, False, True):
                            for silent in (None, True):
                                if "developer_mode" not in cls.model_fields and (dm is not None or silent is not None):
                                    continue
                                if tier == "quick" and key == "upper" and (dm is True or silent):
                                    continue
                                case = {"profile": prof, "field": field, "value": norm(value), "key": key, "nested_as": nested_as,
                                        "developer_mode": dm, "silent": silent}
                                try:
                                    r = replay(case)
                                except Exception as e:  # noqa
                                    import traceback
                                    r = {"ok": False, "problems": [f"harness exception {type(e).__name__}: {e}", traceback.format_exc()[-500:]]}
                                b.case("C14.enum", case, r["ok"], nontrivial_key=json.dumps(case, sort_keys=True), detail=r["problems"])
    # ---- cross-field validity at the nested level, on EVERY profile tree (a subclass must not lose a parent's check)
    for prof in ("daily", "legacy", "billing"):
        for v in BAD_NUM_STD:
            for nested_as in ("dict", "object"):
                case = {"kind": "num_std", "profile": prof, "value": v, "nested_as": nested_as}
                r = replay(case)
                b.case("C14.enum.invalid_rejected", case, r["ok"], nontrivial_key=("num_std", prof, str(v), nested_as), detail=r["problems"])
    # ---- the model constructors: a ready-made settings object of ANOTHER profile class (or one altered behind the validators) must not get past the lock
    for prof in ("current", "legacy", "developer_none"):
        case = {"kind": "stored_settings", "profile": prof}
        try:
            r = replay(case)
        except Exception as e:  # noqa
            import traceback
            r = {"ok": False, "problems": [f"harness exception {type(e).__name__}: {e}", traceback.format_exc()[-500:]]}
        b.case("C14.enum.stored_settings", case, r["ok"], nontrivial_key=("stored_settings", prof), detail=r["problems"])
    for label in SETTINGS_OBJECT_INPUTS:
        case = {"kind": "settings_object", "input": label}
        r = replay(case)
        b.case("C14.enum.model_constructor", case, r["ok"], nontrivial_key=("settings_object", label), detail=r["problems"])
    return b.result()


def write_approved():
    """(re)generate the approved table from the current tree -- run once at the pinned commit and committed"""
    tabs = current_tables()
    got = model_constants_in_order(["daily", "legacy", "billing", "hourly"])
    data = {"_comment": "approved method constants: daily = published dump of docs/source/learn/daily_billing_model.md (checked by C14.published.*) plus "
                        "the pinned source for fields the document does not list; legacy / billing / hourly = pinned source (change detector)",
            "defaults": {k: v["defaults"] for k, v in tabs.items()}, "developer": {k: v["developer"] for k, v in tabs.items()},
            "model_defaults": {"billing": flatten(got["billing"]), "hourly": flatten(got["hourly"])}}
    json.dump(data, open(APPROVED, "w"), indent=1, sort_keys=True)


if __name__ == "__main__":
    sys.path.insert(0, os.environ.get("VERIF_REPO", "/repo"))
    write_approved()
    print("written", APPROVED)
