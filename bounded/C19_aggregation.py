"""Bounded part of C19: the real BillingModel.predict with monthly / bi-monthly aggregation on parameter-built models:
one row per calendar period, period values = sums / mean / root-sum-square of that period's daily rows, totals
conserved across the three levels, in several timezones, with partial first/last months and gaps."""
import logging
import warnings

import numpy as np
import pandas as pd

from bounded.common import Bounded, load_known
from bounded.C01_roundtrip import param_doc

MODULE = "bounded.C19_aggregation"
logging.disable(logging.CRITICAL)
warnings.filterwarnings("ignore")


class _Data:
    pass


def build(case):
    from opendsm.eemeter.models.billing.model import BillingModel
    from opendsm.eemeter.models.billing.data import BillingReportingData
    doc = param_doc("billing", case["shape"], case["split"], False)
    doc["info"]["baseline_timezone"] = case["tz"]
    m = BillingModel.from_dict(doc)
    idx = pd.date_range(case["start"], periods=case["n"], freq="D", tz=case["tz"])
    rng = np.random.default_rng(case["seed"])
    T = 60 + 25 * np.sin(np.arange(case["n"]) / 58.0) + rng.normal(0, 4, case["n"])
    df = pd.DataFrame({"temperature": T}, index=idx)
    if case["observed"]:
        df["observed"] = 20 + rng.normal(0, 3, case["n"])
    for g in case["gaps"]:
        df.iloc[g, 0] = np.nan
    data = BillingReportingData.__new__(BillingReportingData)  # the data class is not under test here
    data._df = df
    data.tz = idx.tz
    data.warnings, data.disqualification = [], []
    return m, data, df


def replay(case):
    m, data, df = build(case)
    type(data).df = property(lambda self: self._df.copy())
    daily = m.predict(data, aggregation=None)
    bad = []
    for agg, step in (("monthly", 1), ("bimonthly", 2)):
        res = m.predict(data, aggregation=agg)
        # calendar periods in LOCAL time
        local = daily.index
        month_id = local.year * 12 + (local.month - 1)
        first = month_id.min()
        period = (month_id - first) // step
        starts = [pd.Timestamp(year=int((first + p * step) // 12), month=int((first + p * step) % 12) + 1, day=1, tz=case["tz"])
                  for p in range(int(period.max()) + 1)]
        if list(res.index) != starts:
            bad.append(f"{agg}: period labels {list(res.index)[:3]}... expected {starts[:3]}...")
            continue
        cols = ["predicted", "heating_load", "cooling_load"] + (["observed"] if case["observed"] else [])
        for c in cols:
            ref = pd.Series(daily[c].astype(float).values).groupby(np.asarray(period)).sum(min_count=0)
            if not np.allclose(res[c].astype(float).values, ref.values, rtol=1e-9, atol=1e-9, equal_nan=True):
                bad.append(f"{agg}: column {c} is not the sum of the period's daily rows")
        ref_t = pd.Series(daily["temperature"].astype(float).values).groupby(np.asarray(period)).mean()
        if not np.allclose(res["temperature"].astype(float).values, ref_t.values, rtol=1e-9, atol=1e-9, equal_nan=True):
            bad.append(f"{agg}: temperature is not the mean of the period's daily rows")
        ref_u = pd.Series(daily["predicted_unc"].astype(float).values).groupby(np.asarray(period)).apply(lambda x: np.sqrt(np.nansum(np.square(x))))
        if not np.allclose(res["predicted_unc"].astype(float).values, ref_u.values, rtol=1e-9, atol=1e-9, equal_nan=True):
            bad.append(f"{agg}: predicted_unc is not the root-sum-square of the period's daily rows")
        for c in cols:
            if not np.isclose(np.nansum(res[c].astype(float)), np.nansum(daily[c].astype(float)), rtol=1e-9, atol=1e-9):
                bad.append(f"{agg}: total of {c} differs from the daily total")
    for other in ("weekly", "Monthly", "", "MS", 0, False):
        try:
            m.predict(data, aggregation=other)
            bad.append(f"aggregation={other!r} accepted")
        except Exception:
            pass
    for ok in ("none", "NONE", "None"):
        if not m.predict(data, aggregation=ok).equals(daily):
            bad.append(f"aggregation={ok!r} is not the unaggregated frame")
    return {"ok": not bad, "problems": bad}


def run(tier="quick", seed=0):
    b = Bounded("C19", "C19.rows", MODULE,
                "real BillingModel.predict(aggregation) on parameter-built models: timezones {UTC, America/Chicago, Europe/Berlin, Asia/Kolkata, "
                "Australia/Sydney} x start day {1st, 18th, last of month} x span {45, 200, 400 days} x with/without usage x gaps (leading month "
                "without temperature, scattered) x 2 model layouts; reference = independent groupby on local calendar months; distinct = case tuple",
                known_findings=load_known("C19"))
    tzs = ["UTC", "America/Chicago", "Europe/Berlin", "Asia/Kolkata", "Australia/Sydney"]
    starts = ["2023-01-01", "2023-01-18", "2023-02-28"]
    spans = [45, 200, 400]
    layouts = [("hdd_tidd_cdd", "unsplit"), ("hdd_tidd_cdd_smooth", "six")]
    k = 0
    for tz in tzs:
        for st in starts:
            for n in spans:
                for obs in (True, False):
                    for gi, gaps in enumerate(([], list(range(0, 16)), [3, 40, 41])):
                        for shape, split in layouts:
                            k += 1
                            if tier == "quick" and k % 6 != 0:
                                continue
                            case = {"tz": tz, "start": st, "n": n, "observed": obs, "gaps": [g for g in gaps if g < n], "shape": shape,
                                    "split": split, "seed": seed + k}
                            try:
                                r = replay(case)
                            except Exception as e:  # noqa
                                import traceback
                                r = {"ok": False, "problems": [f"exception {type(e).__name__}: {e}", traceback.format_exc()[-600:]]}
                            b.case("C19.rows", case, r["ok"], nontrivial_key=(tz, st, n, obs, gi, shape), detail=r["problems"])
    return b.result()
