"""Bounded part of C09: the REAL daily / billing data classes on daily meters with hourly or half-hourly temperature feeds,
against a per-meter-day reference: temperature = mean of the non-missing readings in [day start, next day start), missing when
half or fewer of the day's readings are present; the per-day present / absent counts handed to the sufficiency test are exact.
The final meter day (its upper edge is set by trimming) is excluded, as the property's observation point does."""
import logging
import warnings

import numpy as np
import pandas as pd

from bounded.common import Bounded, load_known

MODULE = "bounded.C09_daymean"
logging.disable(logging.CRITICAL)
warnings.filterwarnings("ignore")


def _capture(cls):
    store = {}

    class Capturing(cls):
        def _check_data_sufficiency(self, sufficiency_df):
            store["sdf"] = sufficiency_df.copy()
            return super()._check_data_sufficiency(sufficiency_df)

    Capturing.__name__ = cls.__name__
    return Capturing, store


def build(case):
    tz, feed_tz = case["tz"], case["feed_tz"]
    rh = case.get("read_hour", 0)
    day_starts = pd.date_range(f"{case['start']} {rh:02d}:00", periods=case["n_days"] + 1, freq="D", tz=tz)
    rng = np.random.default_rng(case["seed"])
    meter = pd.Series(np.round(rng.uniform(10, 40, len(day_starts)), 3), index=day_starts, name="observed")
    if case["cls"].startswith("Billing"):
        # monthly bills read on the first day of the span and every 30 days after; the data object is daily
        reads = day_starts[::30]
        meter = pd.Series(np.round(rng.uniform(300, 900, len(reads)), 2), index=reads, name="observed")
        meter.iloc[-1] = np.nan
        day_starts = day_starts[: day_starts.get_loc(reads[-1]) + 1]
    step = pd.Timedelta(minutes=case["minutes"])
    # the feed runs one day past the day that begins with the last reading, so that this day is not the feed's own (open-ended) final day
    stamps = pd.date_range(day_starts[0], day_starts[-1] + pd.DateOffset(days=1 + int(case.get("feed_extra_days", 1))), freq=step, inclusive="left").tz_convert(feed_tz)
    n = len(stamps)
    temp = pd.Series(np.round(50 + 25 * np.sin(np.arange(n) * (case["minutes"] / 60.0) / 24 * 2 * np.pi) + np.linspace(-10, 10, n) + rng.normal(0, 1, n), 3),
                     index=stamps, name="temperature")
    local = temp.index.tz_convert(tz)
    per_day = 24 * 60 // case["minutes"]
    for (day, a, k) in case.get("gaps", []):
        d0 = day_starts[day]
        pos = temp.index.searchsorted(d0) + a
        temp.iloc[pos:pos + k] = np.nan
    k = int(case.get("nan_frac", 0) * n)
    if k:
        temp.iloc[rng.choice(np.arange(per_day, n - per_day), size=k, replace=False)] = np.nan
    return meter, temp, day_starts


def reference(temp, day_starts):
    pos = np.searchsorted(day_starts.asi8, temp.index.asi8, side="right") - 1
    # readings after the 24 hours that begin with the last meter stamp belong to no meter day
    ok = (pos >= 0) & (temp.index < day_starts[-1] + pd.DateOffset(days=1))
    t = temp[ok]
    g = t.groupby(day_starts[pos[ok]])
    ref = pd.DataFrame({"mean": g.mean(), "present": g.count(), "total": g.size()})
    ref.loc[ref.present * 2 <= ref.total, "mean"] = np.nan
    return ref


def replay(case):
    import opendsm.eemeter as em
    meter, temp, day_starts = build(case)
    cls = getattr(em, case["cls"])
    Cap, store = _capture(cls)
    tz = case["tz"]
    try:
        if case["entry"] == "from_series":
            data = Cap.from_series(meter, temp, is_electricity_data=True)
        else:
            t = temp.tz_convert(tz)
            df = pd.concat([t.rename("temperature"), meter.rename("observed")], axis=1)
            data = Cap(df, is_electricity_data=True)
    except Exception as e:  # noqa
        return {"ok": False, "problems": [f"well-formed input rejected: {type(e).__name__}: {e}"]}
    got = data.df["temperature"].astype(float)
    sdf = store.get("sdf")
    tloc = temp.tz_convert(tz)
    ref = reference(tloc, day_starts)
    t_bad, t_known, c_bad, c_known = [], [], [], []
    sub = case["minutes"] < 60
    offhour = case.get("read_hour", 0) != 0
    all_nan = bool(got.reindex(day_starts[:-1]).isna().all())
    # the final day of the FEED inside the data object is excluded as well (billing from_series trims the feed at the last read, and the
    # last reading of a feed has no successor to give it a duration)
    # (daily classes: the day that begins with the LAST reading is in the data object too -- the feed built here covers its 24 hours)
    days = day_starts[:-2] if case["cls"].startswith("Billing") else (day_starts if case["minutes"] == 60 else day_starts[:-1])     # (sub-hourly feeds are cut at the last meter stamp's day: that day is the feed's own open-ended final day)
    for day in days:
        if day not in ref.index:
            continue
        exp = ref.loc[day]
        if day not in got.index:
            t_bad.append(f"{day}: meter day absent from the data object")
            continue
        g = got.loc[day]
        if np.isnan(exp["mean"]) != np.isnan(g) or (not np.isnan(g) and abs(g - exp["mean"]) > 1e-9 * max(1.0, abs(exp["mean"]))):
            msg = f"{day}: temperature {g!r} != mean of the present readings {exp['mean']!r} ({int(exp['present'])} of {int(exp['total'])} present)"
            if sub and offhour and all_nan:
                t_known.append(("C09-subhourly-offhour-meter", msg))
            elif case["cls"].startswith("Billing") and not sub and np.isnan(g) and exp["total"] == 23 and exp["present"] == 12:
                t_known.append(("C09-billing-23h-half", msg))
            else:
                t_bad.append(msg)
        if sdf is not None and "temperature_not_null" in sdf.columns and day in sdf.index:
            n_ok, n_na = sdf.loc[day, "temperature_not_null"], sdf.loc[day, "temperature_null"]
            if exp["present"] == 0 and np.isnan(n_ok) and np.isnan(n_na):
                pass        # a day without any present reading carries no counts (NaN/NaN): it cannot pass the coverage test either way
            elif not (n_ok == exp["present"] and n_na == exp["total"] - exp["present"]):
                msg = f"{day}: counts present/absent = {n_ok}/{n_na}, expected {int(exp['present'])}/{int(exp['total'] - exp['present'])}"
                first = tloc.get(day, np.nan) if day in tloc.index else np.nan
                flag = (1, 0) if not np.isnan(first) else (0, 1)
                if sub and not offhour and (n_ok, n_na) == flag:
                    c_known.append(("C09-subhourly-counts-are-flags", msg))
                elif sub and offhour and all_nan and np.isnan(n_ok) and np.isnan(n_na):
                    c_known.append(("C09-subhourly-offhour-meter", msg))
                else:
                    c_bad.append(msg)
        elif sdf is not None and "temperature_not_null" in sdf.columns:
            c_bad.append(f"{day}: no coverage counts for this meter day")
    if not case["cls"].startswith("Billing") and case["entry"] == "from_series":
        # (from_series keeps the span of the METER series; a frame keeps whatever rows it was given)
        beyond = [d for d in got.index if d >= day_starts[-1] + pd.DateOffset(days=1)]
        if beyond:
            t_bad.append(f"the data object has {len(beyond)} day(s) after the day of the meter's last reading, e.g. {beyond[0]}")
    return {"ok": not (t_bad or t_known or c_bad or c_known), "temperature": {"bad": t_bad[:5], "known": t_known[:3]}, "counts": {"bad": c_bad[:5], "known": c_known[:3]},
            "problems": (t_bad + c_bad)[:6] or [m for _, m in (t_known + c_known)[:4]]}


SPANS = {"America/Chicago": ["2021-06-03", "2021-10-30", "2021-03-06"], "Europe/Berlin": ["2022-10-22", "2022-03-19"], "America/New_York": ["2023-10-28"],
         "Australia/Sydney": ["2023-03-25", "2023-09-23"], "UTC": ["2022-05-01"], "Asia/Kolkata": ["2022-05-01"]}


def cases(tier, seed):
    out = []
    k = 0
    for tz, starts in SPANS.items():
        for start in starts:
            for feed_tz in ("UTC", "same", "Etc/GMT-3"):
                for minutes in (60, 30):
                    for cls in ("DailyBaselineData", "DailyReportingData", "BillingBaselineData"):
                        for entry in ("from_series", "frame"):
                            for rh in (0, 6):
                                if cls.startswith("Billing") and (rh or entry == "frame"):
                                    continue
                                if tz == "Asia/Kolkata" and minutes == 60 and feed_tz != "same":
                                    continue        # offset of half an hour is not a whole number of hourly sampling intervals
                                k += 1
                                if tier == "quick" and k % 9 != seed % 9:
                                    continue
                                per_day = 24 * 60 // minutes
                                r = np.random.default_rng(31 * seed + k)
                                gaps = [(2, int(r.integers(0, per_day // 2)), per_day // 2),             # exactly half missing -> missing day
                                        (3, int(r.integers(0, per_day // 2)), per_day // 2 - 1),         # one reading more than half present
                                        (5, int(r.integers(0, per_day // 4)), per_day // 2 + 2),         # more than half missing
                                        (7, int(r.integers(1, per_day // 2)), max(1, per_day // 8)),     # (often the DST day of the span)
                                        (8, int(r.integers(1, per_day // 2)), max(1, per_day // 6)),
                                        (10, 0, per_day)]                                                  # a whole day missing
                                out.append({"tz": tz, "feed_tz": tz if feed_tz == "same" else feed_tz, "start": start, "n_days": 91 if cls.startswith("Billing") else 16, "minutes": minutes,
                                            "cls": cls, "entry": entry, "read_hour": rh, "gaps": gaps, "nan_frac": float(r.choice([0.0, 0.03])),
                                            "seed": int(31 * seed + k)})
    out.append({"tz": "America/Chicago", "feed_tz": "UTC", "start": "2021-10-30", "n_days": 16, "minutes": 60, "cls": "DailyBaselineData", "entry": "from_series",
                "read_hour": 0, "gaps": [], "nan_frac": 0.0, "seed": 1})
    out.append({"tz": "America/Chicago", "feed_tz": "America/Chicago", "start": "2021-03-06", "n_days": 16, "minutes": 30, "cls": "DailyReportingData",
                "entry": "frame", "read_hour": 0, "gaps": [(8, 20, 11)], "nan_frac": 0.0, "seed": 2})     # 23-hour day (46 readings), 35 present
    out.append({"tz": "America/Chicago", "feed_tz": "UTC", "start": "2021-03-06", "n_days": 16, "minutes": 60, "cls": "DailyBaselineData", "entry": "from_series",
                "read_hour": 0, "gaps": [(8, 5, 11)], "nan_frac": 0.0, "seed": 3})                           # 23-hour day with 12 of 23 present: kept
    out.append({"tz": "America/Chicago", "feed_tz": "UTC", "start": "2021-03-06", "n_days": 91, "minutes": 60, "cls": "BillingBaselineData", "entry": "from_series",
                "read_hour": 0, "gaps": [(8, 5, 11)], "nan_frac": 0.0, "seed": 4})                           # ... the same through the billing class
    out.append({"tz": "America/Chicago", "feed_tz": "UTC", "start": "2021-06-03", "n_days": 16, "minutes": 30, "cls": "DailyBaselineData", "entry": "from_series",
                "read_hour": 6, "gaps": [(3, 4, 10)], "nan_frac": 0.0, "seed": 5})                          # half-hourly feed, meter read at 06:00
    # a meter read at 06:00 with an hourly feed: every meter day, the LAST one included, is the meter's own 24 hours
    for entry in ("frame", "from_series"):
        out.append({"tz": "America/Chicago", "feed_tz": "UTC", "start": "2021-06-03", "n_days": 12, "minutes": 60, "cls": "DailyBaselineData", "entry": entry,
                    "read_hour": 6, "gaps": [(3, 4, 5)], "nan_frac": 0.0, "seed": 6})
    # a meter series whose FIRST day is the day of a clock change (23 / 25 hours), hourly feed running past the meter
    for start in ("2021-03-14", "2021-11-07"):
        for cls in ("DailyBaselineData", "DailyReportingData"):
            out.append({"tz": "America/Chicago", "feed_tz": "America/Chicago", "start": start, "n_days": 12, "minutes": 60, "cls": cls, "entry": "from_series",
                        "read_hour": 0, "gaps": [(4, 3, 6)], "nan_frac": 0.0, "seed": 7})
    # half-hourly feed, the day of the clock change (46 / 50 readings) blank within one reading of one half
    for start, k in (("2021-03-06", 22), ("2021-03-06", 23), ("2021-10-30", 24), ("2021-10-30", 25)):
        out.append({"tz": "America/Chicago", "feed_tz": "America/Chicago", "start": start, "n_days": 12, "minutes": 30, "cls": "DailyReportingData", "entry": "frame",
                    "read_hour": 0, "gaps": [(8, 10, k)], "nan_frac": 0.0, "seed": 8})
    return out


def run(tier="quick", seed=0):
    b = Bounded("C09", "C09.daymean", MODULE,
                "real DailyBaselineData / DailyReportingData / BillingBaselineData (from_series and frame) on 16-day daily meters read at 00:00 or 06:00 local in "
                + ", ".join(SPANS) + " (spans containing each zone's DST changes), hourly and half-hourly temperature feeds delivered in UTC, the meter's zone or a "
                "fixed +03:00 zone; per-day gaps of exactly half, one reading under half, over half, 1/8, 1/6 of a day, a whole day, plus 0-3 % scattered NaN. "
                "Reference: per-meter-day mean of the present readings / half rule / exact present and absent counts (captured from the frame handed to the "
                "sufficiency check). distinct = case", known_findings=load_known("C09"))
    for case in cases(tier, seed):
        feed = "hourly" if case["minutes"] == 60 else "subhourly"
        try:
            r = replay(case)
        except Exception as e:  # noqa
            import traceback
            r = {"ok": False, "problems": [f"harness exception {type(e).__name__}: {e}", traceback.format_exc()[-600:]]}
        if "temperature" not in r:
            b.case(f"C09.temperature.{feed}", case, r["ok"], nontrivial_key=str(case), detail=r["problems"])
            continue
        for part in ("temperature", "counts"):
            p = r[part]
            kid = p["known"][0][0] if p["known"] and not p["bad"] else None
            b.case(f"C09.{part}.{feed}", case, not p["bad"] and not p["known"], nontrivial_key=str(case), detail=p["bad"] or [m for _, m in p["known"]], known_id=kid)
    return b.result()
