"""C13 (selection part) -- the chosen split has the lowest selection criterion among the candidates.

The real DailyModel._best_combination is executed for k candidates whose criteria are symbolic reals, NaN or -inf
(every pattern of the three kinds for k <= 4): it returns the FIRST candidate whose criterion is <= every other finite criterion,
never a NaN-scored candidate, and None only when every criterion is NaN.  (The argmin loop is over a list whose
length is fixed per case; the quantification over criterion values is symbolic.)"""
from pyvc.api import *  # noqa

DM = repo("opendsm/eemeter/models/daily/model.py::DailyModel")

OPAQUE = {"opendsm/eemeter/models/daily/model.py::DailyModel._combination_selection_criteria": "criteria_effect"}


def criteria_effect(self, combination):
    return self.ghost_criteria[combination]


def patterns(k):
    out = [[]]
    for _ in range(k):
        out = [p + [b] for p in out for b in ["num", "nan", "ninf"]]
    return out


CASES = [{"k": k, "kind": p} for k in [1, 2, 3, 4] for p in patterns(k)]
NEG_INF = float("-inf")


@harness("C13.argmin", prop="C13", cases=CASES)
def argmin(k, kind, c0: Real, c1: Real, c2: Real, c3: Real):
    """criteria are symbolic reals, NaN (never chosen) or -inf (a split that fits exactly: the lowest possible criterion)"""
    names = ["fw-su_sh_wi", "fw-su__fw-sh_wi", "wd-su_sh_wi__we-su_sh_wi", "fw-su__fw-sh__fw-wi"][:k]
    vals = [c0, c1, c2, c3][:k]
    crit = {}
    for i in range(k):
        if kind[i] == "nan":
            crit[names[i]] = nan_value()
        elif kind[i] == "ninf":
            crit[names[i]] = NEG_INF
        else:
            crit[names[i]] = vals[i]
    m = new_object(DM, combinations=list(names), ghost_criteria=crit)
    best = m._best_combination(print_out=False)
    nan = [kk == "nan" for kk in kind]
    exact = [i for i in range(k) if kind[i] == "ninf"]
    finite = [i for i in range(k) if kind[i] == "num"]
    if len(finite) + len(exact) == 0:
        check("C13.argmin.none_iff_all_nan", best is None)
    else:
        check("C13.argmin.member", best in names)
        if best in names:
            j = names.index(best)
            check("C13.argmin.not_nan", not nan[j])
            if len(exact) > 0:
                # an exactly fitting split has the lowest criterion there is: the first of them is chosen
                check("C13.argmin.lowest", j == exact[0])
            elif not nan[j]:
                check("C13.argmin.lowest", And(*[vals[j] <= vals[i] for i in finite]))
                # first such: every earlier finite candidate is strictly worse
                check("C13.argmin.first", And(*[vals[i] > vals[j] for i in finite if i < j]))
