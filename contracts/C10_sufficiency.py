"""C10 (proof part) -- each threshold check of SufficiencyCriteria appends its disqualification exactly on its published
criterion and touches nothing else (symbolic day counts; integers).  Call sets and writer sets are table / flow
obligations in flow/C10_tables.py; the end-to-end verdicts at the thresholds are the bounded part."""
from pyvc.api import *  # noqa

SC = repo("opendsm/eemeter/common/sufficiency_criteria.py::SufficiencyCriteria")
OPAQUE = {"opendsm/eemeter/common/warnings.py::EEMeterWarning.warn": None}

CASES = [{"reporting": r} for r in [False, True]]


def criteria(reporting, n_total, n_valid, n_meter, n_temp):
    return new_object(SC, is_reporting_data=reporting, is_electricity_data=True, n_days_total=n_total, n_valid_days=n_valid,
                      n_valid_meter_value_days=n_meter, n_valid_temperature_days=n_temp, min_fraction_daily_coverage=0.9, num_days=365,
                      disqualification=fresh_seq("disqualification"), warnings=fresh_seq("warnings"), data=opaque("data"))


def names(seq):
    return [w.qualified_name for w in appended(seq)]


@harness("C10.baseline_length", prop="C10")
def baseline_length(n_total: Int, n_valid: Int, n_meter: Int, n_temp: Int):
    c = criteria(False, n_total, n_valid, n_meter, n_temp)
    c._check_baseline_length_daily_billing_model()
    got = names(c.disqualification)
    # published: baseline span outside 329-365 days
    check("C10.baseline_length", iff(got == ["eemeter.sufficiency_criteria.incorrect_number_of_total_days"], Or(n_total > 365, n_total < 329)))
    check("C10.baseline_length.only", And(len(got) <= 1, Not(mutated(c.warnings))))


@harness("C10.valid_days", prop="C10", cases=CASES)
def valid_days(reporting, n_total: Int, n_valid: Int, n_meter: Int, n_temp: Int):
    assume(And(n_valid >= 0, n_meter >= 0, n_temp >= 0))
    c = criteria(reporting, n_total, n_valid, n_meter, n_temp)
    c._check_valid_days_percentage()
    got = names(c.disqualification)
    under = Or(n_total <= 0, n_valid * 10 < n_total * 9)     # n_valid / n_total < 0.9, in integers
    check("C10.valid_days", iff(got == ["eemeter.sufficiency_criteria.too_many_days_with_missing_data"], under))
    check("C10.valid_days.only", And(len(got) <= 1, Not(mutated(c.warnings))))


@harness("C10.valid_meter", prop="C10", cases=CASES)
def valid_meter(reporting, n_total: Int, n_valid: Int, n_meter: Int, n_temp: Int):
    assume(And(n_valid >= 0, n_meter >= 0, n_temp >= 0))
    c = criteria(reporting, n_total, n_valid, n_meter, n_temp)
    c._check_valid_meter_readings_percentage()
    got = names(c.disqualification)
    if reporting:
        check("C10.valid_meter", got == [])
    else:
        check("C10.valid_meter", iff(got == ["eemeter.sufficiency_criteria.too_many_days_with_missing_meter_data"],
                                     Or(n_total <= 0, n_meter * 10 < n_total * 9)))
    check("C10.valid_meter.only", And(len(got) <= 1, Not(mutated(c.warnings))))


@harness("C10.valid_temperature", prop="C10", cases=CASES)
def valid_temperature(reporting, n_total: Int, n_valid: Int, n_meter: Int, n_temp: Int):
    assume(And(n_valid >= 0, n_meter >= 0, n_temp >= 0))
    c = criteria(reporting, n_total, n_valid, n_meter, n_temp)
    c._check_valid_temperature_values_percentage()
    got = names(c.disqualification)
    check("C10.valid_temperature", iff(got == ["eemeter.sufficiency_criteria.too_many_days_with_missing_temperature_data"],
                                       Or(n_total <= 0, n_temp * 10 < n_total * 9)))
    check("C10.valid_temperature.only", And(len(got) <= 1, Not(mutated(c.warnings))))
