"""Bounded part of C12: REAL DailyModel / BillingModel fits on synthetic baselines of every regime (heating-only, cooling-only,
both, flat, weekday/weekend and seasonal regimes, outliers, noise levels, balance points near the edge of the range, 330-365
days, current and legacy profiles); every fitted sub-model (to_dict()['submodels']) and every fitted component (fit_components,
model) is checked for admissibility and for curve preservation (component.eval(component.T) reproduces component.model).
The proof part assumes that the optimiser returns a point of its box; this part observes what the installed optimisers return."""
import logging
import os
import warnings

import numpy as np
import pandas as pd

from bounded.common import Bounded, load_known

MODULE = "bounded.C12_fits"
logging.disable(logging.CRITICAL)
warnings.filterwarnings("ignore")
HEAT = {"hdd_tidd", "hdd_tidd_smooth", "hdd_tidd_cdd", "hdd_tidd_cdd_smooth"}
COOL = {"tidd_cdd", "tidd_cdd_smooth", "hdd_tidd_cdd", "hdd_tidd_cdd_smooth"}


def build(case):
    rng = np.random.default_rng(case["seed"])
    n = case["n_days"]
    if case.get("generator") == "v_home":
        # a weak V-shaped response: heating and cooling slopes of similar size meeting at ONE balance temperature, additive noise -- the two break points of
        # the initial two-sided fit end up close together and the optimiser may stop on a crossed pair
        idx = pd.date_range("2019-01-01", periods=n, freq="D", tz="UTC")
        doy = idx.dayofyear.values
        T = 60.0 - 24.0 * np.cos(2 * np.pi * (doy - 15) / 365.0) + rng.normal(0, 4, n)
        y = 12.0 + case["heat_slope"] * np.clip(62.0 - T, 0, None) + case["cool_slope"] * np.clip(T - 62.0, 0, None) + rng.normal(0, case["noise_abs"], n)
        return pd.DataFrame({"temperature": T, "observed": np.clip(y, 0.1, None)}, index=idx)
    idx = pd.date_range(case.get("start", "2022-01-01"), periods=n, freq="D", tz=case.get("tz", "America/Chicago"))
    doy = idx.dayofyear.values
    T = case.get("T_mean", 55) + case.get("T_amp", 25) * np.sin((doy - 105) / 365 * 2 * np.pi) + rng.normal(0, case.get("T_noise", 5), n)
    base, hs, cs, hb, cb = case["base"], case["heat_slope"], case["cool_slope"], case["heat_bp"], case["cool_bp"]
    obs = base + hs * np.maximum(hb - T, 0) + cs * np.maximum(T - cb, 0)
    if case.get("weekend"):
        obs = np.where(idx.dayofweek.values >= 5, obs * case["weekend"], obs)
    if case.get("summer"):
        obs = np.where(np.isin(idx.month.values, [6, 7, 8, 9]), obs * case["summer"], obs)
    obs = obs * (1 + rng.normal(0, case.get("noise", 0.05), n))
    for k in range(case.get("outliers", 0)):
        obs[int(rng.integers(0, n))] *= float(rng.choice([0.1, 4.0]))
    if case.get("net_metered"):
        obs = obs - case["net_metered"]
    df = pd.DataFrame({"temperature": np.round(T, 3), "observed": np.round(obs, 4)}, index=idx)
    return df


def fit_one(case):
    os.environ["OPENDSM_EEMETER_VERIF"] = "1"       # hook: OptimizedResult keeps the optimiser's raw vector
    import opendsm.eemeter as em
    df = build(case)
    try:
        if case["family"] == "billing":
            # monthly bills: usage summed per calendar month, stamped on the first day; daily temperature
            bills = df["observed"].resample("MS").sum()
            bills = pd.concat([bills, pd.Series([np.nan], index=[bills.index[-1] + pd.offsets.MonthBegin(1)])])
            temp = df["temperature"].resample("h").ffill()
            data = em.BillingBaselineData.from_series(bills.rename("observed"), temp.rename("temperature"), is_electricity_data=not case.get("net_metered") is None or True)
            m = em.BillingModel().fit(data, ignore_disqualification=True)
        else:
            data = em.DailyBaselineData(df, is_electricity_data=True)
            m = em.DailyModel(model=case.get("profile", "current"))
            if case.get("refit_after"):
                # ONE model object, fitted on another home first (a warmer climate, other usage)
                m.fit(em.DailyBaselineData(build(dict(case, **case["refit_after"], refit_after=None)), is_electricity_data=True), ignore_disqualification=True)
            m = m.fit(data, ignore_disqualification=True)
    except Exception as e:  # noqa
        import traceback
        return {"ok": False, "problems": [f"fit failed: {type(e).__name__}: {e}", traceback.format_exc()[-500:]]}
    bad = []
    doc = m.to_dict()
    for key, sm in doc["submodels"].items():
        c = sm["coefficients"]
        tc = sm["temperature_constraints"]
        mt = c["model_type"].value if hasattr(c["model_type"], "value") else str(c["model_type"])
        heat, cool, smooth = mt in HEAT, mt in COOL, mt.endswith("smooth")
        vals = {k: v for k, v in c.items() if k != "model_type"}
        for k, v in vals.items():
            if v is not None and not np.isfinite(v):
                bad.append(f"{key}: {k} = {v!r} is not finite")
        present = {k: vals.get(k) is not None for k in ("hdd_bp", "hdd_beta", "hdd_k", "cdd_bp", "cdd_beta", "cdd_k")}
        want = {"hdd_bp": heat, "hdd_beta": heat, "hdd_k": heat and smooth, "cdd_bp": cool, "cdd_beta": cool, "cdd_k": cool and smooth}
        if present != want:
            bad.append(f"{key}: model_type {mt} but coefficients present {sorted(k for k, v in present.items() if v)}")
            continue
        T_min, T_max = tc["T_min"], tc["T_max"]
        if heat and not (T_min <= c["hdd_bp"] <= T_max):
            bad.append(f"{key}: hdd_bp {c['hdd_bp']} outside the observed range [{T_min}, {T_max}]")
        if cool and not (T_min <= c["cdd_bp"] <= T_max):
            bad.append(f"{key}: cdd_bp {c['cdd_bp']} outside the observed range [{T_min}, {T_max}]")
        if heat and cool and not c["hdd_bp"] <= c["cdd_bp"]:
            bad.append(f"{key}: hdd_bp {c['hdd_bp']} above cdd_bp {c['cdd_bp']}")
        if heat and cool:
            if not c["hdd_beta"] > 0:
                bad.append(f"{key}: heating slope {c['hdd_beta']} does not make usage rise as it gets colder")
            if not c["cdd_beta"] > 0:
                bad.append(f"{key}: cooling slope {c['cdd_beta']} does not make usage rise as it gets hotter")
        elif heat and not c["hdd_beta"] < 0:
            bad.append(f"{key}: one-sided heating slope {c['hdd_beta']} (stored as d usage / dT) is not negative")
        elif cool and not c["cdd_beta"] > 0:
            bad.append(f"{key}: one-sided cooling slope {c['cdd_beta']} is not positive")
        for k in ("hdd_k", "cdd_k"):
            if vals.get(k) is not None and vals[k] < 0:
                bad.append(f"{key}: {k} = {vals[k]} is negative")
        if not (sm["f_unc"] is not None and np.isfinite(sm["f_unc"]) and sm["f_unc"] >= 0):
            bad.append(f"{key}: f_unc = {sm['f_unc']!r}")
        comp = m.model.get(key)
        if comp is not None:
            if not (np.min(comp.obs) - 1e-9 <= c["intercept"] <= np.max(comp.obs) + 1e-9):
                bad.append(f"{key}: base load {c['intercept']} outside the observed usage range [{np.min(comp.obs)}, {np.max(comp.obs)}]")
            if not (np.isclose(T_min, np.min(comp.T), rtol=0, atol=1e-9) and np.isclose(T_max, np.max(comp.T), rtol=0, atol=1e-9)):
                bad.append(f"{key}: recorded temperature limits [{T_min}, {T_max}] are not those of the days fitted on [{np.min(comp.T)}, {np.max(comp.T)}]")
    if case["family"] != "billing":
        # the days the kept components were fitted on are the days of the baseline handed to fit()
        Tb = data.df["temperature"].astype(float)
        Tb = Tb[np.isfinite(Tb) & np.isfinite(data.df["observed"].astype(float))]
        Tc = np.sort(np.concatenate([np.asarray(c.T, dtype=float) for c in m.model.values() if c is not None]))
        if len(Tc) != len(Tb) or not np.allclose(Tc, np.sort(Tb.values), rtol=0, atol=1e-9):
            bad.append(f"the kept components were fitted on {len(Tc)} days spanning [{Tc.min() if len(Tc) else None}, {Tc.max() if len(Tc) else None}] F, the baseline given to fit() has "
                       f"{len(Tb)} complete days spanning [{Tb.min()}, {Tb.max()}] F")
    curve_bad = []
    for where, comps in (("fit_components", m.fit_components), ("model", m.model)):
        for key, comp in comps.items():
            if comp is None:
                continue
            ev = comp.eval(comp.T)[0]
            scale = max(1.0, float(np.max(np.abs(comp.model))))
            err = float(np.max(np.abs(np.asarray(ev) - np.asarray(comp.model))))
            if not err <= 1e-7 * scale:
                raw = getattr(comp, "_verif_raw_x", None)
                curve_bad.append({"where": where, "key": key, "err": err, "scale": scale, "model_key": comp.model_key, "x": [float(v) for v in comp.x],
                                  "raw_x": None if raw is None else [float(v) for v in raw], "raw_key": getattr(comp, "_verif_raw_coef_id", None),
                                  "T_min": float(comp.T_min), "T_max": float(comp.T_max), "T_min_seg": float(comp.T_min_seg), "T_max_seg": float(comp.T_max_seg)})
    # attribute each curve mismatch to its cause with the raw optimiser vector kept by the verification hook
    for cb in curve_bad:
        cb["known"] = classify(cb)
    return {"ok": not bad and not curve_bad, "problems": bad[:8], "curve": curve_bad[:6], "split": m.best_combination,
            "types": sorted({(sm["coefficients"]["model_type"].value if hasattr(sm["coefficients"]["model_type"], "value") else str(sm["coefficients"]["model_type"]))
                             for sm in doc["submodels"].values()})}


def classify(cb):
    """is the mismatch inside the witness classes of known finding C12-H (contracts/C12_refine.py: finding_H, finding_H2, finding_H3)?"""
    if cb.get("raw_x") is None:
        return False
    import contracts.C12_refine as R
    key = next((k for k, ids in R.COEF_IDS.items() if ids == cb["raw_key"]), None)
    if key is None:
        return False
    x = cb["raw_x"]
    final = cb["where"] == "model" and cb.get("final_refit", True)
    try:
        return bool(R.finding_H(key, x)) or bool(R.finding_H2(key, x, cb["T_min"], cb["T_max"])) or \
            bool(R.finding_H3(key, final, x, cb["T_min"], cb["T_max"], cb["T_min_seg"], cb["T_max_seg"]))
    except Exception:  # noqa
        return False


def replay(case):
    r = fit_one(case)
    return {"ok": r["ok"], "problems": r.get("problems", []) + [str(c) for c in r.get("curve", [])]}


def cases(tier, seed):
    out = []
    regimes = [
        {"name": "both", "base": 20, "heat_slope": 1.2, "cool_slope": 0.9, "heat_bp": 50, "cool_bp": 68},
        {"name": "heating", "base": 15, "heat_slope": 1.5, "cool_slope": 0.0, "heat_bp": 58, "cool_bp": 200},
        {"name": "cooling", "base": 25, "heat_slope": 0.0, "cool_slope": 1.3, "heat_bp": -200, "cool_bp": 62},
        {"name": "flat", "base": 30, "heat_slope": 0.0, "cool_slope": 0.0, "heat_bp": 50, "cool_bp": 65},
        {"name": "narrow_deadband", "base": 20, "heat_slope": 1.0, "cool_slope": 1.0, "heat_bp": 60, "cool_bp": 61},
        {"name": "edge_heating", "base": 20, "heat_slope": 0.8, "cool_slope": 0.0, "heat_bp": 82, "cool_bp": 200},     # balance point near the top of the range
        {"name": "edge_cooling", "base": 20, "heat_slope": 0.0, "cool_slope": 0.8, "heat_bp": -200, "cool_bp": 28},    # ... near the bottom
        {"name": "weekend", "base": 20, "heat_slope": 1.2, "cool_slope": 0.9, "heat_bp": 50, "cool_bp": 68, "weekend": 0.5},
        {"name": "seasonal", "base": 20, "heat_slope": 1.2, "cool_slope": 0.9, "heat_bp": 50, "cool_bp": 68, "summer": 1.8},
        {"name": "outliers", "base": 20, "heat_slope": 1.2, "cool_slope": 0.9, "heat_bp": 50, "cool_bp": 68, "outliers": 12},
        {"name": "noisy", "base": 20, "heat_slope": 0.6, "cool_slope": 0.4, "heat_bp": 50, "cool_bp": 68, "noise": 0.35},
        {"name": "net_metered", "base": 8, "heat_slope": 0.5, "cool_slope": 0.7, "heat_bp": 50, "cool_bp": 66, "net_metered": 15},
        {"name": "mild_climate", "base": 20, "heat_slope": 1.2, "cool_slope": 0.9, "heat_bp": 50, "cool_bp": 68, "T_mean": 60, "T_amp": 8},
    ]
    k = 0
    for r in regimes:
        for fam, profile in (("daily", "current"), ("daily", "legacy"), ("billing", "current")):
            for n_days in (365, 330):
                k += 1
                if tier == "quick" and (k + seed) % 6 != 0 and not (fam == "daily" and profile == "current" and n_days == 365):
                    continue        # quick: every regime once under the current daily profile, the other (profile, span) combinations in rotation
                if fam == "billing" and n_days == 330:
                    continue
                c = dict(r, family=fam, profile=profile, n_days=n_days, seed=int(1000 * seed + k))
                out.append(c)
    # weak V-shaped homes under the legacy profile (the initial two-sided fit may stop on crossed break points)
    for sd, n, hs, cs_, nz in ((102, 365, 0.3, 0.4, 3.0), (109, 335, 0.6, 0.6, 4.0), (122, 335, 0.6, 0.6, 4.0)) + (((131, 365, 0.5, 0.5, 3.5),) if tier == "thorough" else ()):
        out.append({"name": "v_home", "generator": "v_home", "family": "daily", "profile": "legacy", "n_days": n, "seed": sd, "heat_slope": hs, "cool_slope": cs_, "noise_abs": nz,
                    "base": 12, "heat_bp": 62, "cool_bp": 62})
    # ONE model object fitted on a warm-climate home first, then on the recorded one
    out.append(dict(regimes[0], family="daily", profile="current", n_days=365, seed=int(1000 * seed + 901),
                    refit_after={"T_mean": 78, "T_amp": 14, "base": 35, "heat_slope": 0.0, "cool_slope": 1.6, "seed": int(1000 * seed + 902)}))
    return out


def run(tier="quick", seed=0):
    from concurrent.futures import ProcessPoolExecutor
    b = Bounded("C12", "C12.fits", MODULE,
                "real DailyModel (current, legacy profile) / BillingModel fits on synthetic 330/365-day baselines: heating-only, cooling-only, both, flat, 1-degree deadband, "
                "balance point near either edge of the range, weekday/weekend regime, seasonal regime, outliers, 35 % noise, net-metered (negative usage), mild climate. Checked: "
                "every sub-model of to_dict() (finite, type agrees with coefficients, balance points ordered and inside the recorded range, slope signs, k >= 0, base load "
                "within observed usage, f_unc >= 0 finite, recorded limits = limits of the days fitted on) and eval(T) == fitted values for every component. distinct = case",
                known_findings=load_known("C12"))
    cs = cases(tier, seed)
    os.environ.setdefault("OPENDSM_EEMETER_VERIF", "1")
    with ProcessPoolExecutor(max_workers=min(14, max(1, len(cs)))) as ex:
        results = list(ex.map(fit_one, cs))
    for case, r in zip(cs, results):
        b.case("C12.fits.admissible", case, not r.get("problems"), nontrivial_key=str(case), detail=r.get("problems"))
        curve = r.get("curve", [])
        unknown = [c for c in curve if not c.get("known")]
        b.case("C12.fits.curve_preserved", case, not curve, nontrivial_key=str(case), detail=[str(c)[:400] for c in (unknown or curve)],
               known_id="C12-H" if curve and not unknown else None)
    b.extra["splits"] = sorted({r.get("split") for r in results if r.get("split")})
    b.extra["model_types"] = sorted({t for r in results for t in r.get("types", [])})
    return b.result()
