"""./check <Cnn> --tier quick|thorough : decide one property (DESIGN §3.9).

Exit codes: 0 held (known findings printed), 1 violation, 2 undecided, 3 checker error.
"""
from __future__ import annotations

import argparse
import importlib
import json
import multiprocessing as mp
import os
import subprocess
import sys
import time
import traceback

VERIF = os.path.dirname(os.path.dirname(os.path.abspath(__file__)))
for _p in (VERIF, os.path.join(VERIF, ".overlay")):
    if _p not in sys.path:
        sys.path.insert(0, _p)
REPO = os.environ.get("VERIF_REPO", "/repo")
if REPO not in sys.path:
    sys.path.insert(0, REPO)


def load_known_findings():
    p = os.path.join(VERIF, "known_findings.json")
    if not os.path.exists(p):
        return {"findings": [], "fixed": []}
    return json.load(open(p))


def load_baseline():
    p = os.path.join(VERIF, "contracts", "baseline_obligations.json")
    if not os.path.exists(p):
        return {}
    return json.load(open(p))


# ----------------------------------------------------------------------------- scheduler

def _init_worker():
    import signal
    signal.signal(signal.SIGINT, signal.SIG_IGN)


def explore_all(jobs, known, ob_timeout_ms, keep_smt, nproc, max_paths, deadline=None, progress=False):
    """Run every path of every job on a process pool (tasks are (job, decision-prefix) pairs)."""
    from . import runner
    results = {i: runner.new_job_result(j) for i, j in enumerate(jobs)}
    t_start = {i: None for i in results}
    if nproc <= 1:
        for i, j in enumerate(jobs):
            r = runner.run_job(j, known_findings=known, ob_timeout_ms=ob_timeout_ms, keep_smt=keep_smt, max_paths=max_paths)
            results[i] = r
        return [results[i] for i in range(len(jobs))]
    ctx = mp.get_context("fork")
    pool = ctx.Pool(nproc, initializer=_init_worker)
    outstanding = 0
    import queue
    done_q = queue.Queue()

    def submit(i, decisions):
        nonlocal outstanding
        outstanding += 1
        task = {"job": jobs[i], "decisions": decisions, "known_findings": known, "ob_timeout_ms": ob_timeout_ms,
                "keep_smt": keep_smt, "job_key": i}
        pool.apply_async(runner.run_path, (task,), callback=done_q.put,
                         error_callback=lambda e, i=i: done_q.put({"job_key": i, "status": "error", "error": repr(e),
                                                                   "obligations": [], "pending": [], "unsupported": [],
                                                                   "assumptions": [], "opaque_calls": [], "covers": [],
                                                                   "feas_time": 0.0, "functions_read": {}, "wall_s": 0.0,
                                                                   "sample_inputs": None}))

    for i in range(len(jobs)):
        submit(i, [])
    last = time.time()
    try:
        while outstanding:
            out = done_q.get()
            outstanding -= 1
            i = out["job_key"]
            runner.merge_path(results[i], out)
            if results[i]["paths"] + 0 >= max_paths and out["pending"]:
                results[i]["unsupported"].append({"msg": f"path limit {max_paths} reached", "where": jobs[i]["id"]})
            else:
                for d in out["pending"]:
                    submit(i, d)
            if progress and time.time() - last > 15:
                last = time.time()
                n_ob = sum(len(r["obligations"]) for r in results.values())
                print(f"  .. {sum(r['paths'] for r in results.values())} paths, {n_ob} VCs, {outstanding} tasks outstanding", flush=True)
    finally:
        pool.close()
        pool.terminate()
    return [runner.finish_job(results[i]) for i in range(len(jobs))]


# ----------------------------------------------------------------------------- cvc5 second opinion

def cvc5_check(smt2, timeout_s=20):
    """Second back end (thorough tier): returns 'unsat' | 'sat' | 'unknown'."""
    import tempfile
    exe = "/usr/bin/cvc5"
    if not os.path.exists(exe):
        return "unavailable"
    with tempfile.NamedTemporaryFile("w", suffix=".smt2", delete=False, dir=os.path.join(VERIF, ".scratch")) as f:
        f.write(smt2)
        path = f.name
    try:
        p = subprocess.run([exe, "--lang=smt2", f"--tlimit={int(timeout_s * 1000)}", path], capture_output=True, text=True,
                           timeout=timeout_s + 5)
        out = p.stdout.strip().splitlines()
        return out[0] if out else "unknown"
    except subprocess.TimeoutExpired:
        return "unknown"
    finally:
        os.unlink(path)


# ----------------------------------------------------------------------------- main

def main(argv=None):
    ap = argparse.ArgumentParser()
    ap.add_argument("prop")
    ap.add_argument("--tier", default=os.environ.get("VERIF_TIER", "quick"), choices=["quick", "thorough"])
    ap.add_argument("--only", action="append", default=[])
    ap.add_argument("--update-baseline", action="store_true")
    ap.add_argument("--nproc", type=int, default=int(os.environ.get("VERIF_NPROC", "16")))
    ap.add_argument("--no-evidence", action="store_true")
    ap.add_argument("-v", "--verbose", action="store_true")
    args = ap.parse_args(argv)
    seed = int(os.environ.get("VERIF_SEED", "0") or 0)
    t0 = time.time()
    os.makedirs(os.path.join(VERIF, ".scratch"), exist_ok=True)
    try:
        from . import report
        rc = report.decide(args.prop, args.tier, seed, args, t0)
    except SystemExit:
        raise
    except Exception:
        traceback.print_exc()
        print(f"CHECKER-ERROR property={args.prop}")
        rc = 3
    sys.exit(rc)


if __name__ == "__main__":
    main()
