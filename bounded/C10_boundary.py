"""Bounded part of C10: the REAL data classes on synthetic meters built exactly at / around each published threshold;
the set of disqualification names must equal an independent evaluation of the criteria; well-formed inputs are accepted
through both entry points (frame and from_series)."""
import logging
import warnings

import numpy as np
import pandas as pd

from bounded.common import Bounded, load_known

MODULE = "bounded.C10_boundary"
logging.disable(logging.CRITICAL)
warnings.filterwarnings("ignore")
P = "eemeter.sufficiency_criteria."


def build(case):
    tz = case.get("tz", "America/Chicago")
    n = case["n_days"]
    idx = pd.date_range(case.get("start", "2022-01-01"), periods=n, freq="D", tz=tz)
    rng = np.random.default_rng(case.get("seed", 0))
    obs = pd.Series(30 + rng.normal(0, 3, n), index=idx, name="observed")
    temp = pd.Series(55 + 20 * np.sin(np.arange(n) / 58.0), index=idx, name="temperature")
    for d in case.get("missing_meter", []):
        obs.iloc[d] = np.nan
    for d in case.get("missing_temp", []):
        temp.iloc[d] = np.nan
    if case.get("negative"):
        obs.iloc[5] = -4.0
        if case.get("negative_on_incomplete_row"):
            temp.iloc[5] = np.nan          # the only negative reading sits on a day without temperature
    if case.get("extreme"):
        obs.iloc[9] = 900.0
    return obs, temp


def expected(case, obs, temp):
    n = len(obs)
    exp = set()
    rep = case["reporting"]
    both = obs.notna() & temp.notna()
    # day counts: each timestamp's period up to the next timestamp; the final row has no period
    w = np.ones(n)
    w[-1] = 0
    first, last = both[both].index.min(), both[both].index.max()
    if pd.isna(first):
        return {P + "no_data"} | ({P + "incorrect_number_of_total_days"} if not rep else set()), True
    n_total = (last.tz_localize(None) - first.tz_localize(None)).days + 1        # calendar days on the data's own clock
    if not rep and (n_total > 365 or n_total < 329):
        exp.add(P + "incorrect_number_of_total_days")
    valid_t = temp.notna().values
    valid_m = obs.notna().values
    frac = lambda m: (m * w).sum() / n_total if n_total > 0 else 0  # noqa: E731
    if frac(valid_t & (valid_m if not rep else True)) < 0.9:
        exp.add(P + "too_many_days_with_missing_data")
    if not rep and frac(valid_m) < 0.9:
        exp.add(P + "too_many_days_with_missing_meter_data")
    if frac(valid_t) < 0.9:
        exp.add(P + "too_many_days_with_missing_temperature_data")
    by_month = temp.notna().groupby(temp.index.month).mean()
    if (by_month < 0.9).any():
        exp.add(P + "missing_monthly_temperature_data")
    if not rep and not case.get("electric", True) and (obs < 0).any():
        exp.add(P + "negative_meter_values")
    return exp, False


def replay(case):
    import opendsm.eemeter as em
    if case.get("kind") == "hourly":
        return hourly_case(case)
    if case.get("kind") == "all_blank_usage":
        di = pd.date_range("2022-01-01", periods=365, freq="D", tz="America/Chicago")
        try:
            d = em.DailyBaselineData(pd.DataFrame({"temperature": 55.0 + np.arange(365) % 30, "observed": np.nan}, index=di), is_electricity_data=True)
        except Exception as e:  # noqa
            return {"ok": False, "problems": [f"well-formed input rejected: {type(e).__name__}: {e}"]}
        dq = {w.qualified_name for w in d.disqualification}
        return {"ok": P + "no_data" in dq, "problems": [f"disqualifications {sorted(dq)}: no_data expected"]}
    if case.get("kind") == "offhour":
        # a complete year of daily readings stamped at `hour` local time, in one frame with hourly temperatures: nothing is missing, so no verdict
        tz = case.get("tz", "America/Chicago")
        hi = pd.date_range("2022-01-01", "2023-01-01", freq="h", tz=tz, inclusive="left")
        temp = pd.Series(55 + 20 * np.sin(np.arange(len(hi)) / 1400.0), index=hi, name="temperature")
        stamps = pd.DatetimeIndex([d + pd.Timedelta(hours=case["hour"]) for d in pd.date_range("2022-01-01", periods=365, freq="D", tz=tz)])
        obs = pd.Series(np.nan, index=hi, name="observed")
        obs.loc[stamps[stamps.isin(hi)]] = 30.0 + np.arange(int(stamps.isin(hi).sum())) % 7
        cls = em.DailyReportingData if case["reporting"] else em.DailyBaselineData
        try:
            d = cls(pd.concat([obs, temp], axis=1), is_electricity_data=True)
        except Exception as e:  # noqa
            return {"ok": False, "problems": [f"well-formed input rejected: {type(e).__name__}: {e}"]}
        got = {w.qualified_name for w in d.disqualification}
        bad = []
        if got:
            bad.append(f"a complete year (daily readings at {case['hour']:02d}:00, hourly temperature) is disqualified: {sorted(x.replace(P, '') for x in got)}")
        if abs(len(d.df) - 365) > 1:
            bad.append(f"{len(d.df)} rows in the data object for 365 days of readings")
        return {"ok": not bad, "problems": bad}
    obs, temp = build(case)
    cls = em.DailyReportingData if case["reporting"] else em.DailyBaselineData
    bad = []
    try:
        if case["entry"] == "frame":
            d = cls(pd.concat([obs, temp], axis=1), is_electricity_data=case.get("electric", True))
        else:
            d = cls.from_series(obs, temp, is_electricity_data=case.get("electric", True))
    except Exception as e:  # noqa
        return {"ok": False, "problems": [f"well-formed input rejected: {type(e).__name__}: {e}"]}
    got = {w.qualified_name for w in d.disqualification}
    if case["entry"] == "series":
        # from_series trims each series to its first / last valid reading and keeps the common span (documented behaviour of that entry point)
        lo = max(obs.first_valid_index(), temp.first_valid_index())
        hi = min(obs.last_valid_index(), temp.last_valid_index())
        obs, temp = obs.loc[lo:hi], temp.loc[lo:hi]
    exp, degenerate = expected(case, obs, temp)
    if not degenerate and got != exp:
        bad.append(f"disqualifications {sorted(x.replace(P, '') for x in got)} but the criteria give {sorted(x.replace(P, '') for x in exp)}")
    wn = {w.qualified_name for w in d.warnings}
    if case.get("extreme") and not case["reporting"]:
        if P + "extreme_values_detected" not in wn:
            bad.append("extreme value not reported as a warning")
        if any("extreme" in x for x in got):
            bad.append("extreme values changed the verdict")
    if str(obs.index.tz) == "UTC" and "eemeter.data_quality.utc_index" not in wn:
        bad.append("UTC index not reported as a warning")
    if any("utc_index" in x for x in got):
        bad.append("UTC index changed the verdict")
    return {"ok": not bad, "problems": bad}


def hourly_case(case):
    """Real HourlyBaselineData / HourlyReportingData on a 365-day hourly meter with one block of missing cells in one month."""
    import opendsm.eemeter as em
    tz = case.get("tz", "America/Chicago")
    idx = pd.date_range(case.get("start", "2022-01-01 00:00"), periods=case.get("hours", 8760), freq="h", tz=tz)
    n = len(idx)
    h = np.arange(n)
    rng = np.random.default_rng(3)
    df = pd.DataFrame({"temperature": 55 + 20 * np.sin(h / 24 / 58.0) + 6 * np.sin(h / 24 * 2 * np.pi),
                       "observed": 1.5 + 0.5 * np.sin(h / 24 * 2 * np.pi) + rng.uniform(0.0, 0.2, n)}, index=idx)
    if case.get("ghi"):
        df["ghi"] = np.clip(600 * np.sin((h % 24 - 6) / 12 * np.pi), 0, None) + 1.0
    for col, (a, k) in case.get("gaps", {}).items():
        df.iloc[a:a + k, df.columns.get_loc(col)] = np.nan
    if case.get("negative"):
        df.iloc[200, df.columns.get_loc("observed")] = -3.0
    if case.get("no_usage"):
        df = df.drop(columns=["observed"])          # usage is optional for reporting data
    rep = case["reporting"]
    cls = em.HourlyReportingData if rep else em.HourlyBaselineData
    try:
        d = cls(df, is_electricity_data=case.get("electric", True))
    except Exception as e:  # noqa
        return {"ok": False, "problems": [f"well-formed input rejected: {type(e).__name__}: {e}"]}
    got = {w.qualified_name for w in d.disqualification}
    # independent evaluation on the whole-local-day hourly grid
    first, last = idx[0].normalize(), idx[-1].normalize() + pd.Timedelta(days=1)
    grid = pd.date_range(first.tz_localize(None), last.tz_localize(None), freq="h", inclusive="left").tz_localize(tz, ambiguous="NaT", nonexistent="NaT")
    grid = pd.date_range(first, periods=int(round((last - first) / pd.Timedelta(hours=1))), freq="h")
    full = df.reindex(grid)
    if "observed" not in full.columns:
        full["observed"] = np.nan
    exp = set()
    both = full["temperature"].notna() & (full["observed"].notna() if not rep else True)
    n_total = (both[both].index.max() - both[both].index.min()).days + 1
    if not rep and (n_total > 365 or n_total < 329):
        exp.add(P + "incorrect_number_of_total_days")
    cov = lambda m: int(round(m.iloc[:-1].sum() / 24.0)) / n_total  # noqa: E731
    if cov(both) < 0.9:
        exp.add(P + "too_many_days_with_missing_data")
    if not rep and cov(full["observed"].notna()) < 0.9:
        exp.add(P + "too_many_days_with_missing_meter_data")
    if cov(full["temperature"].notna()) < 0.9:
        exp.add(P + "too_many_days_with_missing_temperature_data")
    month = full.index.month
    if (full["temperature"].notna().groupby(month).mean() < 0.9).any():
        exp.add(P + "missing_monthly_temperature_data")
    if not rep and (full["observed"].notna().groupby(month).mean() < 0.9).any():
        exp.add(P + "missing_monthly_meter_data")
    if case.get("ghi") and (full["ghi"].notna().groupby(month).mean() < 0.9).any():
        exp.add(P + "missing_monthly_ghi_data")
    if not rep and not case.get("electric", True) and (df["observed"] < 0).any():
        exp.add(P + "negative_meter_values")
    bad = []
    if got != exp:
        bad.append(f"disqualifications {sorted(x.replace(P, '') for x in got)} but the criteria give {sorted(x.replace(P, '') for x in exp)}")
    return {"ok": not bad, "problems": bad}


def hourly_cases(tier):
    cases = []
    apr = (31 + 28 + 31) * 24 + 5 * 24          # 6 April 00:00 local (April has 720 hours: the 90 % line is 72 missing hours)
    for rep in (False, True):
        cases.append({"kind": "hourly", "reporting": rep})
        cases.append({"kind": "hourly", "reporting": rep, "ghi": True})
        cases.append({"kind": "hourly", "reporting": rep, "start": "2022-01-01 06:00"})
        cases.append({"kind": "hourly", "reporting": rep, "hours": 8760 + 48})
        cases.append({"kind": "hourly", "reporting": rep, "hours": 328 * 24})
        cases.append({"kind": "hourly", "reporting": rep, "negative": True, "electric": False})
        if rep:
            cases.append({"kind": "hourly", "reporting": True, "no_usage": True})                                   # temperature-only reporting data
            cases.append({"kind": "hourly", "reporting": True, "gaps": {"observed": [24 * 100, 24 * 60]}})           # a 60-day usage gap does not matter for reporting
            cases.append({"kind": "hourly", "reporting": True, "no_usage": True, "gaps": {"temperature": [24 * 100, 24 * 50]}})
        for k in (71, 72, 73):
            for col in ("temperature", "observed", "ghi"):
                if rep and col == "observed":
                    continue
                cases.append({"kind": "hourly", "reporting": rep, "ghi": True, "gaps": {col: [apr, k]}})
            if tier == "thorough":
                cases.append({"kind": "hourly", "reporting": rep, "ghi": True, "gaps": {"temperature": [apr, k], "ghi": [apr + 300, k]}})
                cases.append({"kind": "hourly", "reporting": rep, "gaps": {"temperature": [apr, k]}, "tz": "Europe/Berlin"})
    return cases


def run(tier="quick", seed=0):
    b = Bounded("C10", "C10.boundary", MODULE,
                "real DailyBaselineData / DailyReportingData (frame and from_series) on synthetic daily meters: span in {328, 329, 330, 364, 365, 366, 367} "
                "days; with a 365-day span exactly {35, 36, 37} missing meter days, missing temperature days or both (the 90% line is 36.5); one "
                "calendar month with {2, 3, 4} missing temperature days (the monthly 90% line); negative usage for gas and electric; an extreme "
                "value; UTC index; placement of the gap {start, middle, end, scattered}. Independent evaluation of the published criteria. "
                "Incomplete rows at the outer edges of the frame "
                "(368/331/332/365 rows with 3 or 40 edge days lacking a reading). Real HourlyBaselineData / HourlyReportingData on 365-day hourly meters: "
                "complete, with irradiance, starting at 06:00, 367 and 328 days, negative gas usage, and one April block of {71, 72, 73} missing "
                "temperature / usage / irradiance hours (the monthly 90 % line is 72 of 720). distinct = case", known_findings=load_known("C10"))
    cases = []
    for rep in (False, True):
        for entry in ("frame", "series"):
            for n in (328, 329, 330, 364, 365, 366, 367):
                cases.append({"reporting": rep, "entry": entry, "n_days": n})
            for k in (35, 36, 37):
                for where in ("start", "middle", "end", "scattered"):
                    pos = {"start": list(range(1, k + 1)), "middle": list(range(150, 150 + k)), "end": list(range(364 - k, 364)),
                           "scattered": list(range(3, 3 + 9 * k, 9))}[where]
                    for kind in ("missing_meter", "missing_temp", "both"):
                        c = {"reporting": rep, "entry": entry, "n_days": 365}
                        if kind in ("missing_meter", "both"):
                            c["missing_meter"] = pos
                        if kind in ("missing_temp", "both"):
                            c["missing_temp"] = pos if kind == "missing_temp" else [p + 40 for p in pos if p + 40 < 364]
                        if tier == "quick" and where in ("middle",) and kind == "both":
                            continue
                        cases.append(c)
            for k in (2, 3, 4):
                cases.append({"reporting": rep, "entry": entry, "n_days": 365, "missing_temp": list(range(95, 95 + k))})  # April (30 days)
            cases.append({"reporting": rep, "entry": entry, "n_days": 365, "negative": True, "electric": False})
            cases.append({"reporting": rep, "entry": entry, "n_days": 365, "negative": True, "electric": True})
            cases.append({"reporting": rep, "entry": entry, "n_days": 365, "negative": True, "electric": False, "negative_on_incomplete_row": True})
            cases.append({"reporting": rep, "entry": entry, "n_days": 365, "extreme": True})
            cases.append({"reporting": rep, "entry": entry, "n_days": 365, "tz": "UTC"})
    if tier == "quick":
        cases = [c for i, c in enumerate(cases) if i % 2 == 0 or "negative" in c or "extreme" in c or c["n_days"] != 365]
    # span measured between the first and last row that carry BOTH readings: incomplete rows at the outer edges of the frame
    for rep in (False, True):
        for entry in ("frame", "series"):
            for n, k in ((368, 3), (331, 3), (332, 3), (365, 40)):
                for side in ("head", "tail", "both"):
                    lead = list(range(0, k)) if side in ("head", "both") else []
                    trail = list(range(n - k, n)) if side in ("tail", "both") else []
                    if side == "both" and k > 3:
                        continue
                    cases.append({"reporting": rep, "entry": entry, "n_days": n, "missing_meter": lead + trail})
                    if tier == "thorough":
                        cases.append({"reporting": rep, "entry": entry, "n_days": n, "missing_temp": lead + trail})
    # spans whose first day is in standard time and whose last day is in daylight-saving time (an hour short in elapsed time), and the reverse
    for start, n in (("2021-12-01", 328), ("2021-12-01", 329), ("2019-03-10", 365), ("2019-03-10", 366), ("2021-06-01", 329), ("2021-11-01", 366)):
        for entry in ("frame", "series"):
            cases.append({"reporting": False, "entry": entry, "n_days": n, "start": start})
    cases += hourly_cases(tier)
    for case in cases:
        try:
            r = hourly_case(case) if case.get("kind") == "hourly" else replay(case)
        except Exception as e:  # noqa
            import traceback
            r = {"ok": False, "problems": [f"harness exception {type(e).__name__}: {e}", traceback.format_exc()[-500:]]}
        b.case("C10.boundary", case, r["ok"], nontrivial_key=str(case), detail=r["problems"])
    # a baseline whose usage is entirely missing is accepted and reported as "no data"
    for rep in (False, True):
        for hour in (0, 9):
            c = {"kind": "offhour", "reporting": rep, "hour": hour}
            try:
                r = replay(c)
            except Exception as e:  # noqa
                r = {"ok": False, "problems": [f"harness exception {type(e).__name__}: {e}"]}
            b.case("C10.boundary", c, r["ok"], nontrivial_key=("offhour", rep, hour), detail=r["problems"])
    for entry in ("frame",):
        try:
            import opendsm.eemeter as em
            di = pd.date_range("2022-01-01", periods=365, freq="D", tz="America/Chicago")
            d = em.DailyBaselineData(pd.DataFrame({"temperature": 55.0 + np.arange(365) % 30, "observed": np.nan}, index=di), is_electricity_data=True)
            dq = {w.qualified_name for w in d.disqualification}
            b.case("C10.boundary", {"kind": "all_blank_usage", "entry": entry}, P + "no_data" in dq, nontrivial_key="all_blank_usage",
                   detail=f"disqualifications {sorted(dq)}: no_data expected")
        except Exception as e:  # noqa
            b.case("C10.boundary", {"kind": "all_blank_usage", "entry": entry}, False, nontrivial_key="all_blank_usage", detail=f"well-formed input rejected: {type(e).__name__}: {e}")
    # billing: an off-cycle read is reported as a warning, not as a disqualification (known finding when it disqualifies)
    try:
        import opendsm.eemeter as em
        idx = pd.DatetimeIndex(list(pd.date_range("2022-01-01", periods=7, freq="MS", tz="America/Chicago")[:4]) +
                               [pd.Timestamp("2022-04-10", tz="America/Chicago")] + list(pd.date_range("2022-05-01", periods=10, freq="MS", tz="America/Chicago")))
        bills = pd.Series(900.0, index=idx, name="observed")
        bills.iloc[-1] = np.nan
        t = pd.Series(55.0, index=pd.date_range("2021-12-25", "2023-03-05", freq="h", tz="America/Chicago"), name="temperature")
        d = em.BillingBaselineData.from_series(bills, t, is_electricity_data=True)
        dq = {w.qualified_name for w in d.disqualification}
        wn = {w.qualified_name for w in d.warnings}
        off = [x for x in dq if "offcycle" in x]
        b.case("C10.offcycle_is_warning", {"kind": "offcycle"}, not off, nontrivial_key="offcycle",
               detail=f"off-cycle read in disqualification {off}; warnings {sorted(wn)}", known_id="C10-offcycle-disqualifies")
    except Exception as e:  # noqa
        b.case("C10.offcycle_is_warning", {"kind": "offcycle"}, False, nontrivial_key="offcycle", detail=f"exception {type(e).__name__}: {e}")
    return b.result()
