"""Bounded part of C04: the gate observed on REAL data objects and REAL fits (the proof part treats _fit / _predict as opaque).
For each family (daily, billing, hourly) and each kind of baseline (qualified; too short; gaps; missing month; negative gas;
poor fit; two defects at once), with the override flag off and on, stored and not stored:
   fit     : returns a fitted model, or raises DataSufficiencyError exactly when the data carries a disqualification and
             ignore_disqualification is false;
   predict : raises DisqualifiedModelError exactly when the model carries a disqualification and the override is not given --
             also after to_json / from_json; an unfitted model, a foreign data type and another timezone raise instead of predicting."""
import logging
import warnings

import numpy as np
import pandas as pd

from bounded.common import Bounded, load_known

MODULE = "bounded.C04_gate"
logging.disable(logging.CRITICAL)
warnings.filterwarnings("ignore")
TZ = "America/Chicago"


def _daily_frame(case):
    rng = np.random.default_rng(case["seed"])
    n = case.get("n_days", 365)
    idx = pd.date_range("2022-01-01", periods=n, freq="D", tz=TZ)
    doy = idx.dayofyear.values
    T = 55 + 25 * np.sin((doy - 105) / 365 * 2 * np.pi) + rng.normal(0, 5, n)
    obs = 20 + 1.1 * np.maximum(50 - T, 0) + 0.8 * np.maximum(T - 68, 0)
    obs = obs * (1 + rng.normal(0, 0.06, n))
    if case.get("poor_fit"):
        obs = rng.lognormal(2.0, 1.5, n)                # usage unrelated to temperature with a heavy tail: CVRMSE well above 1
    if case.get("pilot_gas"):
        # a gas meter read at a resolution of one unit: weather-driven heating load in the cold months, a pilot-light load of 1 (2 on the odd day) in
        # June-September -- groups of days that are flat apart from isolated readings
        T = 55 - 25 * np.cos(2 * np.pi * (doy - 15) / 365) + rng.normal(0, 4, n)
        obs = np.clip(1.2 * np.clip(55 - T, 0, None) + rng.normal(0, 1, n), 0, None)
        pilot = np.where(rng.random(n) < 0.08, 2.0, 1.0)
        summer = np.isin(idx.month, [6, 7, 8, 9])
        obs[summer] = pilot[summer]
    df = pd.DataFrame({"temperature": T, "observed": obs}, index=idx)
    if case.get("gaps"):
        df.iloc[40:40 + case["gaps"], df.columns.get_loc("observed")] = np.nan
    if case.get("missing_month"):
        df.loc["2022-04-05":"2022-04-12", "temperature"] = np.nan
    if case.get("negative"):
        df.iloc[15, df.columns.get_loc("observed")] = -5.0
    return df


def _hourly_frame(case):
    rng = np.random.default_rng(case["seed"])
    n = case.get("n_days", 365) * 24
    idx = pd.date_range("2022-01-01", periods=n, freq="h", tz=TZ)
    h = np.arange(n)
    T = 55 + 25 * np.sin((h / 24 - 105) / 365 * 2 * np.pi) + 6 * np.sin(h / 24 * 2 * np.pi) + rng.normal(0, 2, n)
    obs = 1.0 + 0.05 * np.maximum(50 - T, 0) + 0.04 * np.maximum(T - 68, 0) + 0.3 * np.sin(h / 24 * 2 * np.pi) ** 2
    obs = obs * (1 + rng.normal(0, 0.08, n))
    if case.get("poor_fit"):
        obs = rng.lognormal(0.0, 1.6, n)
    df = pd.DataFrame({"temperature": T, "observed": obs}, index=idx)
    if case.get("gaps"):
        df.iloc[24 * 40:24 * (40 + case["gaps"]), df.columns.get_loc("observed")] = np.nan
    if case.get("missing_month"):
        df.loc["2022-04-05":"2022-04-12", "temperature"] = np.nan
    if case.get("negative"):
        df.iloc[15, df.columns.get_loc("observed")] = -5.0
    return df


def _objects(case):
    import opendsm.eemeter as em
    fam = case["family"]
    elec = not (case.get("negative") or case.get("pilot_gas"))
    if fam == "hourly":
        df = _hourly_frame(case)
        base = em.HourlyBaselineData(df, is_electricity_data=elec)
        rep = em.HourlyReportingData(df.iloc[: 24 * 40], is_electricity_data=elec)
        other_tz = [em.HourlyReportingData(df.iloc[: 24 * 40].tz_convert(z), is_electricity_data=elec) for z in ("Europe/Berlin", "America/Regina")]
        foreign = em.DailyReportingData(_daily_frame(dict(case, n_days=40)), is_electricity_data=True)
        return em.HourlyModel, base, rep, other_tz, foreign
    df = _daily_frame(case)
    if fam == "daily":
        base = em.DailyBaselineData(df, is_electricity_data=elec)
        rep = em.DailyReportingData(df.iloc[:60], is_electricity_data=elec)
        # America/Regina has the SAME UTC offset as the baseline's zone on the first reporting days (January) but is another zone
        other_tz = [em.DailyReportingData(df.iloc[:60].tz_convert(z), is_electricity_data=elec) for z in ("Europe/Berlin", "America/Regina")]
        # foreign data types: an hourly data object, and a BILLING data object (same private base class as the daily ones, same timezone)
        foreign = [em.HourlyReportingData(_hourly_frame(dict(case, n_days=20)), is_electricity_data=True),
                   em.BillingReportingData(df.iloc[:90], is_electricity_data=elec), em.BillingBaselineData(df, is_electricity_data=elec)]
        return em.DailyModel, base, rep, other_tz, foreign
    bills = df["observed"].resample("MS").sum(min_count=20)
    if case.get("poor_fit"):
        bills[:] = np.random.default_rng(case["seed"]).lognormal(6.0, 1.5, len(bills))     # bills unrelated to the weather, heavy tail
    bills = pd.concat([bills, pd.Series([np.nan], index=[bills.index[-1] + pd.offsets.MonthBegin(1)])]).rename("observed")
    temp = df["temperature"].resample("h").ffill().rename("temperature")
    base = em.BillingBaselineData.from_series(bills, temp, is_electricity_data=elec)
    rep = em.BillingReportingData.from_series(bills.iloc[:4], temp.loc[: bills.index[3]], is_electricity_data=elec)
    other_tz = [em.BillingReportingData.from_series(bills.iloc[:4].tz_convert(z), temp.tz_convert(z).loc[: bills.index[3]], is_electricity_data=elec)
                for z in ("Europe/Berlin", "America/Regina")]
    foreign = em.DailyReportingData(df.iloc[:60], is_electricity_data=elec)
    return em.BillingModel, base, rep, other_tz, foreign


def _raises(f):
    try:
        return None, f()
    except Exception as e:  # noqa
        return e, None


def replay(case):
    import opendsm.eemeter as em
    from opendsm.eemeter.common.exceptions import DataSufficiencyError, DisqualifiedModelError
    Model, base, rep, other_tz, foreign = _objects(case)
    bad = []
    kw = {"settings": {"seed": 1}} if case["family"] == "hourly" else {}
    data_dq = bool(base.disqualification)
    if case.get("expect_data_dq") is not None and data_dq != case["expect_data_dq"]:
        bad.append(f"harness expectation: data disqualified = {data_dq}, expected {case['expect_data_dq']} ({[w.qualified_name for w in base.disqualification]})")
    # unfitted model
    e, _ = _raises(lambda: Model(**kw).predict(rep))
    if e is None:
        bad.append("predict on an unfitted model returned instead of raising")
    # fit without override
    e, m = _raises(lambda: Model(**kw).fit(base))
    if data_dq:
        if not isinstance(e, DataSufficiencyError):
            bad.append(f"fit on disqualified data without override: expected DataSufficiencyError, got {type(e).__name__ if e else 'a model'}")
    elif e is not None:
        bad.append(f"fit on qualified data raised {type(e).__name__}: {e}")
    # fit with override
    e, m2 = _raises(lambda: Model(**kw).fit(base, ignore_disqualification=True))
    if e is not None:
        bad.append(f"fit with ignore_disqualification=True raised {type(e).__name__}: {e}")
        return {"ok": False, "problems": bad}
    fitted = [("fitted with override", m2)] + ([("fitted without override", m)] if m is not None else [])
    for flabel, model in fitted:
        for label, mm in ((flabel, model), (flabel + ", stored", Model.from_json(model.to_json()))):
            model_dq = bool(mm.disqualification)
            if label.endswith("stored") and model_dq != bool(model.disqualification):
                bad.append(f"{label}: the stored model carries disqualification = {model_dq}, the fitted one {bool(model.disqualification)}")
            if data_dq and not model_dq:
                bad.append(f"{label}: the model does not inherit the baseline's disqualification")
            if case.get("poor_fit") and not model_dq:
                bad.append(f"{label}: poor fit but no disqualification on the model")
            e, r = _raises(lambda: mm.predict(rep))
            if model_dq:
                if not isinstance(e, DisqualifiedModelError):
                    bad.append(f"{label}: predict on a disqualified model without override: expected DisqualifiedModelError, got {type(e).__name__ if e else 'a prediction'}")
            elif e is not None:
                bad.append(f"{label}: predict on a qualified model raised {type(e).__name__}: {e}")
            e, r = _raises(lambda: mm.predict(rep, ignore_disqualification=True))
            if e is not None:
                bad.append(f"{label}: predict with ignore_disqualification=True raised {type(e).__name__}: {e}")
            for other in other_tz:
                e, r = _raises(lambda: mm.predict(other, ignore_disqualification=True))
                if e is None:
                    bad.append(f"{label}: predict on reporting data in another timezone ({other.df.index.tz}) returned instead of raising")
            for fo in (foreign if isinstance(foreign, list) else [foreign]):
                e, r = _raises(lambda: mm.predict(fo, ignore_disqualification=True))
                if e is None:
                    bad.append(f"{label}: predict on a foreign data type ({type(fo).__name__}) returned instead of raising")
    return {"ok": not bad, "problems": bad}


def cases(tier, seed):
    kinds = [
        {"name": "qualified", "expect_data_dq": False},
        {"name": "short", "n_days": 200, "expect_data_dq": True},
        {"name": "gaps", "gaps": 60, "expect_data_dq": True},
        {"name": "missing_month", "missing_month": True, "expect_data_dq": True},
        {"name": "negative_gas", "negative": True, "expect_data_dq": True},
        {"name": "poor_fit", "poor_fit": True, "expect_data_dq": False},
        {"name": "short_and_gaps", "n_days": 250, "gaps": 60, "expect_data_dq": True},
    ]
    out = []
    k = 0
    for fam in ("daily", "billing", "hourly"):
        for kd in kinds:
            k += 1
            if tier == "quick" and (k + seed) % 3 != 0 and kd["name"] not in ("qualified", "poor_fit", "missing_month"):
                continue
            if fam == "billing" and kd["name"] in ("gaps", "short_and_gaps", "negative_gas"):
                continue        # a 60-day gap / one negative day in daily usage is not a defect of the monthly bills built from it
            out.append(dict(kd, family=fam, seed=int(100 * seed + k)))
    # far too short a baseline, fitted with the override: a model comes back (fewer days than the hourly model's usual number of day clusters)
    out.append({"name": "very_short", "n_days": 45, "expect_data_dq": True, "family": "hourly", "seed": int(100 * seed + 71)})
    out.append({"name": "very_short", "n_days": 45, "expect_data_dq": True, "family": "daily", "seed": int(100 * seed + 72)})
    for sd in (1, 3, 6, 7) if tier == "quick" else (1, 3, 5, 6, 7, 8, 11):
        out.append({"name": "pilot_gas", "pilot_gas": True, "expect_data_dq": False, "family": "daily", "seed": sd})
    return out


def run(tier="quick", seed=0):
    from concurrent.futures import ProcessPoolExecutor
    b = Bounded("C04", "C04.gate", MODULE,
                "real Daily / Billing / Hourly data objects and fits on synthetic 365-day meters: qualified, 200 days, 60 missing days, a month under 90 % temperature "
                "coverage, negative gas usage, usage unrelated to temperature (poor fit), two defects at once; fit and predict with the override off and on, each fitted model "
                "also after to_json/from_json; unfitted model, reporting data of another family, reporting data in Europe/Berlin and in America/Regina (same UTC offset "
                "as the baseline's zone on the first reporting day). distinct = case",
                known_findings=load_known("C04"))
    cs = cases(tier, seed)
    with ProcessPoolExecutor(max_workers=min(12, max(1, len(cs)))) as ex:
        futs = [ex.submit(replay, c) for c in cs]
        for c, f in zip(cs, futs):
            try:
                r = f.result()
            except Exception as e:  # noqa
                r = {"ok": False, "problems": [f"harness exception {type(e).__name__}: {e}"]}
            b.case("C04.gate." + c["family"], c, r["ok"], nontrivial_key=str(c), detail=r["problems"])
    return b.result()
