"""C16 -- reported fit statistics are the true statistics of the model predictions.

Every computed field of BaselineMetrics / ReportingMetrics is verified against the textbook formula over
ABSTRACT aggregates of the finite (observed, predicted, residual) rows (DESIGN §4 C16): the pandas aggregates
themselves (sum, var, median, quantile, autocorr, corr) are assumed contracts, exercised by the bounded
differential part bounded/C16_metrics.py on real data.
"""
from pyvc.api import *  # noqa

BM = repo("opendsm/common/metrics.py::BaselineMetrics")
RM = repo("opendsm/common/metrics.py::ReportingMetrics")
SAFE_DIVIDE = repo("opendsm/common/metrics.py::_safe_divide")
HM = repo("opendsm/eemeter/models/hourly/model.py::HourlyModel")

MIN_DEN = 0.001

# run-time failures (division by zero) that ARE a recorded finding: attributed by site
SAFETY_KNOWN = {
    "safety.div[opendsm/common/metrics.py::_safe_divide]": "C16-safe-divide",
    "safety.div[opendsm/common/metrics.py::ReportingMetrics.fsu]": "C16-fsu-zero-savings",
    "safety.div[opendsm/eemeter/models/daily/model.py::DailyModel._get_error_metrics]": "C16-daily-ratio-unguarded",
}


@harness("C16.safe_divide", prop="C16")
def safe_divide(num: Real, den: Real, min_den: Real):
    """A ratio whose denominator is not safely positive is reported as undefined, otherwise it is the ratio."""
    assume(min_den > 0)
    r = SAFE_DIVIDE(num, den, min_den)
    known = And(den <= min_den, num <= 10 * min_den)
    if r is None:
        check("C16.safe_divide.undefined_only_if_unsafe", den <= min_den)
    else:
        check("C16.safe_divide.defined_only_if_safe", den > min_den, finding="C16-safe-divide", unless=known)
        check("C16.safe_divide.value", implies(den != 0, r * den == num))


def ratio_ok(name, value, num, den):
    """value is `num/den` when den is safely positive and undefined (None) otherwise."""
    known = And(den <= MIN_DEN, num <= 10 * MIN_DEN)
    if value is None:
        check(name + ".undefined_only_if_unsafe", den <= MIN_DEN)
    else:
        check(name + ".defined_only_if_safe", den > MIN_DEN, finding="C16-safe-divide", unless=known)
        check(name + ".value", implies(den != 0, value * den == num))


@harness("C16.baseline", prop="C16")
def baseline(n: Int, p: Int):
    assume(And(n >= 2, p >= 1))
    df = agg_frame(n=n, label="df", columns=["observed", "predicted", "residuals"])
    bm = new_object(BM, _df=df, num_model_params=p, _min_denominator=MIN_DEN)
    res = df["residuals"]
    obs = df["observed"]
    sse = (res ** 2).sum()
    sae = res.abs().sum()
    mean_obs = obs.sum() / n
    q = repo("opendsm/common/metrics.py::np").quantile(obs, [0.25, 0.75])
    iqr = q[1] - q[0]
    check("C16.n", bm.n == n)
    check("C16.sse", bm.sse == sse)
    check("C16.mse", bm.mse * n == sse)
    check("C16.rmse", And(bm.rmse >= 0, bm.rmse * bm.rmse * n == sse))
    ddof = ite(n - p >= 1, n - p, 1)
    check("C16.ddof", bm.ddof == ddof)
    check("C16.rmse_adj", And(bm.rmse_adj >= 0, bm.rmse_adj * bm.rmse_adj * ddof == sse))
    rho = res.autocorr(lag=1)
    if is_nan(rho):
        nprime = 1
    else:
        nprime = n * (1 - rho) / (1 + rho)
    check("C16.n_prime", bm.n_prime == nprime)
    ddof_ac = ite(nprime - p >= 1, nprime - p, 1)
    check("C16.ddof_autocorr", bm.ddof_autocorr == ddof_ac)
    check("C16.rmse_autocorr_adj", And(bm.rmse_autocorr_adj >= 0, bm.rmse_autocorr_adj * bm.rmse_autocorr_adj * ddof_ac == sse))
    check("C16.observed.mean", bm.observed.mean == mean_obs)
    check("C16.observed.iqr", bm.observed.iqr == iqr)
    check("C16.mae", bm.mae * n == sae)
    check("C16.mbe", bm.mbe * n == res.sum())
    ratio_ok("C16.cvrmse", bm.cvrmse, bm.rmse, mean_obs)
    ratio_ok("C16.cvrmse_adj", bm.cvrmse_adj, bm.rmse_adj, mean_obs)
    ratio_ok("C16.cvrmse_autocorr_adj", bm.cvrmse_autocorr_adj, bm.rmse_autocorr_adj, mean_obs)
    ratio_ok("C16.pnrmse", bm.pnrmse, bm.rmse, iqr)
    ratio_ok("C16.pnrmse_adj", bm.pnrmse_adj, bm.rmse_adj, iqr)
    ratio_ok("C16.pnrmse_autocorr_adj", bm.pnrmse_autocorr_adj, bm.rmse_autocorr_adj, iqr)
    ratio_ok("C16.nmae", bm.nmae, bm.mae, mean_obs)
    ratio_ok("C16.nmbe", bm.nmbe, bm.mbe, mean_obs)
    ratio_ok("C16.pnmae", bm.pnmae, bm.mae, iqr)
    ratio_ok("C16.pnmbe", bm.pnmbe, bm.mbe, iqr)
    r = df[["predicted", "observed"]].corr().iloc[0, 1]
    check("C16.r_squared", bm.r_squared == r * r)
    r2a = bm.r_squared_adj
    num = (1 - r * r) * (n - 1)
    den = ddof - 1
    known = And(den <= MIN_DEN, num <= 10 * MIN_DEN)
    if r2a is None:
        check("C16.r_squared_adj.undefined_only_if_unsafe", den <= MIN_DEN)
    else:
        check("C16.r_squared_adj.defined_only_if_safe", den > MIN_DEN, finding="C16-safe-divide", unless=known)
        check("C16.r_squared_adj.value", implies(den != 0, (1 - r2a) * den == num))


FREQ_CASES = [{"freq": "hourly"}, {"freq": "daily"}, {"freq": "billing"}]


def ashrae_factor(freq, M):
    """ASHRAE Guideline 14 / the library's documented adjustment for the data frequency."""
    if freq == "hourly":
        return 1.26
    if freq == "daily":
        return (0 - 0.00024) * M * M + 0.03535 * M + 1.00286
    return (0 - 0.00022) * M * M + 0.03306 * M + 0.94054


@harness("C16.reporting", prop="C16", cases=FREQ_CASES)
def reporting(freq, m: Int, n: Real, n_prime: Real, ddof: Real, cv: Real, conf: Real):
    assume(And(m >= 1, n >= 2, n_prime >= 1, ddof >= 2, cv > 0, 0 < conf, conf < 1))
    df = agg_frame(n=m, label="rdf", columns=["observed", "predicted"])
    base = new_object(None, n=n, n_prime=n_prime, ddof=ddof, cvrmse_autocorr_adj=cv)
    rm = new_object(RM, _df=df, baseline_metrics=base, data_frequency=freq, confidence_level=conf, t_tail=2)
    so = df["observed"].sum()
    sp = df["predicted"].sum()
    check("C16.reporting.n", rm.n == m)
    check("C16.reporting.sums", And(rm.observed_sum == so, rm.predicted_sum == sp))
    check("C16.reporting.savings", rm.savings == sp - so)
    U = rm.total_savings_uncertainty
    t = rm.t_stat
    M = length(df.index.month.unique()) if freq != "hourly" else 0
    a = sqrt(n / (m * n_prime) * (1 + 2 / n_prime))
    check("C16.reporting.uncertainty", U == sp * (t * cv * a) * ashrae_factor(freq, M))
    check("C16.reporting.fsu", implies(sp - so != 0, rm.fsu * (sp - so) == U))
    check("C16.reporting.point_unc", rm.predicted_data_point_unc * sqrt(m) == U)


GATE_CASES = [{"cv_none": a, "pn_none": b} for a in [False, True] for b in [False, True]]


@harness("C16.gate.hourly", prop="C16", cases=GATE_CASES)
def gate_hourly(cv_none, pn_none, cv: Real, pn: Real, cv_thr: Real, pn_thr: Real):
    """A model is unacceptable exactly when it misses BOTH thresholds (an undefined metric misses its own)."""
    bmx = new_object(None, cvrmse_adj=None if cv_none else cv, pnrmse_adj=None if pn_none else pn)
    st = new_object(None, cvrmse_threshold=cv_thr, pnrmse_threshold=pn_thr)
    hm = new_object(HM, baseline_metrics=bmx, settings=st)
    ok = hm._model_fit_is_acceptable()
    cv_pass = False if cv_none else cv < cv_thr
    pn_pass = False if pn_none else pn < pn_thr
    accepted = True if ok else False
    check("C16.gate.hourly", iff(accepted, Or(cv_pass, pn_pass)))


# ----------------------------------------------------------------------------------------------------------------------------------
# which rows the statistics are computed on (row-wise model: one arbitrary row of an arbitrary input frame)

BM_DF = repo("opendsm/common/metrics.py::BaselineMetrics._df")
RM_DF = repo("opendsm/common/metrics.py::ReportingMetrics._df")
OPAQUE = {"opendsm/common/pydantic_utils.py::PydanticDf": "checked_frame"}

NUM = 0
NAN = 1


def checked_frame(df=None, column_types=None):
    # PydanticDf validates column names / dtypes and hands the same frame back (assumed; pydantic is in the trusted base)
    return new_object(None, df=df)


ROW_CASES = [{"which": "baseline"}, {"which": "reporting"}]


@harness("C16.rows", prop="C16", cases=ROW_CASES, permissive=True)
def finite_pairs(which):
    """the statistics are those of the FINITE observed / predicted pairs: a row enters exactly when both values are ordinary numbers (not NaN,
    not +-inf), with its values unchanged; the baseline residual of a row is observed - predicted; the caller's frame is not written"""
    src = row_frame(["observed", "predicted", "other"], label="input")
    ko = cell_kind(src, "observed")
    kp = cell_kind(src, "predicted")
    vo = cell_val(src, "observed")
    vp = cell_val(src, "predicted")
    both = And(ko == NUM, kp == NUM)
    if which == "baseline":
        m = new_object(BM, df=src, num_model_params=1)
        out = BM_DF(m)
    else:
        m = new_object(RM, reporting_df=src)
        out = RM_DF(m)
    check("C16.rows.finite_pairs_only." + which, out.mult == ite(both, src.mult, 0))
    check("C16.rows.values_kept." + which, implies(both, And(cell_kind(out, "observed") == NUM, cell_val(out, "observed") == vo,
                                                             cell_kind(out, "predicted") == NUM, cell_val(out, "predicted") == vp)))
    if which == "baseline":
        check("C16.rows.residual", implies(both, And(cell_kind(out, "residuals") == NUM, cell_val(out, "residuals") == vo - vp)))
    check("C16.rows.input_untouched." + which, Not(src.mutated))
    cover("C16.cover.rows.inf." + which, And(ko == 2, kp == NUM))
    cover("C16.cover.rows.kept." + which, both)


# ----------------------------------------------------------------------------------------------------------------------------------
# the statistics a daily / billing model reports (and gates on): DailyModel._get_error_metrics

DM = repo("opendsm/eemeter/models/daily/model.py::DailyModel")


@harness("C16.daily_error", prop="C16")
def daily_error(n: Int, wsse: Real):
    """RMSE / MAE are those of the residuals, CVRMSE is RMSE / mean(observed), PNRMSE is RMSE / (95th - 5th percentile of observed) -- the plain RMSE,
    not the weighted one the split search minimises"""
    assume(And(n >= 2, wsse >= 0))
    df = agg_frame(n=n, label="fit", columns=["resid", "obs"])
    comp = new_object(None, wSSE=wsse, N=n, resid=df["resid"], obs=df["obs"])
    m = new_object(DM, best_combination="fw-su_sh_wi", fit_components={"fw-su_sh_wi": comp})
    out = m._get_error_metrics("fw-su_sh_wi")
    wrmse = out[0]
    rmse = out[1]
    mae = out[2]
    cvrmse = out[3]
    pnrmse = out[4]
    sse = (df["resid"] ** 2).sum()
    mean_obs = df["obs"].sum() / n
    q = repo("opendsm/common/metrics.py::np").quantile(df["obs"], [0.05, 0.95])
    spread = q[1] - q[0]
    check("C16.daily_error.rmse", And(rmse >= 0, rmse * rmse * n == sse))
    check("C16.daily_error.wrmse", And(wrmse >= 0, wrmse * wrmse * n == wsse))
    check("C16.daily_error.mae", mae * n == df["resid"].abs().sum())
    check("C16.daily_error.cvrmse", implies(mean_obs != 0, cvrmse * mean_obs == rmse))
    check("C16.daily_error.pnrmse", implies(spread != 0, pnrmse * spread == rmse))
    # the function always answers with a number: right only where the denominator is safely positive (recorded finding elsewhere)
    check("C16.daily_error.cvrmse.defined_only_if_safe", mean_obs > 0, finding="C16-daily-ratio-unguarded", unless=mean_obs <= 0)
    check("C16.daily_error.pnrmse.defined_only_if_safe", spread > 0, finding="C16-daily-ratio-unguarded", unless=spread <= 0)
