#!/venv/bin/python
"""Run every seeded change through its property's check (scratch copy of /repo, never /repo itself) and record what caught it.

usage: tools/run_seeds.py [--tier quick|thorough] [--only Cnn[,Cmm]] [--jobs N]
Writes seeded/RESULTS.json and the field "verif_result" of every seeded/<id>/meta.json."""
import argparse
import json
import os
import re
import subprocess
import sys
import time
from concurrent.futures import ThreadPoolExecutor

VERIF = os.path.dirname(os.path.dirname(os.path.abspath(__file__)))


def run_one(name, tier):
    d = os.path.join(VERIF, "seeded", name)
    prop = name[:3]
    t0 = time.time()
    p = subprocess.run([os.path.join(VERIF, "tools", "try_patch.sh"), os.path.join(d, "patch.diff"), prop, "--tier", tier], capture_output=True, text=True, cwd=VERIF)
    out = p.stdout + p.stderr
    viol = re.findall(r"^VIOLATION property=\S+ replay=\S+ obligation=(\S+)( no-failing-input-found)?", out, flags=re.M)
    und = re.findall(r"^UNDECIDED property=\S+ obligation=(\S+)", out, flags=re.M)
    m = re.search(r"^exit=(\d+)", out, flags=re.M)
    code = int(m.group(1)) if m else None
    res = {"tier": tier, "exit": code, "detected": code == 1,
           "violated_obligations_with_input": sorted({o for o, nf in viol if not nf}),
           "violated_obligations_without_input": sorted({o for o, nf in viol if nf}),
           "undecided_obligations": sorted(set(und))[:8], "wall_s": round(time.time() - t0, 1),
           "ran": f"tools/try_patch.sh seeded/{name}/patch.diff {prop} --tier {tier} (scratch copy of /repo/opendsm with the patch applied; /repo untouched)"}
    mp = os.path.join(d, "meta.json")
    try:
        meta = json.load(open(mp))
    except Exception:  # noqa
        meta = {}
    meta["verif_result"] = res
    json.dump(meta, open(mp, "w"), indent=1)
    return name, res


def main():
    ap = argparse.ArgumentParser()
    ap.add_argument("--tier", default="quick")
    ap.add_argument("--only", default="")
    ap.add_argument("--jobs", type=int, default=3)
    ap.add_argument("--new", action="store_true", help="only the seeds that have no recorded result yet")
    a = ap.parse_args()
    names = sorted(n for n in os.listdir(os.path.join(VERIF, "seeded")) if os.path.isfile(os.path.join(VERIF, "seeded", n, "patch.diff")))
    if a.only:
        keep = set(a.only.split(","))
        names = [n for n in names if n[:3] in keep]
    results = {}
    rp = os.path.join(VERIF, "seeded", "RESULTS.json")
    if os.path.exists(rp):
        results = json.load(open(rp))
    if a.new:
        names = [n for n in names if n not in results]
    with ThreadPoolExecutor(max_workers=a.jobs) as ex:
        for name, res in ex.map(lambda n: run_one(n, a.tier), names):
            results[name] = res
            print(f"{name:50s} exit={res['exit']} with_input={res['violated_obligations_with_input'][:3]} without={res['violated_obligations_without_input'][:3]} "
                  f"undecided={len(res['undecided_obligations'])} {res['wall_s']}s", flush=True)
            json.dump(results, open(rp, "w"), indent=1, sort_keys=True)
    missed = [n for n in names if not results[n]["detected"]]
    print("missed:", missed)
    return 1 if missed else 0


if __name__ == "__main__":
    sys.exit(main())
