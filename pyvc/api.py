"""Sidecar API, native mode.

Sidecar contract files are ordinary Python modules.  The prover never *runs* them: it reads their
source and interprets it symbolically (pyvc.libmodels.API gives these names their symbolic meaning).
Running them natively -- this module -- is used for (a) the registry of harnesses, (b) replaying a
solver counterexample against the real code, (c) the engine-vs-CPython cross-check.
"""
from __future__ import annotations

import importlib
import math
import os
import sys

REPO = os.environ.get("VERIF_REPO", "/repo")

REGISTRY = {}      # module name -> list[Harness]
CONTRACTS = {}     # module name -> list[ContractDecl]


class AssumeFailed(Exception):
    pass


class Harness:
    def __init__(self, fn, id, prop, cases, opts):
        self.fn = fn
        self.id = id
        self.prop = prop
        self.cases = cases
        self.opts = opts
        self.module = fn.__module__
        self.name = fn.__name__


def harness(id, prop=None, cases=None, **opts):
    """Register a proof harness.  `cases` is a list of dicts of concrete keyword arguments (each case is
    explored separately); the remaining parameters are symbolic inputs typed by their annotation."""
    def deco(fn):
        REGISTRY.setdefault(fn.__module__, []).append(Harness(fn, id, prop or id.split(".")[0], cases or [{}], opts))
        return fn
    return deco


class _Spec:
    def __init__(self, kind, n=None):
        self.kind = kind
        self.n = n

    def __call__(self, n=None, **kw):
        return _Spec(self.kind, n)

    def __repr__(self):
        return self.kind + (f"({self.n})" if self.n is not None else "")


Real = _Spec("Real")
PosReal = _Spec("PosReal")
Int = _Spec("Int")
Nat = _Spec("Nat")
Bool = _Spec("Bool")
Vec = _Spec("Vec")
RealList = _Spec("RealList")
Str = _Spec("Str")
Opaque = _Spec("Opaque")
Seq = _Spec("Seq")

_native_checks = []


def native_results():
    return _native_checks


def reset_native():
    del _native_checks[:]


def assume(c):
    if not bool(c):
        raise AssumeFailed()


def check(name, c, finding=None, unless=None, kind="post", given=None):
    _native_checks.append({"name": name, "ok": bool(c), "finding": finding,
                           "in_known_class": (bool(unless) if unless is not None else None)})


def lemma(name, c, finding=None, unless=None):
    check(name, c, finding=finding, unless=unless)
    return bool(c)


def cover(label):
    pass


def at(v):
    import numpy as np
    a = np.asarray(v)
    return a.reshape(-1)[0].item() if a.size else None


def implies(a, b):
    return (not bool(a)) or bool(b)


def And(*a):
    return all(bool(x) for x in a)


def Or(*a):
    return any(bool(x) for x in a)


def Not(a):
    return not bool(a)


def ite(c, a, b):
    return a if bool(c) else b


def iff(a, b):
    return bool(a) == bool(b)


def length(v):
    return len(v)


def exp(x):
    return math.exp(x)


def sqrt(x):
    return math.sqrt(x)


class NativeOutcome:
    def __init__(self, kind, value=None, exc=None, bases=()):
        self.kind = kind
        self.value = value
        self.exc = exc
        self.bases = bases
        self.returned = kind == "return"
        self.raised = kind == "raise"

    def raises(self, name):
        return self.raised and (self.exc == name or name in self.bases)


def outcome(thunk, *args, **kwargs):
    try:
        return NativeOutcome("return", thunk(*args, **kwargs))
    except Exception as e:  # noqa
        return NativeOutcome("raise", None, type(e).__name__, tuple(c.__name__ for c in type(e).__mro__))


def repo(target):
    """'opendsm/x/y.py::A.b' -> the real object from the installed working tree."""
    relpath, _, qual = target.partition("::")
    modname = relpath[:-3].replace("/", ".")
    if modname.endswith(".__init__"):
        modname = modname[: -len(".__init__")]
    if REPO not in sys.path:
        sys.path.insert(0, REPO)
    obj = importlib.import_module(modname)
    for p in qual.split("."):
        obj = getattr(obj, p)
    return obj


def fresh_real(hint="r"):
    raise RuntimeError("fresh_real has no native meaning; use it only inside opaque effects")


fresh_int = fresh_bool = fresh_vec = fresh_str = fresh_real


class _NativeSeq(list):
    """Native stand-in for an arbitrary pre-existing list: the empty one (the replay then exercises what the call appends)."""
    def __init__(self, *a):
        super().__init__(*a)
        self._initial = list(self)


def fresh_seq(hint="seq"):
    return _NativeSeq()


class _NativeOpaque:
    def __init__(self, label):
        self._label = label

    def __repr__(self):
        return f"<opaque {self._label}>"


def opaque(label="opaque", **kw):
    return _NativeOpaque(label)


def new_object(cls=None, **kw):
    """An instance of `cls` whose constructor is NOT run; attributes are set directly."""
    obj = object.__new__(cls) if cls is not None else type("Obj", (), {})()
    for k, v in kw.items():
        object.__setattr__(obj, k, v)
    return obj


def mutated(v):
    if isinstance(v, _NativeSeq):
        return list(v) != v._initial
    raise RuntimeError("mutated() has no native meaning for this value")


def appended(v):
    if isinstance(v, _NativeSeq):
        return list(v)[len(v._initial):]
    raise RuntimeError("appended() has no native meaning for this value")


written = mutated


def is_same(a, b):
    return a is b


class ContractDecl:
    def __init__(self, target, cls):
        self.target = target
        self.cls = cls


def contract(target, **opts):
    """Declare a contract class for a repo function (requires / returns / ensures static methods)."""
    def deco(cls):
        cls._target = target
        cls._opts = opts
        CONTRACTS.setdefault(cls.__module__, []).append(ContractDecl(target, cls))
        return cls
    return deco


def agg_frame(n=None, label="df", columns=()):
    raise RuntimeError("agg_frame() has no native meaning (aggregate model); see the bounded differential part")


def is_nan(x):
    return x != x


def sorted_frame(n):
    raise RuntimeError("sorted_frame() has no native meaning (sorted-index model); see bounded/C20_windows.py")


timestamp = label_at = has_complete = sorted_frame


def row_frame(cols, label="input"):
    raise RuntimeError("row_frame() has no native meaning (row-wise model); see the bounded parts")


cell_kind = cell_val = has_column = depends_on = row_frame
cell_val_month = cell_val_dow = row_frame


def string(s):
    return s
renamed = path_depends_on = row_frame


def nan_value():
    return float("nan")
row_twin = row_frame
row_frame_drop = row_frame
fill_only_missing = column_has_present = row_frame
next_days = next_seconds = is_last_row = row_frame
wall_clock_seconds = labels_on_the_hour = label_seconds = index_min_seconds = index_max_seconds = index_is_empty = stamp = stamp_seconds = floor_days = row_frame
recognise = sum_log = round_log = agg_bool_log = on_grid = agg_func = agg_rule = agg_contrib = row_series = median_of = set_inferred_freq = series_kind = series_val = series_member = row_frame


def global_rng_draws():
    """native side: number of draws is not observable; replay compares results instead"""
    return 0
