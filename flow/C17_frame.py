"""Frame obligation of C17 on the real AST (re-read from /repo every run):
  C17.frame.interpolate_col : every store into the series `x` inside _interpolate_col has the form x.loc[K] = ... where K is only ever
                              assigned x.index[x.isna()] or a sub-selection K[...] of itself; x is never rebound, no in-place method is
                              called on it, and the function returns x on every path.  Hence _interpolate_col changes only cells that are
                              missing when they are written -- the contract the proof part assumes for it.
  C17.frame.helpers         : the helpers that receive x.values (autocorr_fcn, shift_array) never store into that parameter."""
import ast
import os
import time

REPO = os.environ.get("VERIF_REPO", "/repo")
REL = "opendsm/common/hourly_interpolation.py"
INPLACE = {"update", "fillna", "interpolate", "ffill", "bfill", "replace", "mask", "where", "clip", "drop", "dropna", "sort_values", "sort_index",
           "pop", "put", "fill", "itemset", "resize", "sort", "partition", "setfield", "__setitem__", "__iadd__", "iloc", "iat", "at"}


def _base_name(node):
    while isinstance(node, (ast.Attribute, ast.Subscript)):
        node = node.value
    return node.id if isinstance(node, ast.Name) else None


def _is_missing_index(node, x):
    """x.index[x.isna()] / x.index[x.isnull()] / x[x.isna()].index / x.loc[x.isna()].index"""
    src = ast.unparse(node).replace(" ", "")
    return src in {f"{x}.index[{x}.{m}()]" for m in ("isna", "isnull")} | {f"{x}[{x}.{m}()].index" for m in ("isna", "isnull")} | \
        {f"{x}.loc[{x}.{m}()].index" for m in ("isna", "isnull")}


def check_interpolate_col(fn):
    x = fn.args.args[0].arg
    problems = []
    # names that always denote a subset of the currently-missing labels
    assigns = {}
    for n in ast.walk(fn):
        if isinstance(n, ast.Assign):
            for t in n.targets:
                for nm in ([t] if isinstance(t, ast.Name) else [e for e in ast.walk(t) if isinstance(e, ast.Name) and isinstance(e.ctx, ast.Store)]):
                    assigns.setdefault(nm.id, []).append(n.value if isinstance(t, ast.Name) else None)
        elif isinstance(n, (ast.AugAssign, ast.AnnAssign)) and isinstance(n.target, ast.Name):
            assigns.setdefault(n.target.id, []).append(None)
        elif isinstance(n, (ast.For, ast.comprehension)):
            for e in ast.walk(n.target):
                if isinstance(e, ast.Name):
                    assigns.setdefault(e.id, []).append(None)
        elif isinstance(n, ast.NamedExpr):
            assigns.setdefault(n.target.id, []).append(None)

    def subset_name(name):
        vals = assigns.get(name)
        if not vals:
            return False
        for v in vals:
            if v is None:
                return False
            if _is_missing_index(v, x):
                continue
            if isinstance(v, ast.Subscript) and isinstance(v.value, ast.Name) and v.value.id == name:
                continue
            return False
        return True

    if x in assigns:
        problems.append(f"parameter {x} is rebound at line(s) {[getattr(v, 'lineno', '?') for v in assigns[x]]}")
    # the missing-label name must be recomputed from the CURRENT x between a store and the next store: require, inside every loop that
    # stores into x, an assignment K = x.index[x.isna()] earlier in the same loop body
    for n in ast.walk(fn):
        targets = []
        if isinstance(n, ast.Assign):
            targets = n.targets
        elif isinstance(n, ast.AugAssign):
            targets = [n.target]
        elif isinstance(n, ast.Delete):
            targets = n.targets
        for t in targets:
            for e in ([t] if not isinstance(t, (ast.Tuple, ast.List)) else t.elts):
                if isinstance(e, (ast.Subscript, ast.Attribute)) and _base_name(e) == x:
                    ok = isinstance(n, ast.Assign) and isinstance(e, ast.Subscript) and isinstance(e.value, ast.Attribute) and e.value.attr == "loc" and \
                        isinstance(e.value.value, ast.Name) and e.value.value.id == x and isinstance(e.slice, ast.Name) and subset_name(e.slice.id)
                    if not ok:
                        problems.append(f"line {n.lineno}: store into {x} is not {x}.loc[<missing labels>] = ...: {ast.unparse(n)[:90]}")
        if isinstance(n, ast.Call) and isinstance(n.func, ast.Attribute) and _base_name(n.func) == x:
            chain = ast.unparse(n.func)
            if n.func.attr in INPLACE and (any(k.arg == "inplace" for k in n.keywords) or n.func.attr in {"update", "pop", "put", "fill", "itemset", "resize", "sort",
                                                                                                       "partition", "setfield", "__setitem__"}):
                problems.append(f"line {n.lineno}: in-place call {chain}(...)")
    # between two stores the label name must be refreshed: each loop body containing a store must assign the name from x.index[x.isna()] before it
    for loop in [n for n in ast.walk(fn) if isinstance(n, (ast.For, ast.While))]:
        stores = [s for s in ast.walk(loop) if isinstance(s, ast.Assign) and any(isinstance(t, ast.Subscript) and _base_name(t) == x for t in s.targets)]
        for s in stores:
            key = s.targets[0].slice.id if isinstance(s.targets[0].slice, ast.Name) else None
            fresh = [a for a in ast.walk(loop) if isinstance(a, ast.Assign) and any(isinstance(t, ast.Name) and t.id == key for t in a.targets)
                     and _is_missing_index(a.value, x) and a.lineno < s.lineno]
            if key and not fresh:
                problems.append(f"line {s.lineno}: {key} is not recomputed from the current {x} inside the loop before the store")
    for n in ast.walk(fn):
        if isinstance(n, ast.Return):
            if not (isinstance(n.value, ast.Name) and n.value.id == x):
                problems.append(f"line {n.lineno}: returns {ast.unparse(n.value) if n.value else None}, not {x}")
    if not any(isinstance(n, ast.Return) for n in fn.body):
        problems.append("no top-level return: may fall off the end and return None")
    return problems


def check_helper(fn, tree):
    p = fn.args.args[0].arg
    problems = []
    for n in ast.walk(fn):
        targets = n.targets if isinstance(n, (ast.Assign, ast.Delete)) else [n.target] if isinstance(n, ast.AugAssign) else []
        for t in targets:
            for e in ([t] if not isinstance(t, (ast.Tuple, ast.List)) else t.elts):
                if isinstance(e, (ast.Subscript, ast.Attribute)) and _base_name(e) == p:
                    problems.append(f"{fn.name} line {n.lineno}: stores into its first parameter: {ast.unparse(n)[:80]}")
                if isinstance(n, ast.AugAssign) and isinstance(e, ast.Name) and e.id == p:
                    problems.append(f"{fn.name} line {n.lineno}: augmented assignment on its first parameter (in place for arrays)")
    return problems


def obligations():
    tree = ast.parse(open(os.path.join(REPO, REL)).read())
    fns = {f.name: f for f in tree.body if isinstance(f, ast.FunctionDef)}
    obs = []
    if "_interpolate_col" not in fns:
        return [{"name": "C17.frame.interpolate_col", "ok": None, "detail": "_interpolate_col not found"}]
    pr = check_interpolate_col(fns["_interpolate_col"])
    obs.append({"name": "C17.frame.interpolate_col", "ok": not pr, "detail": "; ".join(pr) or "every store is x.loc[<subset of x.index[x.isna()]>] = ...; returns x"})
    # helpers receiving x.values / x
    x = fns["_interpolate_col"].args.args[0].arg
    called = set()
    for n in ast.walk(fns["_interpolate_col"]):
        if isinstance(n, ast.Call) and isinstance(n.func, ast.Name) and n.func.id in fns:
            if any(_base_name(a) == x for a in n.args if isinstance(a, (ast.Attribute, ast.Name, ast.Subscript))):
                called.add(n.func.id)
    pr = []
    for h in sorted(called):
        pr += check_helper(fns[h], tree)
    obs.append({"name": "C17.frame.helpers", "ok": not pr, "detail": "; ".join(pr) or f"helpers {sorted(called)} never store into the array they are given"})
    return obs


def run(tier="quick", seed=0):
    t0 = time.time()
    verif = os.path.dirname(os.path.dirname(os.path.abspath(__file__)))
    obs = obligations()
    viol, und = [], []
    for o in obs:
        if o["ok"]:
            continue
        if o["ok"] is None:
            und.append({"obligation": o["name"], "reason": o["detail"]})
            continue
        path = os.path.join(verif, "replay", f"C17-{o['name']}.py")
        os.makedirs(os.path.dirname(path), exist_ok=True)
        with open(path, "w") as f:
            f.write(f'#!/venv/bin/python\n"""Frame obligation {o["name"]} failed (no failing input: structural obligation).\n{o["detail"]}\n"""\nprint({o["detail"]!r})\nimport sys; sys.exit(1)\n')
        viol.append({"obligation": o["name"], "replay": path, "reproduced": False, "detail": o["detail"]})
    return {"name": "C17.frame", "kind": "table", "n_obligations": len(obs), "n_discharged": sum(bool(o["ok"]) for o in obs),
            "obligations": {o["name"]: ("discharged" if o["ok"] else "failed") for o in obs}, "violations": viol, "known": [], "undecided": und,
            "details": {o["name"]: o["detail"] for o in obs}, "wall_s": round(time.time() - t0, 2)}
