#!/venv/bin/python
"""Flow obligation C02.df.copy.billing.BillingBaselineData.billing_df (engine B) failed; a static may-analysis gives no input.
returns ['fresh', 'self._billing_df'] (must be a new object on every path)
"""
print("returns ['fresh', 'self._billing_df'] (must be a new object on every path)")
import sys; sys.exit(1)
