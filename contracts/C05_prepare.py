"""C05 (proof part, data preparation) -- what the daily / billing data classes do to the caller's frame BEFORE any aggregation, on the row-wise
model: _DailyData._set_data blanks a usage reading of exactly zero for electricity -- and ONLY that cell: the row's temperature (which feeds the
day's mean temperature and hence the prediction) is handed on untouched, whatever the usage value is.  The aggregation steps that follow are
opaque here (they are C08 / C09); what they RECEIVE is observed through a ghost attribute."""
from pyvc.api import *  # noqa

DD = repo("opendsm/eemeter/models/daily/data.py::_DailyData")
OPAQUE = {"opendsm/eemeter/models/daily/data.py::_DailyData._compute_meter_value_df": "meter_effect",
          "opendsm/eemeter/models/daily/data.py::_DailyData._compute_temperature_features": "temperature_effect",
          "opendsm/eemeter/models/daily/data.py::_DailyData._merge_meter_temp": "merge_effect",
          "opendsm/eemeter/common/warnings.py::EEMeterWarning": None}

NUM = 0
NAN = 1


def meter_effect(self, df):
    self.ghost_meter_input = df
    return row_frame(["observed"], label="meter_daily")


def temperature_effect(self, df, meter_index):
    self.ghost_temperature_input = df
    return (opaque("temperature series"), opaque("coverage frame"))


def merge_effect(self, meter, temp):
    return opaque("final frame")


@harness("C05.daily_prepare", prop="C05", permissive=True, cases=[{"electric": True}, {"electric": False}])
def daily_prepare(electric):
    df = row_frame(["observed", "temperature"], label="input", multiplicity="any")
    ko = cell_kind(df, "observed")
    vo = cell_val(df, "observed")
    kt = cell_kind(df, "temperature")
    vt = cell_val(df, "temperature")
    obj = new_object(DD, warnings=fresh_seq("warnings"), disqualification=fresh_seq("disqualification"), is_electricity_data=electric, tz=None,
                     ghost_meter_input=None, ghost_temperature_input=None)
    obj._set_data(df)
    check("C05.daily_prepare.input_untouched", Not(df.mutated))
    seen_t = obj.ghost_temperature_input
    seen_m = obj.ghost_meter_input
    # the temperature the aggregation receives does not depend on the usage value of the row
    check("C05.daily_prepare.temperature_kept", implies(seen_t.mult > 0, And(cell_kind(seen_t, "temperature") == kt, implies(kt == NUM, cell_val(seen_t, "temperature") == vt))))
    check("C05.daily_prepare.rows_kept", implies(df.mult > 0, And(seen_t.mult == 1, seen_m.mult == 1)))
    zero = And(ko == NUM, vo == 0)
    if electric:
        check("C05.daily_prepare.zero_blanked", implies(And(zero, seen_m.mult > 0), cell_kind(seen_m, "observed") == NAN))
    check("C05.daily_prepare.usage_kept", implies(And(seen_m.mult > 0, Not(And(zero, electric))), And(cell_kind(seen_m, "observed") == ko, implies(ko == NUM, cell_val(seen_m, "observed") == vo))))
    cover("C05.cover.daily_prepare.zero", And(df.mult > 0, zero))


CTR = repo("opendsm/eemeter/models/hourly_caltrack/data.py::HourlyReportingData")
CTB = repo("opendsm/eemeter/models/hourly_caltrack/data.py::HourlyBaselineData")
OPAQUE["opendsm/eemeter/models/hourly_caltrack/data.py::HourlyReportingData._correct_frequency"] = "correct_frequency_effect"
OPAQUE["opendsm/eemeter/models/hourly_caltrack/data.py::HourlyBaselineData._check_data_sufficiency"] = None


def correct_frequency_effect(self, df):
    self.ghost_input = df
    return df


@harness("C05.caltrack_prepare", prop="C05", permissive=True, cases=[{"electric": e, "baseline": b} for e in [True, False] for b in [False, True]])
def caltrack_prepare(electric, baseline):
    """the CalTRACK hourly data classes: a zero electricity reading blanks that reading only; the row's temperature reaches the hourly roll-up untouched"""
    df = row_frame(["observed", "temperature"], label="input", multiplicity="any")
    ko = cell_kind(df, "observed")
    vo = cell_val(df, "observed")
    kt = cell_kind(df, "temperature")
    vt = cell_val(df, "temperature")
    if baseline:
        obj = CTB(df, electric)
    else:
        obj = CTR(df, electric)
    seen = obj.ghost_input
    check("C05.caltrack_prepare.input_untouched", Not(df.mutated))
    check("C05.caltrack_prepare.rows_kept", seen.mult == df.mult)
    check("C05.caltrack_prepare.temperature_kept", And(cell_kind(seen, "temperature") == kt, implies(kt == NUM, cell_val(seen, "temperature") == vt)))
    zero = And(ko == NUM, vo == 0)
    if electric:
        check("C05.caltrack_prepare.zero_blanked", implies(zero, cell_kind(seen, "observed") == NAN))
    check("C05.caltrack_prepare.usage_kept", implies(Not(And(zero, electric)), And(cell_kind(seen, "observed") == ko, implies(ko == NUM, cell_val(seen, "observed") == vo))))
