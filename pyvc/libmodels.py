"""Library models: the assumed contracts of DESIGN §3.6 plus the sidecar API in symbolic mode.

Every entry that is an *assumption about a dependency* registers a line in ASSUMED; the lines used
on a run are copied into the evidence file.
"""
from __future__ import annotations

import ast
import math
from fractions import Fraction

import z3

from .engine import EXP, LOG
from .values import (SArr, UNDEF, MaybeUnbound, PathDead, SBoundLib, SClass, SEnumMember, SExcClass, SFunc, SIdx,
                     SLib, SObj, SOpaque, SSel, SSeq, SStr, SVec, SymRaise, Undefined, Unsupported,
                     is_num, is_z3, to_fraction, to_real, to_z3)

ASSUMED = {}


def assumed(key, text):
    ASSUMED[key] = text


def use(interp, key):
    interp.run.assumptions.add(f"[{key}] {ASSUMED[key]}")


assumed("A1", "float arithmetic is real arithmetic (no rounding, overflow, NaN/inf unless a value is an explicit tagged cell)")
assumed("A2", "numba nopython/error_model='numpy' computes what CPython computes on the translated subset")
assumed("A3", "np.float64 scalars behave as float; no operator overloading surprises on the scalar types involved")
assumed("np.exp", "np.exp is the real exponential; only instances of: exp>0, exp(t)>=1+t, exp(0)=1, strict monotonicity, mean-value bounds (b-a)e^a <= e^b-e^a <= (b-a)e^b are used")
assumed("np.clip", "np.clip(x,lo,hi) = lo if x<lo else hi if x>hi else x for non-NaN x")
assumed("np.sqrt", "np.sqrt(x) for x>=0 is the unique s>=0 with s*s==x")
assumed("np.like", "np.ones_like/zeros_like/empty_like(v) have v's length; astype(float) is value-preserving; np.array(list) is that list")
assumed("np.argwhere", "np.argwhere(mask).flatten() is exactly the set of indices where mask holds; v[idx]=w[idx] writes those positions only")
assumed("np.abs", "abs/np.abs is the real absolute value; max/min/np.maximum/np.minimum are the real max/min")


class ApiFn:
    def __init__(self, name, fn):
        self.name = name
        self.fn = fn


API = {}
BUILTINS = {}
LIB = {}
METHODS = {}


def api(name):
    def deco(f):
        API[name] = ApiFn(name, f)
        return f
    return deco


HARMLESS_KW = {"dtype", "copy", "out", "file", "end", "sep", "flush", "order", "axis", "ddof", "keepdims", "subok"}


def _kw_guard(label, f):
    """a model that never looks at its keyword arguments must not silently ignore one that changes the result (enumerate(start=1), round(ndigits=2),
    max(default=...)): such a call is a construct the engine does not model -- undecided, never a wrong answer"""
    import inspect
    try:
        reads_kwargs = "kwargs" in inspect.getsource(f).split(":", 1)[1]
    except Exception:  # noqa
        reads_kwargs = True
    if reads_kwargs:
        return f

    def g(interp, args, kwargs, node, frame):
        extra = [k for k in kwargs if k not in HARMLESS_KW]
        if extra:
            raise Unsupported(f"keyword argument(s) {extra} of {label} are not modelled", node)
        return f(interp, args, kwargs, node, frame)
    g.__name__ = getattr(f, "__name__", "model")
    return g


def builtin(name):
    def deco(f):
        BUILTINS[name] = ApiFn(name, _kw_guard(name, f))
        return f
    return deco


def lib(*names):
    def deco(f):
        g = _kw_guard(names[0], f)
        for n in names:
            LIB[n] = g
        return f
    return deco


def method(tp, *names):
    def deco(f):
        for n in names:
            METHODS[(tp, n)] = f
        return f
    return deco


# ----------------------------------------------------------------------------- helpers

def ite(interp, c, a, b):
    if isinstance(c, bool):
        return a if c else b
    if isinstance(a, Undefined) or isinstance(b, Undefined):
        # unwritten element stays unwritten outside the mask: keep a guarded value
        if isinstance(b, Undefined):
            return _Guarded(c, a)
        raise Unsupported("conditional with undefined first branch")
    if isinstance(b, _Guarded):
        return _Guarded(z3.Or(c, b.cond), ite(interp, c, a, b.val))
    if is_z3(a) or is_z3(b) or is_num(a) or isinstance(a, bool):
        za, zb = to_z3(a), to_z3(b)
        if z3.is_int(za) and z3.is_real(zb):
            za = z3.ToReal(za)
        if z3.is_real(za) and z3.is_int(zb):
            zb = z3.ToReal(zb)
        return z3.If(c, za, zb)
    if a is b:
        return a
    raise Unsupported(f"cannot merge {type(a).__name__} and {type(b).__name__} under a symbolic condition")


class _Guarded:
    """value defined only where cond holds (partially written np.empty_like vector)"""

    def __init__(self, cond, val):
        self.cond = cond
        self.val = val


def zmax(a, b):
    if is_num(a) and is_num(b):
        return max(a, b)
    a, b = to_z3(a), to_z3(b)
    return z3.If(a >= b, a, b)


def zmin(a, b):
    if is_num(a) and is_num(b):
        return min(a, b)
    a, b = to_z3(a), to_z3(b)
    return z3.If(a <= b, a, b)


def zabs(a):
    if is_num(a):
        return abs(a)
    return z3.If(a >= 0, a, -a)


def sym_sqrt(interp, a, node=None, frame=None):
    if is_num(a):
        if a < 0:
            raise Unsupported("sqrt of a negative constant", node)
        r = math.isqrt(int(a)) if float(a).is_integer() else None
        if r is not None and r * r == a:
            return r
    use(interp, "np.sqrt")
    a = to_real(a)
    if frame is None or frame.module.is_repo:
        loc = frame.module.loc(node) if frame is not None and node is not None else ""
        interp.run.check(f"safety.sqrt_domain[{interp.where(frame)}]", a >= 0, kind="safety", loc=loc)
    # one symbol per distinct argument term
    key = ("sqrt", a.get_id())
    cache = interp.run.__dict__.setdefault("_sqrt_cache", {})
    if key not in cache:
        s = interp.run.fresh_real("sqrt")
        interp.run._add(z3.And(s >= 0, s * s == a))
        cache[key] = s
    return cache[key]


def lift_native_constant(v):
    import numpy as np
    if isinstance(v, (bool, int, str)) or v is None:
        return v
    if isinstance(v, (float, np.floating)):
        f = float(v)
        if f != f or f in (float("inf"), float("-inf")):
            return f
        return Fraction(f)  # exact binary value of the run-time constant
    if isinstance(v, np.integer):
        return int(v)
    if isinstance(v, (list, tuple)):
        return type(v)(lift_native_constant(x) for x in v)
    if isinstance(v, dict):
        return {lift_native_constant(k): lift_native_constant(x) for k, x in v.items()}
    import logging
    if isinstance(v, logging.Logger):
        from .values import SLogger
        return SLogger(v.name)
    raise Unsupported(f"module-level constant of type {type(v).__name__}")


def elemwise(v, f):
    if isinstance(v, SVec):
        if isinstance(v.elem, Undefined):
            raise Unsupported("read of an unwritten vector element")
        return SVec(f(v.elem), v.length)
    return f(v)


# ----------------------------------------------------------------------------- sidecar API (symbolic mode)

class ParamSpec:
    def __init__(self, kind, n=None, extra=None):
        self.kind = kind
        self.n = n
        self.extra = extra

    def sym_call(self, interp, args, kwargs, node, frame):  # RealList(7)
        return ParamSpec(self.kind, args[0] if args else None, kwargs)


for _k in ("Real", "Int", "Bool", "Vec", "RealList", "Str", "Opaque", "Seq", "IntVec", "Nat", "PosReal"):
    API[_k] = ParamSpec(_k)


def make_input(interp, name, spec):
    run = interp.run
    if not isinstance(spec, ParamSpec):
        raise Unsupported(f"harness parameter {name} has no pyvc type annotation")
    k = spec.kind
    if k == "Real":
        return run.input(name, z3.RealSort())
    if k == "PosReal":
        c = run.input(name, z3.RealSort())
        run._add(c > 0)
        return c
    if k == "Int":
        return run.input(name, z3.IntSort())
    if k == "Nat":
        c = run.input(name, z3.IntSort())
        run._add(c >= 0)
        return c
    if k == "Bool":
        return run.input(name, z3.BoolSort())
    if k == "Vec":
        ln = run.input(name + ".len", z3.IntSort())
        run._add(ln >= 1)
        return SVec(run.input(name + "[n]", z3.RealSort()), ln, label=name)
    if k == "RealList":
        return [run.input(f"{name}[{i}]", z3.RealSort()) for i in range(spec.n)]
    if k == "Str":
        return SStr(run.input(name, z3.StringSort()))
    if k == "Opaque":
        return SOpaque(name)
    if k == "Seq":
        ln = run.input(name + ".len", z3.IntSort())
        run._add(ln >= 0)
        return SSeq(ln, label=name)
    raise Unsupported(f"parameter kind {k}")


@api("assume")
def _assume(interp, args, kwargs, node, frame):
    c = interp.truth(args[0], node)
    interp.run.assume(c)


@api("check")
def _check(interp, args, kwargs, node, frame):
    name = args[0]
    c = interp.truth(args[1], node)
    finding = kwargs.get("finding")
    unless = kwargs.get("unless")
    if unless is not None:
        unless = interp.truth(unless, node)
    prefix = interp.config.get("ob_prefix", "")
    given = kwargs.get("given")
    if given is not None:
        facts = []
        for i, g in enumerate(given):
            g = interp.truth(g, node)
            if g is False:
                given = None  # a lemma that was not established: fall back to the full context
                break
            if g is True:
                continue
            # every given fact must itself hold on this path
            ob = interp.run.check(f"{prefix}{name}/given[{i}]", g, kind="post", loc=frame.module.loc(node))
            if ob.status != "discharged":
                given = None
                break
            facts.append(g)
        if given is not None:
            given = facts
            if unless is not None and finding is not None:
                pass
    interp.run.check(prefix + name, c, kind=kwargs.get("kind", "post"), loc=frame.module.loc(node),
                     finding=finding, unless=unless, given=given)


@api("lemma")
def _lemma(interp, args, kwargs, node, frame):
    """check(name, cond) and, once discharged on this path, use cond as a fact for later obligations."""
    name = args[0]
    c = interp.truth(args[1], node)
    finding = kwargs.get("finding")
    unless = kwargs.get("unless")
    if unless is not None:
        unless = interp.truth(unless, node)
    ob = interp.run.check(interp.config.get("ob_prefix", "") + name, c, kind="post", loc=frame.module.loc(node),
                          finding=finding, unless=unless)
    if ob.status == "discharged":
        fact = c if not ob.excluded else z3.Or(to_z3(unless), to_z3(c))
        if not isinstance(fact, bool):
            interp.run._add(fact)
        return fact
    return False


@api("cover")
def _cover(interp, args, kwargs, node, frame):
    interp.run.cover(args[0])


@api("at")
def _at(interp, args, kwargs, node, frame):
    v = args[0]
    if isinstance(v, SVec):
        e = v.elem
        if isinstance(e, Undefined):
            raise Unsupported("element of an unwritten vector", node)
        if isinstance(e, _Guarded):
            interp.run.check("safety.vector_fully_written", e.cond, kind="safety", loc=frame.module.loc(node))
            return e.val
        return e
    raise Unsupported("at() of a non-vector", node)


@api("implies")
def _implies(interp, args, kwargs, node, frame):
    a, b = interp.truth(args[0], node), interp.truth(args[1], node)
    if isinstance(a, bool):
        return b if a else True
    return z3.Implies(a, to_z3(b))


@api("And")
def _And(interp, args, kwargs, node, frame):
    ts = [interp.truth(a, node) for a in args]
    if any(t is False for t in ts):
        return False
    ts = [t for t in ts if t is not True]
    return z3.And(*ts) if ts else True


@api("Or")
def _Or(interp, args, kwargs, node, frame):
    ts = [interp.truth(a, node) for a in args]
    if any(t is True for t in ts):
        return True
    ts = [t for t in ts if t is not False]
    return z3.Or(*ts) if ts else False


@api("Not")
def _Not(interp, args, kwargs, node, frame):
    t = interp.truth(args[0], node)
    return (not t) if isinstance(t, bool) else z3.Not(t)


@api("ite")
def _ite(interp, args, kwargs, node, frame):
    return ite(interp, interp.truth(args[0], node), args[1], args[2])


@api("iff")
def _iff(interp, args, kwargs, node, frame):
    a, b = interp.truth(args[0], node), interp.truth(args[1], node)
    if isinstance(a, bool) and isinstance(b, bool):
        return a == b
    return to_z3(a) == to_z3(b)


@api("repo")
def _repo(interp, args, kwargs, node, frame):
    relpath, _, qual = args[0].partition("::")
    mod = interp.world.module(relpath)
    ent = mod.names.get(qual.split(".")[0])
    if ent is not None and ent[0] not in ("func", "class"):
        return interp.global_lookup(qual, mod, node)
    v = interp.world.resolve_target(args[0])
    if isinstance(v, SClass):
        return interp.make_class(v.module, v.node, v.qualname)
    return v


@api("fresh_real")
def _fresh_real(interp, args, kwargs, node, frame):
    return interp.run.fresh_real(args[0] if args else "r")


@api("fresh_int")
def _fresh_int(interp, args, kwargs, node, frame):
    return interp.run.fresh_int(args[0] if args else "i")


@api("fresh_bool")
def _fresh_bool(interp, args, kwargs, node, frame):
    return interp.run.fresh_bool(args[0] if args else "b")


@api("fresh_vec")
def _fresh_vec(interp, args, kwargs, node, frame):
    return SVec(interp.run.fresh_real(args[0] if args else "v"), interp.run.fresh_int("len"))


@api("fresh_seq")
def _fresh_seq(interp, args, kwargs, node, frame):
    ln = interp.run.fresh_int("len")
    interp.run._add(ln >= 0)
    return SSeq(ln, label=args[0] if args else "seq")


@api("fresh_str")
def _fresh_str(interp, args, kwargs, node, frame):
    return SStr(interp.run.fresh(z3.StringSort(), args[0] if args else "s"))


@api("opaque")
def _opaque(interp, args, kwargs, node, frame):
    return SOpaque(args[0] if args else "opaque", kwargs)


@api("new_object")
def _new_object(interp, args, kwargs, node, frame):
    cls = args[0] if args else None
    o = SObj(cls if isinstance(cls, SClass) else None, kwargs)
    o.ctor_bypassed = True        # built by a harness without running the class's constructor
    return o


class Outcome:
    """Result of `outcome(thunk)`: how the call ended on this path."""

    def __init__(self, kind, value=None, exc=None, bases=()):
        self.kind = kind
        self.value = value
        self.exc = exc
        self.bases = bases

    def sym_getattr(self, interp, name, node):
        if name == "returned":
            return self.kind == "return"
        if name == "raised":
            return self.kind == "raise"
        if name == "value":
            return self.value
        if name == "exc":
            return self.exc
        if name == "raises":
            return _OutcomeRaises(self)
        raise Unsupported(f"Outcome.{name}", node)


class _OutcomeRaises:
    def __init__(self, o):
        self.o = o

    def sym_call(self, interp, args, kwargs, node, frame):
        return self.o.kind == "raise" and (self.o.exc == args[0] or args[0] in self.o.bases)


@api("outcome")
def _outcome(interp, args, kwargs, node, frame):
    thunk = args[0]
    try:
        v = interp.call(thunk, list(args[1:]), kwargs, node, frame)
        return Outcome("return", v)
    except SymRaise as e:
        return Outcome("raise", None, e.exc_name.split(".")[-1], tuple(b.split(".")[-1] for b in e.bases))


@api("length")
def _length(interp, args, kwargs, node, frame):
    return BUILTINS["len"].fn(interp, args, kwargs, node, frame)


@api("exp")
def _api_exp(interp, args, kwargs, node, frame):
    return LIB["numpy.exp"](interp, args, kwargs, node, frame)


@api("sqrt")
def _api_sqrt(interp, args, kwargs, node, frame):
    return sym_sqrt(interp, args[0], node, frame)


@api("mutated")
def _mutated(interp, args, kwargs, node, frame):
    v = args[0]
    if isinstance(v, SSeq):
        return v.mutated
    if isinstance(v, (SObj, SOpaque)):
        return bool(v.written)
    raise Unsupported("mutated() of an untracked value", node)


@api("appended")
def _appended(interp, args, kwargs, node, frame):
    v = args[0]
    if isinstance(v, SSeq):
        return list(v.appended)
    raise Unsupported("appended() of a non-sequence", node)


@api("written")
def _written(interp, args, kwargs, node, frame):
    v = args[0]
    return sorted(v.written)


@api("is_nan")
def _is_nan(interp, args, kwargs, node, frame):
    return hasattr(args[0], "sym_isnan")


@api("is_same")
def _is_same(interp, args, kwargs, node, frame):
    return args[0] is args[1]


# ----------------------------------------------------------------------------- builtins

@builtin("len")
def _len(interp, args, kwargs, node, frame):
    v = args[0]
    if isinstance(v, (list, tuple, dict, str, set)):
        return len(v)
    if isinstance(v, SSeq):
        return v.length()
    if isinstance(v, SVec):
        if v.length is None:
            v.length = interp.run.fresh_int("len")
            interp.run._add(v.length >= 0)
        return v.length
    if hasattr(v, "sym_len"):
        return v.sym_len(interp, node)
    if isinstance(v, SOpaque):
        if "__len__" not in v.attrs:
            n = interp.run.fresh_int(f"len({v.label})")
            interp.run._add(n >= 0)
            v.attrs["__len__"] = n
        return v.attrs["__len__"]
    raise Unsupported(f"len of {type(v).__name__}", node)


def fabs_fork(interp, v):
    """|v| by case split (keeps verification conditions free of if-then-else terms)"""
    if is_num(v):
        return abs(v)
    if interp.run.branch(v >= 0):
        return v
    return -v


@builtin("abs")
def _abs(interp, args, kwargs, node, frame):
    use(interp, "np.abs")
    return elemwise(args[0], lambda v: fabs_fork(interp, v))


@builtin("max")
def _max(interp, args, kwargs, node, frame):
    vals = list(args[0]) if len(args) == 1 and isinstance(args[0], (list, tuple)) else list(args)
    if not vals:
        raise SymRaise("ValueError", "max of empty", node, ("ValueError", "Exception"))
    use(interp, "np.abs")
    out = vals[0]
    for v in vals[1:]:
        out = zmax(out, v)
    return out


@builtin("min")
def _min(interp, args, kwargs, node, frame):
    vals = list(args[0]) if len(args) == 1 and isinstance(args[0], (list, tuple)) else list(args)
    if not vals:
        raise SymRaise("ValueError", "min of empty", node, ("ValueError", "Exception"))
    use(interp, "np.abs")
    out = vals[0]
    for v in vals[1:]:
        out = zmin(out, v)
    return out


@builtin("range")
def _range(interp, args, kwargs, node, frame):
    if any(is_z3(a) for a in args):
        raise Unsupported("range with symbolic bound", node)
    return range(*args)


@builtin("enumerate")
def _enumerate(interp, args, kwargs, node, frame):
    from .interp import _MapIter
    v = args[0]
    if isinstance(v, SVec):
        return _MapIter(v, True)
    if isinstance(v, dict):
        v = list(v.keys())
    if isinstance(v, (list, tuple, range, str)):
        start = kwargs.get("start", args[1] if len(args) > 1 else 0)
        if not isinstance(start, int) or isinstance(start, bool):
            raise Unsupported("enumerate with a symbolic start", node)
        return list(enumerate(v, start))
    raise Unsupported(f"enumerate over {type(v).__name__}", node)


@builtin("zip")
def _zip(interp, args, kwargs, node, frame):
    seqs = []
    for v in args:
        if isinstance(v, dict):
            v = list(v.keys())
        if not isinstance(v, (list, tuple, range, str)):
            raise Unsupported(f"zip over {type(v).__name__}", node)
        seqs.append(v)
    return list(zip(*seqs))


@builtin("isinstance")
def _isinstance(interp, args, kwargs, node, frame):
    v, t = args
    ts = t if isinstance(t, (tuple, list)) else [t]
    for c in ts:
        r = _isinstance1(interp, v, c, node)
        if r is True:
            return True
        if r is not False:
            return r
    return False


def _isinstance1(interp, v, c, node):
    if isinstance(c, ApiFn) or isinstance(c, SLib):
        nm = c.name if isinstance(c, ApiFn) else c.dotted.split(".")[-1]
        if isinstance(v, SOpaque) and "isinstance" in v.attrs:
            return v.attrs["isinstance"](nm)
        if nm == "float":
            return isinstance(v, float) or (is_z3(v) and z3.is_real(v))
        if nm == "int":
            return (isinstance(v, int) and not isinstance(v, bool)) or (is_z3(v) and z3.is_int(v))
        if nm == "bool":
            return isinstance(v, bool) or (is_z3(v) and z3.is_bool(v))
        if nm == "str":
            return isinstance(v, (str, SStr))
        if nm == "list":
            return isinstance(v, (list, SSeq))
        if nm == "tuple":
            return isinstance(v, tuple)
        if nm == "dict":
            return isinstance(v, dict)
        if nm == "ndarray":
            return isinstance(v, SVec)
        if nm in ("Series", "DataFrame", "DatetimeIndex"):
            if hasattr(v, "pandas_kind"):
                return v.pandas_kind == nm
            if isinstance(v, SOpaque):
                raise Unsupported(f"isinstance({v!r}, {nm}) undetermined", node)
            return False
        if hasattr(v, "pandas_kind") or v is None or isinstance(v, (int, float, str, list, dict, tuple)):
            # a modelled pandas value (or a plain Python value) against another library type: decided by the model's own kind
            return getattr(v, "pandas_kind", None) == nm
        raise Unsupported(f"isinstance against library type {nm}", node)
    if isinstance(c, SClass):
        if isinstance(v, SObj) and v.cls is not None:
            return _subclass(interp, v.cls, c)
        if isinstance(v, SOpaque):
            tag = v.attrs.get("isinstance_of")
            if tag is not None:
                return tag(c)
            raise Unsupported(f"isinstance({v!r}, {c.qualname}) undetermined", node)
        return False
    raise Unsupported(f"isinstance against {c!r}", node)


def _subclass(interp, a, b):
    if a is b or (a.qualname == b.qualname and a.module.path == b.module.path):
        return True
    for base in interp.class_bases(a):
        if isinstance(base, SClass) and _subclass(interp, base, b):
            return True
    return False


@builtin("float")
def _float(interp, args, kwargs, node, frame):
    v = args[0]
    if is_z3(v):
        return to_real(v)
    if hasattr(v, "sym_isnan"):
        return v
    if isinstance(v, str):
        return float(v)
    if is_num(v) or isinstance(v, bool):
        return v if isinstance(v, Fraction) else float(v) if not isinstance(v, int) else v
    raise Unsupported(f"float() of {type(v).__name__}", node)


@builtin("int")
def _int(interp, args, kwargs, node, frame):
    v = args[0]
    if is_z3(v):
        if z3.is_int(v):
            return v
        raise Unsupported("int() of a symbolic real", node)
    if isinstance(v, (int, float, str, bool, Fraction)):
        return int(v)
    raise Unsupported(f"int() of {type(v).__name__}", node)


@builtin("bool")
def _bool(interp, args, kwargs, node, frame):
    return interp.truth(args[0], node)


@builtin("str")
def _str(interp, args, kwargs, node, frame):
    v = args[0]
    if isinstance(v, (str, int, bool)) or v is None:
        return str(v)
    if isinstance(v, SStr):
        return v
    if is_z3(v) and z3.is_int(v):
        return SStr(z3.IntToStr(v))
    if isinstance(v, SEnumMember):
        return v.value if v.cls.str_enum else f"{v.cls.qualname}.{v.name}"
    if isinstance(v, SOpaque):
        # str() of an opaque value: an uninterpreted string, stable per object
        if "__str__" not in v.attrs:
            v.attrs["__str__"] = SStr(interp.run.fresh(z3.StringSort(), f"str({v.label})"))
        return v.attrs["__str__"]
    raise Unsupported(f"str() of {type(v).__name__}", node)


@builtin("list")
def _list(interp, args, kwargs, node, frame):
    if not args:
        return []
    v = args[0]
    if isinstance(v, dict):
        return list(v.keys())
    if isinstance(v, (list, tuple, set, range, str, frozenset)):
        return list(v)
    if hasattr(v, "sym_list"):
        return v.sym_list(interp, node)
    if isinstance(v, SSeq):
        c = SSeq(v.base_len, label=f"copy({v.label})")
        c.appended = list(v.appended)
        c.copy_of = v
        return c
    raise Unsupported(f"list() of {type(v).__name__}", node)


@builtin("tuple")
def _tuple(interp, args, kwargs, node, frame):
    return tuple(_list(interp, args, kwargs, node, frame))


@builtin("set")
def _set(interp, args, kwargs, node, frame):
    try:
        return set(_list(interp, args, kwargs, node, frame))
    except TypeError:
        raise Unsupported("set of symbolic values", node)


@builtin("dict")
def _dict(interp, args, kwargs, node, frame):
    d = {}
    if args:
        src = args[0]
        if isinstance(src, dict):
            d.update(src)
        else:
            for k, v in src:
                d[k] = v
    d.update(kwargs)
    return d


@builtin("sorted")
def _sorted(interp, args, kwargs, node, frame):
    v = _list(interp, args[:1], {}, node, frame)
    if any(is_z3(x) for x in v):
        raise Unsupported("sorted() of symbolic values", node)
    key = kwargs.get("key")
    if key is not None:
        return sorted(v, key=lambda x: interp.call(key, [x], {}, node, frame), reverse=bool(kwargs.get("reverse", False)))
    return sorted(v, reverse=bool(kwargs.get("reverse", False)))


@builtin("sum")
def _sum(interp, args, kwargs, node, frame):
    v = args[0]
    if isinstance(v, (list, tuple)):
        out = args[1] if len(args) > 1 else 0
        for x in v:
            out = interp.binop(ast.Add(), out, x, node, frame)
        return out
    raise Unsupported(f"sum() of {type(v).__name__}", node)


@builtin("any")
def _any(interp, args, kwargs, node, frame):
    ts = [interp.truth(x, node) for x in args[0]]
    if any(t is True for t in ts):
        return True
    ts = [t for t in ts if t is not False]
    return z3.Or(*ts) if ts else False


@builtin("all")
def _all(interp, args, kwargs, node, frame):
    ts = [interp.truth(x, node) for x in args[0]]
    if any(t is False for t in ts):
        return False
    ts = [t for t in ts if t is not True]
    return z3.And(*ts) if ts else True


@builtin("getattr")
def _getattr(interp, args, kwargs, node, frame):
    obj, name = args[0], args[1]
    if not isinstance(name, str):
        raise Unsupported("getattr with symbolic name", node)
    try:
        return interp.get_attr(obj, name, node, frame)
    except SymRaise as e:
        if e.exc_name == "AttributeError" and len(args) > 2:
            return args[2]
        raise


@builtin("hasattr")
def _hasattr(interp, args, kwargs, node, frame):
    try:
        interp.get_attr(args[0], args[1], node, frame)
        return True
    except SymRaise as e:
        if e.exc_name == "AttributeError":
            return False
        raise


@builtin("print")
def _print(interp, args, kwargs, node, frame):
    return None


@builtin("round")
def _round(interp, args, kwargs, node, frame):
    if all(is_num(a) for a in args):
        return round(*args)
    if len(args) == 1 and is_z3(args[0]):
        # round() to an integer: some integer within one half (ties to even are not distinguished: either neighbour is allowed at a tie)
        x = to_real(args[0])
        r = interp.run.fresh_int("rounded")
        interp.run._add(z3.And(z3.ToReal(r) - x <= z3.RealVal("1/2"), x - z3.ToReal(r) <= z3.RealVal("1/2")))
        interp.run.__dict__.setdefault("round_log", []).append((r, x))
        return r
    raise Unsupported("round() of a symbolic value", node)


@builtin("type")
def _type(interp, args, kwargs, node, frame):
    v = args[0]
    if isinstance(v, SObj) and v.cls is not None:
        return v.cls
    raise Unsupported("type() of a non-object", node)


@builtin("id")
def _id(interp, args, kwargs, node, frame):
    raise Unsupported("id()", node)


for _nm in ("float", "int", "str", "bool", "list", "dict", "tuple", "set"):
    pass


# ----------------------------------------------------------------------------- numpy

def call_lib(interp, dotted, args, kwargs, node, frame):
    name = dotted
    if name.startswith("np."):
        name = "numpy." + name[3:]
    f = LIB.get(name)
    if f is None and interp.config.get("permissive"):
        interp.run.assumptions.add(f"[permissive] unmodelled library call {dotted}(...) treated as a pure function with an unknown result")
        return SOpaque(f"{dotted}(...)")
    if f is None:
        hook = interp.config.get("lib_hook")
        if hook is not None:
            r = hook(interp, name, args, kwargs, node, frame)
            if r is not NotImplemented:
                return r
        raise Unsupported(f"library function {dotted} has no model", node)
    return f(interp, args, kwargs, node, frame)


@lib("numpy.exp", "math.exp")
def _np_exp(interp, args, kwargs, node, frame):
    use(interp, "np.exp")

    def f(x):
        if is_num(x) and x == 0:
            return 1
        return EXP(to_real(x))
    return elemwise(args[0], f)


@lib("numpy.log", "math.log")
def _np_log(interp, args, kwargs, node, frame):
    def f(x):
        if is_num(x):
            return Fraction(math.log(x))
        raise Unsupported("log of a symbolic value", node)
    return elemwise(args[0], f)


@lib("numpy.sqrt", "math.sqrt")
def _np_sqrt(interp, args, kwargs, node, frame):
    return elemwise(args[0], lambda x: sym_sqrt(interp, x, node, frame))


@lib("numpy.clip")
def _np_clip(interp, args, kwargs, node, frame):
    use(interp, "np.clip")
    x, lo, hi = args[0], args[1], args[2]

    def f(v):
        v, l, h = to_real(v), to_real(lo), to_real(hi)
        return z3.If(v < l, l, z3.If(v > h, h, v))
    return elemwise(x, f)


@lib("numpy.abs", "numpy.absolute", "numpy.fabs")
def _np_abs(interp, args, kwargs, node, frame):
    use(interp, "np.abs")
    return elemwise(args[0], zabs)


@lib("numpy.maximum")
def _np_maximum(interp, args, kwargs, node, frame):
    use(interp, "np.abs")
    a, b = args
    if isinstance(a, SVec) or isinstance(b, SVec):
        ae = a.elem if isinstance(a, SVec) else a
        be = b.elem if isinstance(b, SVec) else b
        return SVec(zmax(ae, be))
    return zmax(a, b)


@lib("numpy.minimum")
def _np_minimum(interp, args, kwargs, node, frame):
    use(interp, "np.abs")
    a, b = args
    if isinstance(a, SVec) or isinstance(b, SVec):
        ae = a.elem if isinstance(a, SVec) else a
        be = b.elem if isinstance(b, SVec) else b
        return SVec(zmin(ae, be))
    return zmin(a, b)


@lib("numpy.array", "numpy.asarray")
def _np_array(interp, args, kwargs, node, frame):
    use(interp, "np.like")
    v = args[0]
    if isinstance(v, (list, tuple)):
        return SArr(v)
    if isinstance(v, SVec):
        return v
    if is_z3(v) or is_num(v):
        return v  # 0-d array
    raise Unsupported(f"np.array of {type(v).__name__}", node)


@lib("numpy.ones_like")
def _np_ones_like(interp, args, kwargs, node, frame):
    use(interp, "np.like")
    v = args[0]
    if isinstance(v, SVec):
        return SVec(1, _len(interp, [v], {}, node, frame))
    if isinstance(v, list):
        return SArr(1 for _ in v)
    raise Unsupported("ones_like of a non-vector", node)


@lib("numpy.zeros_like")
def _np_zeros_like(interp, args, kwargs, node, frame):
    use(interp, "np.like")
    v = args[0]
    if isinstance(v, SVec):
        return SVec(0, _len(interp, [v], {}, node, frame))
    if isinstance(v, list):
        return SArr(0 for _ in v)
    raise Unsupported("zeros_like of a non-vector", node)


@lib("numpy.empty_like")
def _np_empty_like(interp, args, kwargs, node, frame):
    use(interp, "np.like")
    v = args[0]
    if isinstance(v, SVec):
        return SVec(UNDEF, _len(interp, [v], {}, node, frame))
    raise Unsupported("empty_like of a non-vector", node)


@lib("numpy.argwhere")
def _np_argwhere(interp, args, kwargs, node, frame):
    use(interp, "np.argwhere")
    v = args[0]
    if isinstance(v, SVec):
        return SIdx(v)
    raise Unsupported("argwhere of a non-vector", node)


@lib("numpy.isnan")
def _np_isnan(interp, args, kwargs, node, frame):
    v = args[0]
    if is_z3(v) or is_num(v):
        return False  # A1: symbolic reals are never NaN
    if hasattr(v, "sym_isnan"):
        return v.sym_isnan(interp, node)
    raise Unsupported("isnan of a non-number", node)


@lib("numpy.isfinite")
def _np_isfinite(interp, args, kwargs, node, frame):
    v = args[0]
    if isinstance(v, float) and (v != v or v in (float("inf"), float("-inf"))):
        return False
    if is_z3(v) or is_num(v):
        return True
    if hasattr(v, "sym_isfinite"):
        return v.sym_isfinite(interp, node)
    raise Unsupported("isfinite of a non-number", node)


assumed("np.agg", "np.sum/np.mean/np.median/np.min/np.max of a vector are uninterpreted aggregates of that vector (fresh symbols); np.shape(v)[0] == len(v)")


@lib("numpy.shape")
def _np_shape(interp, args, kwargs, node, frame):
    use(interp, "np.agg")
    v = args[0]
    if isinstance(v, SVec):
        return (_len(interp, [v], {}, node, frame),)
    if isinstance(v, list):
        return (len(v),)
    raise Unsupported("np.shape of a non-vector", node)


def _np_agg_of(kind):
    def _np_agg(interp, args, kwargs, node, frame):
        use(interp, "np.agg")
        v = args[0]
        if isinstance(v, SVec):
            return interp.run.fresh_real("agg")
        if isinstance(v, (list, tuple)) and (kind == "sum" or (kind == "mean" and len(v) > 0)):
            out = 0
            for x in v:
                out = interp.binop(ast.Add(), out, x, node, frame)
            if kind == "mean":
                out = interp.binop(ast.Div(), out, len(v), node, frame)
            return out
        raise Unsupported(f"np.{kind} of this value", node)
    return _np_agg


for _k, _names in (("sum", ("numpy.sum", "numpy.nansum")), ("mean", ("numpy.mean", "numpy.nanmean")), ("median", ("numpy.median",))):
    for _n in _names:
        LIB[_n] = _np_agg_of(_k)


@lib("numpy.square")
def _np_square(interp, args, kwargs, node, frame):
    v = args[0]
    if isinstance(v, SVec):
        return SVec(interp.binop(ast.Mult(), v.elem, v.elem, node, frame), v.length)
    if isinstance(v, (list, tuple)):
        return SArr(interp.binop(ast.Mult(), x, x, node, frame) for x in v)
    return interp.binop(ast.Mult(), v, v, node, frame)


assumed("np.std", "np.std / np.var of a finite vector are finite and >= 0")
assumed("t.ppf", "scipy.stats.t.ppf(p, df) is finite for 0 < p < 1 and df > 0 (NaN otherwise), and >= 0 for p >= 1/2")


@lib("numpy.std", "numpy.var", "numpy.nanstd")
def _np_std(interp, args, kwargs, node, frame):
    use(interp, "np.std")
    v = args[0]
    if not isinstance(v, SVec):
        raise Unsupported("np.std of a non-vector", node)
    r = interp.run.fresh_real("std")
    interp.run._add(r >= 0)
    return r


@lib("scipy.stats.t.ppf")
def _t_ppf(interp, args, kwargs, node, frame):
    use(interp, "t.ppf")
    p, df = to_real(args[0]), to_real(args[1])
    loc = frame.module.loc(node)
    interp.run.check(f"safety.t_ppf_domain[{interp.where(frame)}]", z3.And(df > 0, p > 0, p < 1), kind="safety", loc=loc)
    r = interp.run.fresh_real("tq")
    interp.run._add(z3.Implies(p * 2 >= 1, r >= 0))
    return r


@lib("numpy.polyval")
def _np_polyval(interp, args, kwargs, node, frame):
    coefs, x = args
    out = 0
    for c in coefs:
        out = interp.binop(ast.Add(), interp.binop(ast.Mult(), out, x, node, frame), c, node, frame)
    return out


@lib("math.ceil", "math.floor", "numpy.ceil", "numpy.floor")
def _ceil_floor(interp, args, kwargs, node, frame):
    v = args[0]
    if is_num(v):
        f = to_fraction(v)
        name = "ceil" if "ceil" in ast.unparse(node.func) else "floor"
        return math.ceil(f) if name == "ceil" else math.floor(f)
    raise Unsupported("ceil/floor of a symbolic value", node)


@lib("numpy.float64", "numpy.float32")
def _np_float64(interp, args, kwargs, node, frame):
    return _float(interp, args, kwargs, node, frame)


@lib("copy.deepcopy", "copy.copy")
def _deepcopy(interp, args, kwargs, node, frame):
    v = args[0]
    if isinstance(v, (str, int, float, bool)) or v is None or is_z3(v):
        return v
    if isinstance(v, list):
        return [_deepcopy(interp, [x], {}, node, frame) for x in v]
    if isinstance(v, dict):
        return {k: _deepcopy(interp, [x], {}, node, frame) for k, x in v.items()}
    raise Unsupported(f"copy of {type(v).__name__}", node)


# ----------------------------------------------------------------------------- methods on values

def get_attr(interp, obj, name, node):
    if isinstance(obj, SOpaque):
        if name in obj.attrs:
            return obj.attrs[name]
        child = SOpaque(f"{obj.label}.{name}")
        obj.attrs[name] = child
        return child
    tp = _type_key(obj)
    if (tp, name) in METHODS or (type(obj).__name__, name) in METHODS:
        return SBoundLib(obj, name)
    if isinstance(obj, (bool, int, float)) or obj is None:
        raise SymRaise("AttributeError", f"{type(obj).__name__}.{name}", node, ("AttributeError", "Exception"))
    if isinstance(obj, SVec):
        if name == "T":
            return obj
        if name == "dtype":
            return "float"
        if name == "values":
            return obj
        if name in ("shape", "size", "ndim"):
            if obj.length is None:
                obj.length = interp.run.fresh_int("vector_length")
                interp.run._add(obj.length >= 0)
            return (obj.length,) if name == "shape" else (obj.length if name == "size" else 1)
    raise Unsupported(f"attribute '{name}' of {type(obj).__name__}", node)


def _type_key(obj):
    if isinstance(obj, SVec):
        return "vec"
    if isinstance(obj, SIdx):
        return "idx"
    if isinstance(obj, list):
        return "list"
    if isinstance(obj, dict):
        return "dict"
    if isinstance(obj, str):
        return "str"
    if isinstance(obj, SStr):
        return "sstr"
    if isinstance(obj, SSeq):
        return "seq"
    if isinstance(obj, tuple):
        return "tuple"
    if isinstance(obj, set):
        return "set"
    if isinstance(obj, SOpaque):
        return "opaque"
    if is_z3(obj) or is_num(obj):
        return "num"
    return type(obj).__name__


def call_method(interp, recv, name, args, kwargs, node, frame):
    f = METHODS.get((type(recv).__name__, name)) or METHODS.get((_type_key(recv), name))
    if f is None and interp.config.get("permissive"):
        return SOpaque(f"{name}(...)")
    if f is None:
        raise Unsupported(f"method {name} on {type(recv).__name__}", node)
    return f(interp, recv, args, kwargs, node, frame)


def get_item(interp, base, key, node):
    if isinstance(base, SOpaque):
        k = ("item", key if not is_z3(key) and not isinstance(key, (list, dict)) else str(key))
        if k not in base.attrs:
            base.attrs[k] = SOpaque(f"{base.label}[{key!r}]")
        return base.attrs[k]
    raise Unsupported(f"subscript of {type(base).__name__}", node)


def del_item(interp, base, key, node):
    raise Unsupported(f"del on {type(base).__name__}", node)


def OPAQUE_SETATTR(interp, obj, name, value, node):
    obj.attrs[name] = value
    obj.written.add(name)


@method("vec", "astype")
def _vec_astype(interp, recv, args, kwargs, node, frame):
    use(interp, "np.like")
    return recv


@method("vec", "copy")
def _vec_copy(interp, recv, args, kwargs, node, frame):
    return SVec(recv.elem, recv.length)


@method("idx", "flatten", "ravel")
def _idx_flatten(interp, recv, args, kwargs, node, frame):
    return recv


@method("vec", "flatten", "ravel")
def _vec_flatten(interp, recv, args, kwargs, node, frame):
    return recv


@method("list", "append")
def _list_append(interp, recv, args, kwargs, node, frame):
    recv.append(args[0])


@method("list", "extend")
def _list_extend(interp, recv, args, kwargs, node, frame):
    recv.extend(args[0])


@method("list", "index")
def _list_index(interp, recv, args, kwargs, node, frame):
    if is_z3(args[0]):
        raise Unsupported("list.index of a symbolic value", node)
    try:
        return recv.index(args[0])
    except ValueError:
        raise SymRaise("ValueError", node=node, bases=("ValueError", "Exception"))


@method("list", "count")
def _list_count(interp, recv, args, kwargs, node, frame):
    return recv.count(args[0])


@method("list", "copy")
def _list_copy(interp, recv, args, kwargs, node, frame):
    return list(recv)


@method("list", "remove")
def _list_remove(interp, recv, args, kwargs, node, frame):
    recv.remove(args[0])


@method("list", "tolist")
def _list_tolist(interp, recv, args, kwargs, node, frame):
    return list(recv)


@method("list", "astype")
def _list_astype(interp, recv, args, kwargs, node, frame):
    return recv


@method("list", "pop")
def _list_pop(interp, recv, args, kwargs, node, frame):
    return recv.pop(*args)


@method("seq", "append")
def _seq_append(interp, recv, args, kwargs, node, frame):
    recv.appended.append(args[0])
    recv.mutated = True


@method("seq", "extend")
def _seq_extend(interp, recv, args, kwargs, node, frame):
    v = args[0]
    if isinstance(v, list):
        recv.appended.extend(v)
        if v:
            recv.mutated = True
        return
    raise Unsupported("extend of a symbolic sequence by a symbolic sequence", node)


@method("dict", "get")
def _dict_get(interp, recv, args, kwargs, node, frame):
    k = args[0]
    if isinstance(k, SStr) or is_z3(k):
        # symbolic key over a concrete dict: if-then-else over the keys
        default = args[1] if len(args) > 1 else None
        out = default
        for kk, vv in reversed(list(recv.items())):
            if isinstance(k, SStr):
                if not isinstance(kk, str):
                    continue
                cond = k.expr == z3.StringVal(kk)
            else:
                if isinstance(kk, str):
                    continue
                cond = k == to_z3(kk)
            out = ite(interp, cond, vv, out)
        return out
    return recv.get(k, args[1] if len(args) > 1 else None)


@method("dict", "keys")
def _dict_keys(interp, recv, args, kwargs, node, frame):
    return list(recv.keys())


@method("dict", "values")
def _dict_values(interp, recv, args, kwargs, node, frame):
    return list(recv.values())


@method("dict", "items")
def _dict_items(interp, recv, args, kwargs, node, frame):
    return [(k, v) for k, v in recv.items()]


@method("dict", "update")
def _dict_update(interp, recv, args, kwargs, node, frame):
    if args:
        recv.update(args[0])
    recv.update(kwargs)


@method("dict", "copy")
def _dict_copy(interp, recv, args, kwargs, node, frame):
    return dict(recv)


@method("dict", "pop")
def _dict_pop(interp, recv, args, kwargs, node, frame):
    try:
        return recv.pop(*args)
    except KeyError:
        raise SymRaise("KeyError", node=node, bases=("KeyError", "LookupError", "Exception"))


METHODS[("num", "lower")] = lambda interp, recv, args, kwargs, node, frame: (_ for _ in ()).throw(SymRaise("AttributeError", "lower", node, ("AttributeError", "Exception")))
for _m in ("lower", "upper", "strip", "split", "replace", "startswith", "endswith", "join", "format", "lstrip", "rstrip", "title"):
    def _mk(m):
        def f(interp, recv, args, kwargs, node, frame):
            if any(is_z3(a) or isinstance(a, SStr) for a in args):
                raise Unsupported(f"str.{m} with symbolic argument", node)
            return getattr(recv, m)(*args, **kwargs)
        return f
    METHODS[("str", _m)] = _mk(_m)


_LOWER = z3.Function("str_lower", z3.StringSort(), z3.StringSort())


@method("sstr", "lower")
def _sstr_lower(interp, recv, args, kwargs, node, frame):
    # uninterpreted; the contract side uses the same function, so only congruence is relied upon
    interp.run.assumptions.add("[str.lower] str.lower on a symbolic string is an uninterpreted function of the string, fixed on the literals none/monthly/bimonthly and length-preserving")
    if not getattr(interp.run, "_lower_axioms", False):
        interp.run._lower_axioms = True
        for lit in ("none", "monthly", "bimonthly", ""):
            interp.run._add(_LOWER(z3.StringVal(lit)) == z3.StringVal(lit))
    interp.run._add(z3.Length(_LOWER(recv.expr)) == z3.Length(recv.expr))
    return SStr(_LOWER(recv.expr))


def seq_loop(interp, st, it, frame):
    """`for x in seq: out.append(f(x))` over a symbolic-length list (the list form of a map loop): the body is
    executed once on an arbitrary element; the only effect allowed is ONE append to a local list that was
    empty before the loop, which becomes a symbolic list of the same length.  A body without effects on lists
    (e.g. `w.warn()` on every element) is executed once for its exceptions only."""
    from .interp import _SeqIter
    seq = it.seq if isinstance(it, _SeqIter) else it
    if seq.appended:
        raise Unsupported("loop over a symbolic list that has concrete appended items", st)
    lists_before = {k: (v, len(v)) for k, v in frame.locals.items() if type(v) is list}
    seqs_before = {k: (v, len(v.appended)) for k, v in frame.locals.items() if isinstance(v, SSeq)}
    elem = SOpaque(f"element of {seq.label}")
    elem.attrs["__elem_of__"] = seq
    interp.assign(st.target, elem, frame)
    if not interp.run.branch(seq.length() > 0):
        interp.exec_block(st.orelse, frame)
        return
    from .engine import _Break, _Continue
    try:
        interp.exec_block(st.body, frame)
    except _Break:
        raise Unsupported("break in a loop over a symbolic list", st)
    except _Continue:
        # on this path the arbitrary element is SKIPPED: every local list that was empty before the loop may end
        # up with fewer elements than the input (filter-map); its length is only known to be in [0, n]
        for k, (v, n0) in lists_before.items():
            if n0 == 0:
                m = interp.run.fresh_int("filtered_len")
                interp.run._add(z3.And(m >= 0, m < seq.length()))
                frame.locals[k] = SSeq(m, label=f"filter({seq.label})")
        if st.orelse:
            interp.exec_block(st.orelse, frame)
        return
    grown = [(k, v, n0) for k, (v, n0) in lists_before.items() if len(v) != n0]
    for k, (v, n0) in seqs_before.items():
        if len(v.appended) != n0:
            raise Unsupported("append to a symbolic list inside a loop over a symbolic list", st)
    if len(grown) > 1 or any(n0 != 0 or len(v) != 1 for _, v, n0 in grown):
        raise Unsupported("loop over a symbolic list with effects other than one append to an empty local list", st)
    for k, v, n0 in grown:
        out = SSeq(seq.length(), label=f"map({seq.label})")
        out.template = v[0]
        frame.locals[k] = out
    if st.orelse:
        interp.exec_block(st.orelse, frame)


LIB_CONSTANTS = globals().get("LIB_CONSTANTS", {})
LIB_CONSTANTS.update({"numpy.inf": float("inf"), "numpy.nan": float("nan"), "numpy.pi": math.pi, "math.inf": float("inf"), "math.pi": math.pi})


assumed("np.random", "numpy.random.randint(lo, hi) returns some integer in [lo, hi) from the process-global generator; nothing else is known about it")


@lib("numpy.random.randint")
def _np_random_randint(interp, args, kwargs, node, frame):
    """a draw from the process-global generator: an unknown integer in range; the draw is recorded as ghost state"""
    use(interp, "np.random")
    lo = args[0] if len(args) > 1 else 0
    hi = args[1] if len(args) > 1 else args[0]
    v = interp.run.fresh_int("global_rng_draw")
    interp.run._add(z3.And(v >= to_z3(lo), v < to_z3(hi)))
    interp.run.__dict__["global_rng_draws"] = interp.run.__dict__.get("global_rng_draws", 0) + 1
    return v


@api("global_rng_draws")
def _global_rng_draws(interp, args, kwargs, node, frame):
    return interp.run.__dict__.get("global_rng_draws", 0)


assumed("os.environ", "os.environ.get(name, default) returns either the string '1' or the default: both are explored (the only environment read in scope is the verification guard)")


@lib("os.environ.get")
def _os_environ_get(interp, args, kwargs, node, frame):
    use(interp, "os.environ")
    name = args[0]
    default = args[1] if len(args) > 1 else kwargs.get("default")
    b = interp.run.fresh_bool(f"env_{name}_is_1")
    if interp.run.branch(b):
        return "1"
    return default


@method("set", "issubset")
def _set_issubset(interp, recv, args, kwargs, node, frame):
    return recv.issubset(set(args[0]))


@method("set", "issuperset")
def _set_issuperset(interp, recv, args, kwargs, node, frame):
    return recv.issuperset(set(args[0]))


@method("set", "union")
def _set_union(interp, recv, args, kwargs, node, frame):
    return recv.union(*[set(a) for a in args])


@method("set", "difference")
def _set_difference(interp, recv, args, kwargs, node, frame):
    return recv.difference(*[set(a) for a in args])


@lib("numpy.sort")
def _np_sort(interp, args, kwargs, node, frame):
    """np.sort(rows, axis=1) of a list of [a, b] pairs: every pair ordered (a fresh list; the argument is not modified)"""
    rows = args[0]
    axis = kwargs.get("axis", args[1] if len(args) > 1 else -1)
    if isinstance(rows, list) and all(isinstance(r, list) and len(r) == 2 for r in rows) and axis in (1, -1):
        out = []
        for r in rows:
            a, b = to_real(r[0]), to_real(r[1])
            out.append([z3.If(a <= b, a, b), z3.If(a <= b, b, a)])
        return out
    raise Unsupported("np.sort other than axis=1 of a list of pairs", node)
