"""C01 -- a stored model reproduces its counterfactual (proof part).

(a) C01.formula: for JSON parameters satisfying adm(shape) and EVERY real temperature (no range precondition),
    DailyModel._predict_submodel equals the documented piecewise heating/cooling formula evaluated from the
    JSON parameters alone (spec_curve.documented, written from the documentation).
(b) C01.coeffs.inverse: ModelCoefficients.to_np_array / from_np_arrays are inverse on admissible coefficients,
    and model_key agrees with the coefficient list.
The serialisation round trips themselves run through pydantic / json / pandas and are decided by the bounded
part bounded/C01_roundtrip.py on real fitted models of all four families.
"""
from pyvc.api import *  # noqa
from contracts.spec_curve import *  # noqa
from contracts.C11_curve import mk_submodel, CASES

USES = ["contracts.C11_curve"]

PS = repo("opendsm/eemeter/models/daily/model.py::DailyModel._predict_submodel")
MC = repo("opendsm/eemeter/models/daily/parameters.py::ModelCoefficients")
MT = repo("opendsm/eemeter/models/daily/parameters.py::ModelType")


@harness("C01.formula", prop="C01", cases=CASES)
def formula(shape, hdd_bp: Real, hdd_beta: Real, hdd_k: Real, cdd_bp: Real, cdd_beta: Real, cdd_k: Real,
            intercept: Real, T_min: Real, T_max: Real, T_min_seg: Real, T_max_seg: Real, f_unc: Real, T: Vec):
    assume(adm(shape, hdd_bp, hdd_beta, hdd_k, cdd_bp, cdd_beta, cdd_k, T_min, T_max, T_min_seg, T_max_seg))
    sub = mk_submodel(shape, hdd_bp, hdd_beta, hdd_k, cdd_bp, cdd_beta, cdd_k, intercept, T_min, T_max,
                      T_min_seg, T_max_seg, f_unc)
    r = PS(None, sub, T)
    known = Or(edge_corner(shape, hdd_bp, hdd_k, cdd_bp, cdd_k, T_min, T_max), edge_drop(shape, hdd_bp, cdd_bp, T_min, T_max))
    doc = documented(shape, hdd_bp, hdd_beta, hdd_k, cdd_bp, cdd_beta, cdd_k, intercept, at(T))
    check("C01.formula", at(r[0]) == doc, finding="C11-edge+C11-edge-drop", unless=known)
    check("C01.formula.unc", at(r[1]) == f_unc)


COEF_IDS = {
    "hdd_tidd_cdd_smooth": ["hdd_bp", "hdd_beta", "hdd_k", "cdd_bp", "cdd_beta", "cdd_k", "intercept"],
    "hdd_tidd_cdd": ["hdd_bp", "hdd_beta", "cdd_bp", "cdd_beta", "intercept"],
    "hdd_tidd_smooth": ["c_hdd_bp", "c_hdd_beta", "c_hdd_k", "intercept"],
    "tidd_cdd_smooth": ["c_hdd_bp", "c_hdd_beta", "c_hdd_k", "intercept"],
    "hdd_tidd": ["c_hdd_bp", "c_hdd_beta", "intercept"],
    "tidd_cdd": ["c_hdd_bp", "c_hdd_beta", "intercept"],
    "tidd": ["intercept"],
}
KEY_OF = {"hdd_tidd_cdd_smooth": "hdd_tidd_cdd_smooth", "hdd_tidd_cdd": "hdd_tidd_cdd", "hdd_tidd_smooth": "c_hdd_tidd_smooth",
          "tidd_cdd_smooth": "c_hdd_tidd_smooth", "hdd_tidd": "c_hdd_tidd", "tidd_cdd": "c_hdd_tidd", "tidd": "tidd"}


@harness("C01.coeffs.inverse", prop="C01", cases=CASES)
def coeffs_inverse(shape, hdd_bp: Real, hdd_beta: Real, hdd_k: Real, cdd_bp: Real, cdd_beta: Real, cdd_k: Real,
                   intercept: Real, T_min: Real, T_max: Real, T_min_seg: Real, T_max_seg: Real):
    assume(adm(shape, hdd_bp, hdd_beta, hdd_k, cdd_bp, cdd_beta, cdd_k, T_min, T_max, T_min_seg, T_max_seg))
    sub = mk_submodel(shape, hdd_bp, hdd_beta, hdd_k, cdd_bp, cdd_beta, cdd_k, intercept, T_min, T_max,
                      T_min_seg, T_max_seg, 0)
    c = sub.coefficients
    x = c.to_np_array()
    check("C01.coeffs.len", length(x) == len(COEF_IDS[shape]))
    check("C01.coeffs.model_key", c.model_key == KEY_OF[shape])
    c2 = MC.from_np_arrays(x, COEF_IDS[shape])
    check("C01.coeffs.type", c2.model_type == c.model_type)
    same = []
    for f in ["hdd_bp", "hdd_beta", "hdd_k", "cdd_bp", "cdd_beta", "cdd_k", "intercept"]:
        a = getattr(c, f)
        b = getattr(c2, f)
        if a is None or b is None:
            same.append(a is None and b is None)
        else:
            same.append(a == b)
    check("C01.coeffs.inverse", And(*same))
