"""Bounded differential part of C16: the real BaselineMetrics / ReportingMetrics on concrete frames (with NaN /
inf rows, zero-mean, zero-spread, negative usage) against independent numpy formulas.  This is the part that
exercises the assumed pandas aggregate contracts and the row filter `_df`; never counted as proved."""
import json
import math

import numpy as np
import pandas as pd

from bounded.common import Bounded, load_known

MODULE = "bounded.C16_metrics"


def _frame(rng, n, kind):
    obs = rng.normal(50, 10, n)
    if kind == "negative":
        obs = obs - 80
    if kind == "zero_mean":
        obs = obs - obs.mean()
    if kind == "flat":
        obs = np.full(n, 7.0)
    pred = obs + rng.normal(0, 3, n)
    if kind == "alternating":
        pred = obs + np.where(np.arange(n) % 2 == 0, 2.0, -2.0) + rng.normal(0, 0.1, n)
    obs = obs.copy()
    pred = pred.copy()
    k = max(1, n // 10)
    for arr, val in ((obs, np.nan), (pred, np.nan), (obs, np.inf), (pred, -np.inf)):
        idx = rng.choice(n, size=k, replace=False)
        arr[idx] = val
    both = rng.choice(n, size=k, replace=False)
    obs[both] = np.nan
    pred[both] = np.nan
    return obs.tolist(), pred.tolist()


def _close(a, b, tol=1e-9):
    if a is None or b is None:
        return a is None and b is None
    a, b = float(a), float(b)
    if math.isnan(a) or math.isnan(b):
        return math.isnan(a) and math.isnan(b)
    if math.isinf(a) or math.isinf(b):
        return a == b
    return abs(a - b) <= tol * max(1.0, abs(a), abs(b))


def reference(obs, pred, p):
    o = np.array(obs, float)
    q = np.array(pred, float)
    keep = np.isfinite(o) & np.isfinite(q)
    o, q = o[keep], q[keep]
    r = o - q
    n = len(o)
    out = {"n": n, "sse": float(np.sum(r ** 2)), "mae": float(np.mean(np.abs(r))), "mbe": float(np.mean(r))}
    out["mse"] = out["sse"] / n
    out["rmse"] = math.sqrt(out["mse"])
    ddof = max(n - p, 1)
    out["ddof"] = ddof
    out["rmse_adj"] = math.sqrt(out["sse"] / ddof)
    if n > 2 and np.std(r[1:]) > 0 and np.std(r[:-1]) > 0:
        rho = float(np.corrcoef(r[1:], r[:-1])[0, 1])
        npr = n * (1 - rho) / (1 + rho) if rho != -1 else float("inf")
    else:
        npr = float("nan")
    if not math.isfinite(npr):
        npr = 1
    out["n_prime"] = npr
    dac = max(npr - p, 1)
    out["ddof_autocorr"] = dac
    out["rmse_autocorr_adj"] = math.sqrt(out["sse"] / dac)
    out["observed_mean"] = float(np.mean(o))
    out["observed_sum"] = float(np.sum(o))
    out["predicted_sum"] = float(np.sum(q))
    return out


def replay(case):
    from opendsm.common.metrics import BaselineMetrics, ReportingMetrics
    obs, pred, p = case["observed"], case["predicted"], case["p"]
    idx = pd.date_range("2021-01-01", periods=len(obs), freq="D", tz="UTC")
    df = pd.DataFrame({"observed": obs, "predicted": pred}, index=idx)
    bm = BaselineMetrics(df=df, num_model_params=p)
    ref = reference(obs, pred, p)
    bad = {}
    for k in ("n", "sse", "mse", "rmse", "ddof", "rmse_adj", "n_prime", "ddof_autocorr", "rmse_autocorr_adj", "mae", "mbe"):
        if not _close(getattr(bm, k), ref[k], 1e-7):
            bad[k] = (float(getattr(bm, k)), ref[k])
    if not _close(bm.observed.mean, ref["observed_mean"], 1e-9):
        bad["observed.mean"] = (float(bm.observed.mean), ref["observed_mean"])
    rm = ReportingMetrics(baseline_metrics=bm, reporting_df=df, data_frequency="daily")
    for k in ("n", "observed_sum", "predicted_sum"):
        if not _close(getattr(rm, k), ref[k], 1e-9):
            bad["reporting." + k] = (float(getattr(rm, k)), ref[k])
    if not _close(rm.savings, ref["predicted_sum"] - ref["observed_sum"], 1e-9):
        bad["reporting.savings"] = (float(rm.savings), ref["predicted_sum"] - ref["observed_sum"])
    # inputs are never modified
    if not df["observed"].equals(pd.Series(obs, index=idx, dtype=float)):
        bad["input_modified"] = True
    return {"ok": not bad, "mismatches": {k: str(v) for k, v in bad.items()}}


def run(tier="quick", seed=0):
    b = Bounded("C16", "C16.differential", MODULE,
                "random frames of length 2..400 in 6 kinds (normal, negative, zero_mean, flat, alternating residuals, short) "
                "with NaN / +-inf injected in either or both columns; real BaselineMetrics/ReportingMetrics vs independent numpy "
                "formulas (tolerance 1e-7 relative); distinct = distinct (kind, n, p)", known_findings=load_known("C16"))
    rng = np.random.default_rng(1000 + seed)
    kinds = ["normal", "negative", "zero_mean", "flat", "alternating", "short"]
    N = 60 if tier == "quick" else 1500
    for i in range(N):
        kind = kinds[i % len(kinds)]
        n = int(rng.integers(12, 400)) if kind != "short" else int(rng.integers(12, 16))
        p = int(rng.integers(1, 12))
        obs, pred = _frame(rng, n, kind)
        case = {"observed": obs, "predicted": pred, "p": p, "kind": kind}
        try:
            res = replay(case)
        except Exception as e:  # noqa
            res = {"ok": False, "mismatches": {"exception": f"{type(e).__name__}: {e}"}}
        b.case("C16.differential", case, res["ok"], nontrivial_key=(kind, n, p), detail=res.get("mismatches"))
    return b.result()
