#!/venv/bin/python
"""Regenerate the generated tables of DESIGN.md (between <!-- BEGIN GENERATED:<name> --> / <!-- END GENERATED:<name> --> markers) from
checks_registry.py, known_findings.json, seeded/*/meta.json, seeded/RESULTS.json and evidence/*.json."""
import json
import os
import re
import sys

VERIF = os.path.dirname(os.path.dirname(os.path.abspath(__file__)))
sys.path.insert(0, VERIF)


def t_checks():
    import checks_registry as R
    rows = ["| id | level | deciding technique | proof modules | flow / table and bounded parts (bounded never counted as proved) | quick obligations (last run) |",
            "|----|-------|--------------------|---------------|--------------------------------------------------------------------|------------------------------|"]
    for c in sorted(R.CHECKS, key=lambda c: c["id"]):
        ev = {}
        p = os.path.join(VERIF, "evidence", c["id"] + ".json")
        if os.path.exists(p):
            ev = json.load(open(p))
        cov = ev.get("coverage", {})
        n = cov.get("obligations_discharged", cov.get("discharged"))
        tot = cov.get("obligations_total", cov.get("obligations"))
        rows.append(f"| {c['id']} | {c['level']} | {c['technique']} | {', '.join(c['modules']) or '—'} | {', '.join(c.get('bounded', [])) or '—'} | "
                    f"{n if n is not None else '?'} / {tot if tot is not None else '?'} |")
    rows.append("")
    for na in R.NOT_APPLICABLE:
        rows.append(f"Not applicable: **{na['property_id']}** — {na['reason']}")
    return "\n".join(rows)


def t_findings():
    d = json.load(open(os.path.join(VERIF, "known_findings.json")))
    rows = ["| id | property | what fails (specific input / call site) | why recorded rather than repaired |", "|----|----------|------------------------------------------|-----------------------------------|"]
    for f in d["findings"]:
        prop = f["property"] + (" (+" + ",".join(f["also"]) + ")" if f.get("also") else "")
        rows.append(f"| {f['id']} | {prop} | {f['what']} | {f.get('why_not_fixed', '')} |")
    rows += ["", "Repaired (`fix:` commits in /repo, one defect each; a fixed entry suppresses nothing):", ""]
    for x in d["fixed"]:
        m = re.match(r"fixed: property=(\S+) (\S+) (.*)", x)
        rows.append(f"- `{m.group(2)}` ({m.group(1)}) {m.group(3)}")
    return "\n".join(rows)


def t_seeds():
    rp = os.path.join(VERIF, "seeded", "RESULTS.json")
    res = json.load(open(rp)) if os.path.exists(rp) else {}
    rows = ["| seeded change | what it breaks / what it needs to manifest | caught by (obligation; *input* = failing input replayed on the real code, *no input* = obligation failed without one) |",
            "|---------------|--------------------------------------------|------------------------------------------------------------------------------------------------------------------------|"]
    for name in sorted(os.listdir(os.path.join(VERIF, "seeded"))):
        mp = os.path.join(VERIF, "seeded", name, "meta.json")
        if not os.path.exists(mp):
            continue
        meta = json.load(open(mp))
        needs = meta.get("needs_to_manifest") or meta.get("needs") or meta.get("what_it_needs_to_manifest") or meta.get("manifest") or ""
        if isinstance(needs, (list, dict)):
            needs = json.dumps(needs)
        what = meta.get("title") or meta.get("summary") or meta.get("what") or meta.get("what_it_breaks") or meta.get("description") or meta.get("change") or ""
        if isinstance(what, (list, dict)):
            what = json.dumps(what)
        r = res.get(name) or meta.get("verif_result") or {}
        caught = []
        for o in r.get("violated_obligations_with_input", []):
            caught.append(f"`{o}` (input)")
        for o in r.get("violated_obligations_without_input", []):
            caught.append(f"`{o}` (no input)")
        if not caught:
            caught = ["**not detected**" if r else "not run"]
            if r.get("undecided_obligations"):
                caught.append("undecided: " + ", ".join(f"`{o}`" for o in r["undecided_obligations"][:3]))
        txt = (str(what)[:220] + (" — needs: " + str(needs)[:200] if needs else "")).replace("|", "/").replace("\n", " ")
        rows.append(f"| {name} | {txt} | {'; '.join(caught[:5])} |")
    return "\n".join(rows)


GEN = {"checks": t_checks, "findings": t_findings, "seeds": t_seeds}


def t_neutral():
    rp = os.path.join(VERIF, "neutral", "RESULTS.json")
    res = json.load(open(rp)) if os.path.exists(rp) else {}
    cp = os.path.join(VERIF, "neutral", "CROSS.json")
    cross = json.load(open(cp)) if os.path.exists(cp) else {}
    rows = ["| behaviour-preserving change | kind / what it edits | its property's check (quick tier) | other checks run on it |",
            "|-----------------------------|----------------------|-----------------------------------|------------------------|"]
    for name in sorted(os.listdir(os.path.join(VERIF, "neutral"))):
        mp = os.path.join(VERIF, "neutral", name, "meta.json")
        if not os.path.exists(mp):
            continue
        meta = json.load(open(mp))
        r = res.get(name, {})
        verdict = "silent (exit 0)" if r.get("silent") else ("not run" if not r else f"exit {r.get('exit')}: " + ", ".join((r.get("violations") or [u[0] for u in r.get("undecided", [])])[:3]))
        others = sorted((k.split("|")[1], v["exit"]) for k, v in cross.items() if k.split("|")[0] == name)
        otxt = ", ".join(f"{p}: {'silent' if e == 0 else 'exit ' + str(e)}" for p, e in others) or "—"
        txt = (str(meta.get("title", ""))[:160] + " (" + str(meta.get("kind", ""))[:60] + ")").replace("|", "/").replace("\n", " ")
        rows.append(f"| {name} | {txt} | {verdict} | {otxt} |")
    n = sum(1 for v in res.values() if v.get("silent"))
    rows.append("")
    rows.append(f"{n} of {len(res)} changes leave their property's check silent; {sum(1 for v in cross.values() if v['exit'] == 0)} of {len(cross)} cross-property runs are silent.")
    return "\n".join(rows)


def main():
    GEN["neutral"] = t_neutral
    p = os.path.join(VERIF, "DESIGN.md")
    s = open(p).read()
    for name, fn in GEN.items():
        a, b = f"<!-- BEGIN GENERATED:{name} -->", f"<!-- END GENERATED:{name} -->"
        if a in s and b in s:
            s = s[: s.index(a) + len(a)] + "\n" + fn() + "\n" + s[s.index(b):]
    open(p, "w").write(s)
    print("DESIGN.md tables regenerated")


if __name__ == "__main__":
    main()
