"""C19 (and the aggregation clause of C07) -- billing aggregation of predictions.

BillingModel.predict is executed with DailyModel._predict replaced by its C07 contract (a row-wise frame with the
nine output columns); resample().agg() is an abstract aggregate recorded structurally (aggregate, column, source
frame, row filters, rule, index timezone).  With the partition law of sums this gives conservation of totals.
"""
from pyvc.api import *  # noqa

BLM = repo("opendsm/eemeter/models/billing/model.py::BillingModel")
BRD = repo("opendsm/eemeter/models/billing/data.py::BillingReportingData")

OPAQUE = {
    "opendsm/eemeter/models/daily/model.py::DailyModel._predict": "predict_effect",
}

OUT_COLS = ["season", "day_of_week", "weekday_weekend", "temperature", "observed", "predicted", "predicted_unc", "heating_load",
            "cooling_load", "model_split", "model_type"]


def predict_effect(self, df_eval, mask_observed_with_missing_temperature=True):
    return self.ghost_prediction


def setup(with_observed):
    cols = [c for c in OUT_COLS if with_observed or c != "observed"]
    pred = row_frame(cols, label="df_res")
    tz = opaque("tz")
    m = new_object(BLM, is_fitted=True, disqualification=[], baseline_timezone=tz, ghost_prediction=pred)
    data = new_object(BRD, tz=tz, df=opaque("data.df"))
    return [m, data, pred]


EXPECTED = {"season": "first", "temperature": "mean", "observed": "sum", "predicted": "sum",
            "predicted_unc": "apply:root_sum_square", "heating_load": "sum", "cooling_load": "sum",
            "model_split": "first", "model_type": "first"}

AGG_CASES = [{"aggregation": a, "with_observed": w} for a in ["monthly", "bimonthly"] for w in [True, False]]


@harness("C19.columns", prop="C19", cases=AGG_CASES)
def columns(aggregation, with_observed):
    [m, data, pred] = setup(with_observed)
    res = m.predict(data, aggregation)
    rule = "MS" if aggregation == "monthly" else "2MS"
    names = [c.column for c in res.cols]
    for col in EXPECTED:
        if col == "observed" and not with_observed:
            check("C19.noobs", "observed" not in names)
        else:
            check("C19.present." + col, names.count(col) == 1)
    for c in res.cols:
        # a callable the engine could not characterise (neither sum, mean nor root-sum-square of its argument) is UNDECIDED here; the bounded totals decide
        recognise(not c.func.startswith("apply:text:"), "aggregation callable of column " + c.column + ": " + c.func)
        check("C19.columns." + c.column, c.func == EXPECTED[c.column])
        check("C19.keys." + c.column, c.rule == rule)
        # every column is aggregated over the rows of the SAME frame (the prediction, unfiltered), on its own index
        check("C19.same_rows." + c.column, And(c.frame_uid == pred.root, c.filters == [], c.index_tag == "local"))


C07_CASES = [{"aggregation": a, "with_observed": True} for a in ["monthly", "bimonthly"]]


@harness("C07.agg", prop="C07", cases=C07_CASES)
def c07_agg(aggregation, with_observed):
    """observed and predicted are summed over the same rows of the same frame with the same period key, so a
    period's savings is the sum of its rows' savings (rows have both values or neither: C07.mask)"""
    [m, data, pred] = setup(with_observed)
    res = m.predict(data, aggregation)
    o = [c for c in res.cols if c.column == "observed"]
    p = [c for c in res.cols if c.column == "predicted"]
    check("C07.agg.both_present", len(o) == 1 and len(p) == 1)
    if len(o) == 1 and len(p) == 1:
        check("C07.agg.same_rows", And(o[0].frame_uid == p[0].frame_uid, o[0].filters == p[0].filters, o[0].rule == p[0].rule,
                                       o[0].index_tag == p[0].index_tag, o[0].func == "sum", p[0].func == "sum"))


KEY_CASES = [{"aggregation": a} for a in [None, "none", "NONE", "None", "monthly", "bimonthly", "Monthly", "MONTHLY", "weekly", "MS",
                                          "", " monthly", 0, 1, False, True]]


@harness("C19.keys.concrete", prop="C19", cases=KEY_CASES)
def keys_concrete(aggregation):
    [m, data, pred] = setup(True)
    out = outcome(m.predict, data, aggregation)
    unagg = aggregation is None or (isinstance(aggregation, str) and aggregation.lower() == "none")
    if unagg:
        check("C19.keys.unaggregated", out.returned and is_same(out.value, pred))
    elif aggregation == "monthly" or aggregation == "bimonthly":
        check("C19.keys.aggregated", out.returned and not is_same(out.value, pred))
    else:
        check("C19.keys.rejected", out.raised)


@harness("C19.keys.symbolic", prop="C19")
def keys_symbolic(aggregation: Str):
    """for EVERY string: returned unaggregated iff lower()=='none', aggregated iff exactly 'monthly'/'bimonthly',
    ValueError otherwise"""
    [m, data, pred] = setup(True)
    out = outcome(m.predict, data, aggregation)
    low_none = aggregation.lower() == "none"
    is_m = aggregation == "monthly"
    is_b = aggregation == "bimonthly"
    check("C19.keys.sym.rejected", iff(out.raises("ValueError"), Not(Or(low_none, is_m, is_b))))
    if out.returned:
        check("C19.keys.sym.unaggregated", iff(is_same(out.value, pred), low_none))
