"""Sorted-index model of pandas label slicing (DESIGN §3.4, used by C20).

Timestamps are integers (ns).  The input index is an uninterpreted function IDX: Int -> Int on positions
0..n-1, non-decreasing (quantified axiom; pandas raises on label slices of an unsorted index).  Every frame
derived from the input is a WINDOW (lo, hi) of positions of the input, plus `blank_last` (the last row was
overwritten with NaN) and `fresh` (a new object: writes to it cannot reach the input -- pandas Copy-on-Write).
"""
from __future__ import annotations

import ast

import z3

from . import libmodels
from .libmodels import assumed, use
from .values import SymRaise, Unsupported, is_z3, to_z3

assumed("pd.slice", "label slicing of a sorted DatetimeIndex: x[:L] keeps exactly the rows with index <= L, x[S:] those with index >= S "
                    "(both ends inclusive); the result is a new object (Copy-on-Write: writing to it never reaches x)")
assumed("pd.index", "index.max()/min() are the last/first label, NaT when empty; get_indexer([t], method='nearest')[0] is a position "
                    "minimising |label - t| and -1 when empty; index[-1] / index[loc] on an empty index raise IndexError; comparisons "
                    "with NaT are False; Timestamp +/- timedelta(days=d) is +/- d*86400e9 ns (absolute time)")
assumed("pd.dropna.empty", "x.dropna().empty is a predicate HAS_COMPLETE(lo, hi, blank_last) of the window that is true for an empty "
                           "window and monotone: a sub-window of a window without complete rows has none")

DAY = 86400 * 10 ** 9
IDX = z3.Function("IDX", z3.IntSort(), z3.IntSort())
HAS_COMPLETE = z3.Function("HAS_COMPLETE", z3.IntSort(), z3.IntSort(), z3.BoolSort())
TS_MIN = -(2 ** 62)
TS_MAX = 2 ** 62


class NaT:
    def sym_compare(self, interp, op, l, r, node):
        return isinstance(op, ast.NotEq)

    def sym_binop(self, interp, op, l, r, node):
        return self

    def sym_getattr(self, interp, name, node):
        if name == "isoformat":
            return libmodels_Callable(lambda *a, **k: "NaT")
        raise Unsupported(f"NaT.{name}", node)

    def __repr__(self):
        return "NaT"


NAT = NaT()


class libmodels_Callable:
    def __init__(self, f):
        self.f = f

    def sym_call(self, interp, args, kwargs, node, frame):
        return self.f(*args, **kwargs)


class Timestamp:
    """an aware timestamp: integer ns"""

    def __init__(self, ns):
        self.ns = ns

    def sym_binop(self, interp, op, l, r, node):
        if isinstance(op, (ast.Add, ast.Sub)):
            if isinstance(l, Timestamp) and isinstance(r, Timedelta):
                return Timestamp(l.ns + r.ns if isinstance(op, ast.Add) else l.ns - r.ns)
            if isinstance(l, Timedelta) and isinstance(r, Timestamp) and isinstance(op, ast.Add):
                return Timestamp(l.ns + r.ns)
            if isinstance(l, Timestamp) and isinstance(r, Timestamp) and isinstance(op, ast.Sub):
                return Timedelta(l.ns - r.ns)
            if isinstance(l, NaT) or isinstance(r, NaT):
                return NAT
        raise Unsupported("timestamp arithmetic other than +/- timedelta", node)

    def sym_compare(self, interp, op, l, r, node):
        if isinstance(l, NaT) or isinstance(r, NaT):
            return isinstance(op, ast.NotEq)
        if l is None or r is None:
            if isinstance(op, (ast.Eq, ast.NotEq)):
                return isinstance(op, ast.NotEq)
            raise SymRaise("TypeError", node=node, bases=("TypeError", "Exception"))
        a = l.ns if isinstance(l, Timestamp) else l
        b = r.ns if isinstance(r, Timestamp) else r
        return interp.compare(op, a, b, node)

    def sym_getattr(self, interp, name, node):
        if name == "isoformat":
            return libmodels_Callable(lambda *a, **k: "<iso>")
        raise Unsupported(f"Timestamp.{name}", node)

    def __repr__(self):
        return f"Timestamp({self.ns})"


class Timedelta:
    def __init__(self, ns):
        self.ns = ns

    def sym_compare(self, interp, op, l, r, node):
        if isinstance(l, Timedelta) and isinstance(r, Timedelta):
            return interp.compare(op, l.ns, r.ns, node)
        raise Unsupported("comparison of a Timedelta with a non-Timedelta", node)

    def sym_getattr(self, interp, name, node):
        if name == "total_seconds":
            return _TdCall(lambda: (self.ns / 1e9) if isinstance(self.ns, (int, float)) else z3.ToReal(self.ns) / 1e9 if z3.is_int(self.ns) else self.ns / 1e9)
        if name == "days":
            if isinstance(self.ns, int):
                return self.ns // (86400 * 10 ** 9)
        raise Unsupported(f"Timedelta.{name}", node)


class _TdCall:
    def __init__(self, f):
        self.f = f

    def sym_call(self, interp, args, kwargs, node, frame):
        return self.f()


_TD_UNITS = {"ns": 1, "us": 10 ** 3, "ms": 10 ** 6, "s": 10 ** 9, "sec": 10 ** 9, "min": 60 * 10 ** 9, "t": 60 * 10 ** 9, "h": 3600 * 10 ** 9, "hr": 3600 * 10 ** 9,
             "hour": 3600 * 10 ** 9, "hours": 3600 * 10 ** 9, "d": 86400 * 10 ** 9, "day": 86400 * 10 ** 9, "days": 86400 * 10 ** 9, "minutes": 60 * 10 ** 9,
             "minute": 60 * 10 ** 9, "seconds": 10 ** 9, "second": 10 ** 9}


def parse_timedelta(text):
    import re
    m = re.fullmatch(r"\s*(\d+(?:\.\d+)?)?\s*([A-Za-z]+)\s*", text)
    if not m or m.group(2).lower() not in _TD_UNITS:
        return None
    n = float(m.group(1)) if m.group(1) else 1.0
    ns = n * _TD_UNITS[m.group(2).lower()]
    return int(ns) if ns == int(ns) else None

    def sym_binop(self, interp, op, l, r, node):
        if isinstance(l, Timestamp) or isinstance(r, Timestamp):
            return Timestamp.sym_binop(l if isinstance(l, Timestamp) else r, interp, op, l, r, node)
        if isinstance(l, NaT) or isinstance(r, NaT):
            return NAT
        raise Unsupported("timedelta arithmetic", node)


def sorted_axiom(n):
    i, j = z3.Ints("i!s j!s")
    return z3.ForAll([i, j], z3.Implies(z3.And(0 <= i, i <= j, j < n), IDX(i) <= IDX(j)), patterns=[z3.MultiPattern(IDX(i), IDX(j))])


def range_axiom(n):
    """labels are valid pandas Timestamps, at least two days inside the representable range (the code uses
    Timestamp.min + 1 day / Timestamp.max - 1 day as 'no limit')"""
    i = z3.Int("i!r")
    return z3.ForAll([i], z3.Implies(z3.And(0 <= i, i < n), z3.And(IDX(i) > TS_MIN + 2 * DAY, IDX(i) < TS_MAX - 2 * DAY)),
                     patterns=[IDX(i)])


def complete_axioms():
    a, b, c, d = z3.Ints("a!c b!c c!c d!c")
    return [
        # an empty window has no complete row; monotone in the window
        z3.ForAll([a, b], z3.Implies(a >= b, z3.Not(HAS_COMPLETE(a, b))), patterns=[HAS_COMPLETE(a, b)]),
        z3.ForAll([a, b, c, d], z3.Implies(z3.And(a <= c, d <= b, HAS_COMPLETE(c, d)), HAS_COMPLETE(a, b)),
                  patterns=[z3.MultiPattern(HAS_COMPLETE(a, b), HAS_COMPLETE(c, d))]),
    ]


class Window:
    pandas_kind = "DataFrame"

    def __init__(self, root, lo, hi, fresh=False, blank_last=False):
        self.root = root if root is not None else self
        self.lo = lo
        self.hi = hi
        self.fresh = fresh
        self.blank_last = blank_last
        self.mutated = False  # ghost: an in-place write was applied to THIS object

    def derive(self, lo, hi, fresh=True):
        w = Window(self.root, lo, hi, fresh=fresh, blank_last=self.blank_last)
        return w

    def empty_cond(self):
        return self.lo >= self.hi

    # -- pandas surface
    def sym_getitem(self, interp, key, node):
        use(interp, "pd.slice")
        if isinstance(key, slice):
            if key.step is not None:
                raise Unsupported("stepped slice", node)
            w = self
            if isinstance(key.start, NaT) or isinstance(key.stop, NaT):
                # pandas: a label slice bounded by NaT selects nothing (checked natively: df[pd.NaT:] is empty)
                interp.run.assumptions.add("[pd.slice.nat] a label slice with a NaT bound selects no rows")
                return w.derive(w.lo, w.lo)
            if key.start is not None:
                w = w._from(interp, key.start, node)
            if key.stop is not None:
                w = w._upto(interp, key.stop, node)
            if key.start is None and key.stop is None:
                w = w.derive(w.lo, w.hi)
            return w
        raise Unsupported("frame subscript other than a label slice", node)

    def _bound(self, interp, label, node):
        if isinstance(label, NaT):
            # pandas: slicing with NaT raises
            raise SymRaise("TypeError", "slice with NaT", node, ("TypeError", "Exception"))
        if isinstance(label, Timestamp):
            return label.ns
        raise Unsupported(f"label slice bound of type {type(label).__name__}", node)

    def _upto(self, interp, label, node):
        L = self._bound(interp, label, node)
        h = interp.run.fresh_int("hi")
        run = interp.run
        run._add(z3.And(self.lo <= h, h <= self.hi))
        run._add(z3.Implies(h > self.lo, IDX(h - 1) <= L))
        run._add(z3.Implies(h < self.hi, IDX(h) > L))
        return self.derive(self.lo, h)

    def _from(self, interp, label, node):
        S = self._bound(interp, label, node)
        l = interp.run.fresh_int("lo")
        run = interp.run
        run._add(z3.And(self.lo <= l, l <= self.hi))
        run._add(z3.Implies(l > self.lo, IDX(l - 1) < S))
        run._add(z3.Implies(l < self.hi, IDX(l) >= S))
        return self.derive(l, self.hi)

    def sym_getattr(self, interp, name, node):
        if name == "copy":
            return libmodels_Callable(lambda *a, **k: self.derive(self.lo, self.hi))
        if name == "index":
            return IndexView(self)
        if name == "dropna":
            return libmodels_Callable(lambda *a, **k: _Dropped(self))
        if name == "iloc":
            return _ILoc(self)
        if name == "empty":
            return self.empty_cond()
        if name in ("lo", "hi", "fresh", "blank_last", "mutated"):  # ghost state, for contracts only
            return getattr(self, name)
        raise Unsupported(f"DataFrame.{name} (sorted-index model)", node)

    def sym_len(self, interp, node):
        return z3.If(self.hi >= self.lo, self.hi - self.lo, 0)


class _Dropped:
    def __init__(self, w):
        self.w = w

    def sym_getattr(self, interp, name, node):
        if name == "empty":
            use(interp, "pd.dropna.empty")
            return z3.Not(HAS_COMPLETE(self.w.lo, self.w.hi))
        raise Unsupported(f"dropna().{name}", node)


class _ILoc:
    def __init__(self, w):
        self.w = w

    def sym_setitem(self, interp, key, value, node):
        if key == -1:
            if interp.run.branch(self.w.empty_cond()):
                raise SymRaise("IndexError", "iloc[-1] on empty", node, ("IndexError", "LookupError", "Exception"))
            self.w.blank_last = True
            self.w.mutated = True
            return
        raise Unsupported("iloc write other than [-1]", node)


class IndexView:
    def __init__(self, w):
        self.w = w

    def sym_getattr(self, interp, name, node):
        use(interp, "pd.index")
        w = self.w
        if name == "max":
            def mx(*a, **k):
                if interp.run.branch(w.empty_cond()):
                    return NAT
                return Timestamp(IDX(w.hi - 1))
            return libmodels_Callable(mx)
        if name == "min":
            def mn(*a, **k):
                if interp.run.branch(w.empty_cond()):
                    return NAT
                return Timestamp(IDX(w.lo))
            return libmodels_Callable(mn)
        if name == "get_indexer":
            def gi(labels, method=None, **k):
                if method != "nearest" or len(labels) != 1:
                    raise Unsupported("get_indexer other than ([t], method='nearest')", node)
                t = labels[0]
                if interp.run.branch(w.empty_cond()):
                    return [-1]
                if isinstance(t, NaT):
                    raise Unsupported("get_indexer of NaT on a non-empty index", node)
                t = t.ns
                p = interp.run.fresh_int("nearest")
                q = z3.Int("q!near")
                interp.run._add(z3.And(0 <= p, p < w.hi - w.lo))
                d = lambda x: z3.If(IDX(x) >= t, IDX(x) - t, t - IDX(x))
                # nearest: no label of the window is strictly closer
                j = z3.Int("j!near")
                interp.run._add(z3.ForAll([j], z3.Implies(z3.And(w.lo <= j, j < w.hi), d(j) >= d(w.lo + p)), patterns=[IDX(j)]))
                return [p]
            return libmodels_Callable(gi)
        if name == "empty":
            return w.empty_cond()
        raise Unsupported(f"Index.{name} (sorted-index model)", node)

    def sym_getitem(self, interp, key, node):
        w = self.w
        if is_z3(key) or isinstance(key, int):
            k = to_z3(key)
            if isinstance(key, int) and key < 0:
                if interp.run.branch(w.hi - w.lo < -key):
                    raise SymRaise("IndexError", "index out of bounds", node, ("IndexError", "LookupError", "Exception"))
                return Timestamp(IDX(w.hi + key))
            if interp.run.branch(z3.Or(k < 0, k >= w.hi - w.lo)):
                # (negative symbolic positions only arise as -1 from get_indexer on an empty index)
                raise SymRaise("IndexError", "index out of bounds", node, ("IndexError", "LookupError", "Exception"))
            return Timestamp(IDX(w.lo + k))
        raise Unsupported("index subscript", node)


def install():
    @libmodels.api("sorted_frame")
    def _sorted_frame(interp, args, kwargs, node, frame):
        """the input of get_baseline_data / get_reporting_data: n rows, sorted index"""
        n = args[0]
        interp.run._add(n >= 0)
        interp.run._add(sorted_axiom(n))
        interp.run._add(range_axiom(n))
        for ax in complete_axioms():
            interp.run._add(ax)
        return Window(None, z3.IntVal(0), n, fresh=False)

    @libmodels.api("timestamp")
    def _timestamp(interp, args, kwargs, node, frame):
        return Timestamp(args[0])

    @libmodels.api("label_at")
    def _label_at(interp, args, kwargs, node, frame):
        return IDX(args[0])

    @libmodels.api("has_complete")
    def _has_complete(interp, args, kwargs, node, frame):
        return HAS_COMPLETE(args[0], args[1])

    @libmodels.lib("datetime.timedelta")
    def _timedelta(interp, args, kwargs, node, frame):
        d = kwargs.get("days", args[0] if args else 0)
        if d is None:
            raise SymRaise("TypeError", "timedelta(days=None)", node, ("TypeError", "Exception"))
        return Timedelta(to_z3(d) * DAY)

    @libmodels.lib("pandas.Timedelta")
    def _pd_timedelta(interp, args, kwargs, node, frame):
        if args and isinstance(args[0], str) and not kwargs:
            ns = parse_timedelta(args[0])
            if ns is None:
                raise Unsupported(f"pd.Timedelta({args[0]!r})", node)
            return Timedelta(ns)
        if args and (isinstance(args[0], (int, float)) or z3.is_expr(args[0])) and set(kwargs) <= {"unit"}:
            unit = str(kwargs.get("unit", "ns")).lower()
            if unit not in _TD_UNITS:
                raise Unsupported(f"pd.Timedelta unit {unit!r}", node)
            v = args[0]
            return Timedelta(v * _TD_UNITS[unit] if isinstance(v, (int, float)) else to_z3(v) * _TD_UNITS[unit])
        if not args and kwargs and set(kwargs) <= set(_TD_UNITS):
            tot = 0
            for k, v in kwargs.items():
                tot = tot + (v * _TD_UNITS[k] if isinstance(v, (int, float)) else to_z3(v) * _TD_UNITS[k])
            return Timedelta(tot)
        raise Unsupported("pd.Timedelta with these arguments", node)

    @libmodels.lib("pandas.TimedeltaIndex")
    def _pd_timedeltaindex(interp, args, kwargs, node, frame):
        from .values import SOpaque
        return SOpaque("TimedeltaIndex")

    @libmodels.lib("pytz.UTC.localize")
    def _localize(interp, args, kwargs, node, frame):
        return args[0]

    if not hasattr(libmodels, "LIB_CONSTANTS"):
        libmodels.LIB_CONSTANTS = {}
    libmodels.LIB_CONSTANTS["pandas.NaT"] = NAT
    libmodels.LIB_CONSTANTS["pandas.Timestamp.min"] = Timestamp(z3.IntVal(TS_MIN))
    libmodels.LIB_CONSTANTS["pandas.Timestamp.max"] = Timestamp(z3.IntVal(TS_MAX))


install()
