#!/venv/bin/python
"""Write the prompt handed to a sub-agent that produces BEHAVIOUR-PRESERVING changes (refactors) of the code a property depends on: the
checks must stay silent on them.  Only the property text and a scratch worktree are given.   usage: tools/neutral_prompt.py Cnn <worktree> [n]"""
import json, os, sys
V = os.path.dirname(os.path.dirname(os.path.abspath(__file__)))
pid, wt = sys.argv[1], sys.argv[2]
n = int(sys.argv[3]) if len(sys.argv) > 3 else 5
prop = next(json.loads(l) for l in open(os.path.join(V, "properties.jsonl")) if json.loads(l)["id"] == pid)
print(f"""You are helping to evaluate a verification effort for the Python library openeemeter/eemeter (package `opendsm`, sub-package
`opendsm.eemeter`: CalTRACK daily, billing and hourly energy baseline models on pandas / scikit-learn). You have your own scratch git
worktree of the repository at {wt} (work ONLY there; never touch /repo or /verif, and do not read anything under /verif). The interpreter is
/venv/bin/python; run things with `cd {wt} && NUMBA_CACHE_DIR={wt}/.numba_cache PYTHONPATH={wt} /venv/bin/python ...` so that the worktree's
`opendsm` is the one imported (check `opendsm.__file__`). There is no network.

A property of the library (id {pid}) is being verified by someone else:

TITLE: {prop['title']}
STATEMENT: {prop['statement']}
QUANTIFIER: {prop['quantifier']}
CODE ANCHORS: {json.dumps(prop['anchors'])}

YOUR TASK: write {n} DIFFERENT changes to the library's source (under {wt}/opendsm), in the functions this property depends on (the code
anchors above and the helpers they call), each of which PRESERVES the property -- the library behaves the same for every input as far as
this property is concerned -- and which a maintainer could plausibly commit. They are used to check that the verification does not raise
false alarms on harmless edits. Make them real edits of the executable code of those functions, not comment-only changes. Use a MIX of kinds,
one kind per change, for example:
  - rename local variables / reorder independent statements / split a long expression into named temporaries
  - extract a block into a new private helper function (or inline a small helper into its caller)
  - replace an idiom by an equivalent one (`df[mask]` <-> `df.loc[mask]`, `a < b` <-> `b > a`, `not (a or b)` <-> `(not a) and (not b)`,
    a loop <-> a comprehension, `np.sum([..])` <-> `sum(..)` where exactly equal, `if x: return a` / `else` restructuring, early returns)
  - add logging / an extra sanity assertion that can never fire / type hints plus a tiny defensive conversion that is a no-op on valid input
  - change a message text, a docstring plus a harmless reformatting of the code below it, or the order of keyword arguments at a call
  - a small performance tweak that computes the same values (hoisting a loop-invariant, caching a length in a local, avoiding a copy that
    is provably unobserved -- be careful: do not remove a copy that protects the caller's data)
Be careful that the behaviour REALLY is the same for all inputs (NaN / inf handling, empty frames, dtypes, index order, aliasing and
mutation of inputs, exceptions raised and their types, floating-point evaluation order -- do not reassociate float arithmetic). When in
doubt choose a more conservative edit. Each change should touch executable lines of at least one function the property depends on; larger
ones (10-40 changed lines) are welcome as long as they are equivalent.

For EACH change produce a directory {wt}/neutral_out/<short-kebab-name>/ containing:
  patch.diff  -- `git diff` of the change against the worktree's HEAD (paths relative to the repository root, applies with `git apply`);
                 source files under opendsm/ only, no test edits
  equiv.py    -- a small differential program (run as `PYTHONPATH={wt} /venv/bin/python equiv.py`) that exercises the changed function(s)
                 on a dozen or more varied inputs (including edge cases) and prints a digest (e.g. repr / hash of results); it must print
                 the SAME digest with and without the change
  meta.json   -- {{"property": "{pid}", "title": one line, "kind": which kind of edit, "why_equivalent": the argument, "files_changed": [...],
                 "ran": [the exact commands you ran and what they printed, in order]}}

Procedure you must follow and report in meta.json "ran":
  1. On the unmodified worktree run the suite ONCE and keep the set of passing test ids:
     cd {wt} && NUMBA_CACHE_DIR={wt}/.numba_cache /venv/bin/python -m pytest -q -p no:cacheprovider --timeout=900 --continue-on-collection-errors --no-cov --junitxml={wt}/neutral_out/base.xml
     (drop --no-cov if it is rejected; some tests fail or error in this sandbox for want of data files / network: that is expected, only
     the set of PASSING ids matters; the suite takes several minutes).
  2. For each change: apply it, run the suite the same way, confirm that every test that passed before still passes; run equiv.py and keep
     the digest; save patch.diff; `git checkout -- .` (and delete any new file) back to the unmodified tree, run equiv.py again and confirm
     the digest is identical.
  3. Leave the worktree clean (no stray files outside neutral_out/ and .numba_cache/).
Do not write anything outside {wt}. Finish with a short summary listing the directories you produced.
""")
