"""Bounded part of C03: REAL fits repeated under different process histories; the serialised model (to_json) and the
predictions must be bit-identical.

Every fit runs in a worker process (python -m bounded.C03_repeat --worker <json plan>); a plan is a list of steps executed in
order in ONE process, each step either noise (other fits that are dropped, garbage collection, draws from / reseeding of the
global numpy and random generators, fits with supplemental columns or other settings) or a recorded fit.  Recorded fits of
the same (family, meter, settings) are then compared across plans:
   fresh   : the fit is the first thing the process does;
   warm    : the fit comes after noise of every kind;
   repeat  : the same fit twice in one process;
   order   : a batch of meters fitted in two different orders;
   threads : OMP/MKL/OPENBLAS_NUM_THREADS=4 in the environment and 4 worker processes running at once.
"""
import gc
import hashlib
import json
import logging
import os
import subprocess
import sys
import warnings

MODULE = "bounded.C03_repeat"
VERIF = os.path.dirname(os.path.dirname(os.path.abspath(__file__)))


# ---------------------------------------------------------------------------------------------- worker side
def _daily_data(which):
    import opendsm.eemeter as em
    from opendsm.eemeter.samples import load_sample
    from opendsm.eemeter.common.transform import get_baseline_data
    if which == "SEASONAL":
        # a synthetic meter whose usage has a summer regime: the selected model is a season-only split (several sub-models)
        import bounded.C12_fits as F
        case = {"name": "seasonal", "base": 20, "heat_slope": 1.2, "cool_slope": 0.9, "heat_bp": 50, "cool_bp": 68, "summer": 1.8, "n_days": 365, "seed": 11, "family": "daily"}
        return em.DailyBaselineData(F.build(case), is_electricity_data=True)
    if which == "OUTLIERS":
        # a synthetic meter with a dozen gross outliers: the adaptive loss settles on a robust (alpha < 2) weighting
        import bounded.C12_fits as F
        case = {"name": "outliers", "base": 20, "heat_slope": 1.2, "cool_slope": 0.9, "heat_bp": 50, "cool_bp": 68, "outliers": 12, "n_days": 365, "seed": 21, "family": "daily"}
        return em.DailyBaselineData(F.build(case), is_electricity_data=True)
    scale = 1.0
    if which.endswith("twin"):
        which, scale = which[:-4], 1.02          # the same meter with every reading 2 % higher
    sample = {"D1": "il-electricity-cdd-hdd-daily", "D2": "il-gas-hdd-only-daily", "D3": "il-electricity-cdd-only-daily"}[which]
    meter, temp, meta = load_sample(sample)
    bm, _ = get_baseline_data(meter, end=meta["blackout_start_date"], max_days=365)
    if scale != 1.0:
        bm = bm * scale
    return em.DailyBaselineData.from_series(bm, temp, is_electricity_data=not sample.startswith("il-gas"))


def _billing_data():
    import opendsm.eemeter as em
    from opendsm.eemeter.samples import load_sample
    from opendsm.eemeter.common.transform import get_baseline_data
    meter, temp, meta = load_sample("il-electricity-cdd-hdd-billing_monthly")
    # the sample is stamped in UTC (reads at 06:00 = local midnight): put it on the meter's own clock
    meter, temp = meter.tz_convert("America/Chicago"), temp.tz_convert("America/Chicago")
    bm, _ = get_baseline_data(meter, end=meta["blackout_start_date"], max_days=365)
    return em.BillingBaselineData.from_series(bm, temp, is_electricity_data=True)


def _hourly_frame(which):
    import numpy as np
    import pandas as pd
    from opendsm.eemeter.samples import load_sample
    meter, temp, meta = load_sample("il-electricity-cdd-hdd-hourly")
    df = pd.concat([meter.rename(columns={"value": "observed"}), temp.rename("temperature")], axis=1).dropna()
    start = {"H1": 0, "H2": 24 * 200, "H3": 24 * 400}[which]
    df = df.iloc[start: start + 24 * 150].copy()
    return df


def _fit(step):
    import opendsm.eemeter as em
    fam = step["family"]
    settings = step.get("settings")
    if fam == "daily":
        data = _daily_data(step["meter"])
        m = em.DailyModel(settings=settings)
        if step.get("refit_after"):
            # ONE model object, fitted on another meter first
            m.fit(_daily_data(step["refit_after"]), ignore_disqualification=True)
        m = m.fit(data, ignore_disqualification=True)
        pred = m.predict(data, ignore_disqualification=True)
    elif fam == "billing":
        data = _billing_data()
        m = em.BillingModel(settings=settings).fit(data, ignore_disqualification=True)
        pred = m.predict(data, ignore_disqualification=True)
    elif fam == "hourly":
        df = _hourly_frame(step["meter"])
        if step.get("ghi"):
            import numpy as np
            df["ghi"] = np.clip(np.sin((df.index.hour.values - 6) / 12 * np.pi), 0, None) * 700 + 3.0
        data = em.HourlyBaselineData(df, is_electricity_data=True)
        # a plain dict (or nothing) takes the default-feature path: the training features are chosen at fit time from the columns present
        if step.get("explicit"):
            settings = (em.HourlySolarSettings if step.get("ghi") else em.HourlyNonSolarSettings)(**(settings or {}))
        m = em.HourlyModel(settings=settings)
        if step.get("refit_after"):
            m.fit(em.HourlyBaselineData(_hourly_frame(step["refit_after"]), is_electricity_data=True), ignore_disqualification=True)
        m = m.fit(data, ignore_disqualification=True)
        pred = m.predict(data, ignore_disqualification=True)
    elif fam == "caltrack":
        import pandas as pd
        from opendsm.eemeter.samples import load_sample
        from opendsm.eemeter.models.hourly_caltrack.wrapper import HourlyModel as CT
        from opendsm.eemeter.models.hourly_caltrack.data import HourlyBaselineData as CTB, HourlyReportingData as CTR
        meter, temp, meta = load_sample("il-electricity-cdd-hdd-hourly")
        df = pd.concat([meter.rename(columns={"value": "observed"}), temp.rename("temperature")], axis=1).dropna()
        base = CTB(df.iloc[: 24 * 365].copy(), is_electricity_data=True)
        rep = CTR(df.iloc[24 * 365: 24 * 400].copy(), is_electricity_data=True)
        m = CT().fit(base)
        pred = m.predict(rep)
    else:
        raise ValueError(fam)
    cols = [c for c in ("predicted", "predicted_unc", "predicted_uncertainty") if c in pred.columns]
    return {"json": m.to_json(), "pred": [[repr(float(v)) for v in pred[c].tolist()] for c in cols]}


def worker(plan):
    warnings.filterwarnings("ignore")
    logging.disable(logging.CRITICAL)
    sys.path.insert(0, os.environ.get("VERIF_REPO", "/repo"))
    out = []
    for step in plan:
        kind = step["do"]
        if kind == "fit":
            r = _fit(step)
            if step.get("record"):
                doc = json.loads(r["json"])
                out.append({"key": step["record"], "sha": hashlib.sha256((r["json"] + json.dumps(r["pred"])).encode()).hexdigest(), "doc": doc,
                            "pred_head": [p[:5] for p in r["pred"]], "n_pred": [len(p) for p in r["pred"]]})
            del r
        elif kind == "batch":
            # a tight batch on ONE data object: each model is built, fitted, serialised and dropped before the next is built (so object
            # addresses are reused); the last one is recorded
            import opendsm.eemeter as em
            data = _daily_data(step["meter"])
            for st in step["settings_list"][:-1]:
                em.DailyModel(settings=st).fit(data, ignore_disqualification=True).to_json()
            m = em.DailyModel(settings=step["settings_list"][-1]).fit(data, ignore_disqualification=True)
            pred = m.predict(data, ignore_disqualification=True)
            js = m.to_json()
            pr = [[repr(float(v)) for v in pred[c].tolist()] for c in ("predicted", "predicted_unc") if c in pred.columns]
            out.append({"key": step["record"], "sha": hashlib.sha256((js + json.dumps(pr)).encode()).hexdigest(), "doc": json.loads(js),
                        "pred_head": [p[:5] for p in pr], "n_pred": [len(p) for p in pr]})
        elif kind == "gc":
            gc.collect()
        elif kind == "rng":
            import random
            import numpy as np
            np.random.seed(step.get("seed", 12345))
            np.random.rand(step.get("n", 1000))
            random.seed(step.get("seed", 12345))
            random.random()
        elif kind == "garbage":
            # allocate and drop objects so that addresses get reused
            junk = [dict(a=i) for i in range(step.get("n", 20000))]
            del junk
            gc.collect()
        else:
            raise ValueError(kind)
    sys.stdout.write("RESULT" + json.dumps(out) + "\n")


# ---------------------------------------------------------------------------------------------- driver side
def run_plan(plan, env_extra=None, timeout=900):
    env = dict(os.environ)
    env["PYTHONPATH"] = os.pathsep.join([VERIF, os.path.join(VERIF, ".overlay"), env.get("PYTHONPATH", "")])
    env.setdefault("NUMBA_CACHE_DIR", os.path.join(VERIF, ".scratch", "numba"))
    for k in ("OMP_NUM_THREADS", "MKL_NUM_THREADS", "OPENBLAS_NUM_THREADS", "NUMBA_NUM_THREADS"):
        env.setdefault(k, "1")        # plans run side by side: one thread each unless the plan says otherwise
    env.update(env_extra or {})
    tmp_cache = None
    if env.get("NUMBA_CACHE_DIR") == "@fresh":
        import tempfile
        os.makedirs(os.path.join(VERIF, ".scratch"), exist_ok=True)
        tmp_cache = tempfile.mkdtemp(prefix="numba-fresh-", dir=os.path.join(VERIF, ".scratch"))
        env["NUMBA_CACHE_DIR"] = tmp_cache
    try:
        p = subprocess.run([sys.executable, "-m", "bounded.C03_repeat", "--worker", json.dumps(plan)], cwd=VERIF, env=env, capture_output=True, text=True, timeout=timeout)
    finally:
        if tmp_cache:
            import shutil
            shutil.rmtree(tmp_cache, ignore_errors=True)
    for line in p.stdout.splitlines():
        if line.startswith("RESULT"):
            return json.loads(line[6:])
    raise RuntimeError(f"worker failed (exit {p.returncode}): {p.stderr[-800:]}")


def _diff(a, b, path=""):
    if type(a) is not type(b):
        return f"{path}: {a!r} vs {b!r}"
    if isinstance(a, dict):
        for k in sorted(set(a) | set(b)):
            if k not in a or k not in b:
                return f"{path}.{k}: present on one side only"
            d = _diff(a[k], b[k], f"{path}.{k}")
            if d:
                return d
        return None
    if isinstance(a, list):
        if len(a) != len(b):
            return f"{path}: lengths {len(a)} vs {len(b)}"
        for i, (x, y) in enumerate(zip(a, b)):
            d = _diff(x, y, f"{path}[{i}]")
            if d:
                return d
        return None
    return None if a == b or (a != a and b != b) else f"{path}: {a!r} vs {b!r}"


FIT = {
    "daily.D1.alpha05": {"do": "fit", "family": "daily", "meter": "D1", "settings": {"uncertainty_alpha": 0.05}},
    "daily.D1": {"do": "fit", "family": "daily", "meter": "D1", "settings": None},
    "daily.D2": {"do": "fit", "family": "daily", "meter": "D2", "settings": None},
    "daily.D3.alpha20": {"do": "fit", "family": "daily", "meter": "D3", "settings": {"uncertainty_alpha": 0.2}},
    "daily.D1twin.alpha05": {"do": "fit", "family": "daily", "meter": "D1twin", "settings": {"uncertainty_alpha": 0.05}},
    "daily.seasonal": {"do": "fit", "family": "daily", "meter": "SEASONAL", "settings": None},
    "billing": {"do": "fit", "family": "billing", "settings": None},
    "hourly.H1.seed7": {"do": "fit", "family": "hourly", "meter": "H1", "settings": {"seed": 7}},
    "hourly.H1.seed0": {"do": "fit", "family": "hourly", "meter": "H1", "settings": {"seed": 0}},
    "hourly.H2.seed7": {"do": "fit", "family": "hourly", "meter": "H2", "settings": {"seed": 7}},
    "hourly.H2.pv": {"do": "fit", "family": "hourly", "meter": "H2", "settings": {"seed": 3, "supplemental_time_series_columns": ["has_pv"]}},
    "hourly.H3.default.seed7": {"do": "fit", "family": "hourly", "meter": "H3", "settings": {"seed": 7}},
    "caltrack": {"do": "fit", "family": "caltrack"},
    "daily.OUT.devalpha": {"do": "fit", "family": "daily", "meter": "OUTLIERS", "settings": {"developer_mode": True, "alpha_minimum": -20}},
    "daily.OUT": {"do": "fit", "family": "daily", "meter": "OUTLIERS", "settings": None},
    "hourly.H1.solar.seed5": {"do": "fit", "family": "hourly", "meter": "H1", "ghi": True, "settings": {"seed": 5}},
    "hourly.H3.explicit.seed7": {"do": "fit", "family": "hourly", "meter": "H3", "explicit": True, "settings": {"seed": 7}},
}


def rec(name):
    return dict(FIT[name], record=name)


def noise(name):
    return dict(FIT[name])


def plans(tier):
    """name -> (plan, env)"""
    P = {}
    P["fresh.daily"] = ([rec("daily.D1.alpha05")], None)
    P["fresh.hourly"] = ([rec("hourly.H1.seed7")], None)
    P["fresh.hourly0"] = ([rec("hourly.H1.seed0")], None)
    P["fresh.billing"] = ([rec("billing")], None)
    # an ordinary batch before the recorded fits: other settings, dropped models, supplemental columns, global generator use
    P["warm.all"] = ([noise("daily.D3.alpha20"), {"do": "gc"}, noise("daily.D2"), {"do": "gc"}, {"do": "garbage"}, noise("hourly.H2.pv"), {"do": "gc"},
                      {"do": "rng", "seed": 99}, rec("daily.D1.alpha05"), {"do": "rng", "seed": 5}, rec("hourly.H1.seed7"), rec("hourly.H1.seed0"), rec("billing"),
                      rec("hourly.H1.seed0"), rec("daily.D1.alpha05")], None)
    P["warm.batch"] = ([{"do": "batch", "meter": "D1", "settings_list": [None, {"uncertainty_alpha": 0.2}, None, {"uncertainty_alpha": 0.05}], "record": "daily.D1.alpha05"}], None)
    for j, sl in enumerate([[{"uncertainty_alpha": 0.2}, {"uncertainty_alpha": 0.05}], [None, {"uncertainty_alpha": 0.05}],
                            [{"uncertainty_alpha": 0.2}, None, {"uncertainty_alpha": 0.3}, None, {"uncertainty_alpha": 0.05}]]):
        P[f"warm.batch{j + 2}"] = ([{"do": "garbage", "n": 1000 * (j + 1)}, {"do": "batch", "meter": "D1", "settings_list": sl, "record": "daily.D1.alpha05"}], None)
    # str hashing differs between processes (PYTHONHASHSEED): anything iterating a set of names in hash order shows here
    P["hashseed.a"] = ([rec("caltrack"), rec("hourly.H1.seed7"), rec("daily.seasonal")], {"PYTHONHASHSEED": "0"})
    P["hashseed.b"] = ([{"do": "rng", "seed": 3}, rec("hourly.H1.seed7"), rec("caltrack"), rec("daily.seasonal")], {"PYTHONHASHSEED": "12345"})
    P["hashseed.c"] = ([rec("daily.seasonal")], {"PYTHONHASHSEED": "1"})
    P["hashseed.d"] = ([rec("daily.seasonal")], {"PYTHONHASHSEED": "3"})
    # the same meter with slightly different readings fitted first (anything keyed on rounded quantities is then already there)
    P["warm.twin"] = ([noise("daily.D1twin.alpha05"), rec("daily.D1.alpha05")], None)
    # ONE model object fitted on another meter first, then on the recorded one (estimators that keep state between fits show here)
    P["warm.refit"] = ([dict(rec("hourly.H1.seed7"), refit_after="H2"), dict(rec("daily.D1.alpha05"), refit_after="D3")], None)
    # developer overrides of the robust loss, on a meter with outliers: alone in a process with an EMPTY JIT cache, and after a default fit in a
    # process that has the kernels compiled already (anything frozen into compiled code at first use shows here)
    P["fresh.devalpha"] = ([rec("daily.OUT.devalpha"), rec("daily.OUT")], {"NUMBA_CACHE_DIR": "@fresh"})
    P["warm.devalpha"] = ([rec("daily.OUT"), rec("daily.OUT.devalpha")], None)
    P["threads.hourly"] = ([rec("hourly.H1.seed7"), rec("hourly.H1.seed0")], {"OMP_NUM_THREADS": "4", "MKL_NUM_THREADS": "4", "OPENBLAS_NUM_THREADS": "4"})
    if tier == "thorough":
        P["fresh.daily.default"] = ([rec("daily.D1")], None)
        P["fresh.daily.D2"] = ([rec("daily.D2")], None)
        P["fresh.hourly.H3"] = ([rec("hourly.H3.default.seed7")], None)
        P["fresh.solar"] = ([rec("hourly.H1.solar.seed5"), rec("hourly.H3.explicit.seed7")], None)
        P["order.a"] = ([rec("daily.D1"), rec("daily.D2"), rec("daily.D3.alpha20"), rec("hourly.H2.seed7"), rec("hourly.H3.default.seed7"), rec("hourly.H1.solar.seed5")], None)
        P["order.b"] = ([rec("hourly.H1.solar.seed5"), rec("hourly.H3.default.seed7"), {"do": "rng", "seed": 1}, rec("daily.D3.alpha20"), noise("hourly.H2.pv"),
                         rec("hourly.H2.seed7"), rec("daily.D2"), {"do": "garbage"}, rec("daily.D1"), rec("hourly.H3.explicit.seed7")], None)
        P["threads.daily"] = ([rec("daily.D1.alpha05"), rec("billing")], {"OMP_NUM_THREADS": "4", "MKL_NUM_THREADS": "4", "OPENBLAS_NUM_THREADS": "4", "NUMBA_NUM_THREADS": "4"})
        for i in range(16):
            P[f"concurrent.{i}"] = ([rec("hourly.H1.seed7")] + ([rec("daily.D1.alpha05")] if i < 4 else []), None)
    return P


def replay(case):
    """re-run the two plans of a failing comparison and compare the named record again"""
    res = {}
    for nm in (case["plan_a"], case["plan_b"]):
        plan, env = case["plans"][nm]
        res[nm] = [r for r in run_plan(plan, env) if r["key"] == case["key"]]
    a, b = res[case["plan_a"]][case.get("index_a", 0)], res[case["plan_b"]][case.get("index_b", 0)]
    if a["sha"] == b["sha"]:
        return {"ok": True, "problems": []}
    return {"ok": False, "problems": [f"{case['key']}: {case['plan_a']} vs {case['plan_b']}: first difference {_diff(a['doc'], b['doc']) or 'in the predictions'}"]}


def run(tier="quick", seed=0):
    from concurrent.futures import ThreadPoolExecutor
    from bounded.common import Bounded, load_known
    b = Bounded("C03", "C03.repeat", MODULE,
                "real DailyModel / BillingModel / HourlyModel fits in worker processes: the same (meter, settings) fitted as the first act of a fresh process, after a "
                "batch of other fits with other settings / supplemental columns / dropped models / garbage collection / global numpy+random generator use, twice in one "
                "process, with OMP/MKL/OPENBLAS_NUM_THREADS=4 in the environment, under two PYTHONHASHSEED values (also a CalTRACK hourly fit)"
                + ("; thorough: a batch of six meters in two orders, 16 concurrent worker processes, solar model" if tier == "thorough" else "")
                + ". Compared: sha256 of to_json() plus repr of every predicted / predicted_unc value. seeds 0, 5, 7. distinct = compared pair",
                known_findings=load_known("C03"))
    P = plans(tier)
    results = {}
    with ThreadPoolExecutor(max_workers=min(16, len(P))) as ex:
        futs = {nm: ex.submit(run_plan, plan, env) for nm, (plan, env) in P.items()}
        for nm, f in futs.items():
            try:
                results[nm] = f.result()
            except Exception as e:  # noqa
                results[nm] = e
    by_key = {}
    for nm, res in results.items():
        if isinstance(res, Exception):
            b.case("C03.repeat.worker", {"plan": nm}, False, nontrivial_key=nm, detail=f"worker for plan {nm} failed: {res}")
            continue
        seen = {}
        for r in res:
            i = seen.get(r["key"], 0)
            seen[r["key"]] = i + 1
            by_key.setdefault(r["key"], []).append((nm, i, r))
    for key, items in sorted(by_key.items()):
        ref_nm, ref_i, ref = items[0]
        for nm, i, r in items[1:]:
            ok = r["sha"] == ref["sha"]
            detail = None
            if not ok:
                detail = f"{key}: {ref_nm}#{ref_i} vs {nm}#{i}: first difference {_diff(ref['doc'], r['doc']) or 'in the predictions: ' + str(ref['pred_head']) + ' vs ' + str(r['pred_head'])}"
            kind = "repeat" if nm == ref_nm else ("threads" if nm.startswith("threads") or ref_nm.startswith("threads") else "history")
            b.case(f"C03.repeat.{kind}", {"key": key, "plan_a": ref_nm, "plan_b": nm, "index_a": ref_i, "index_b": i, "plans": {ref_nm: list(P[ref_nm]), nm: list(P[nm])}},
                   ok, nontrivial_key=f"{key}|{ref_nm}#{ref_i}|{nm}#{i}", detail=detail)
    return b.result()


if __name__ == "__main__":
    if len(sys.argv) > 2 and sys.argv[1] == "--worker":
        worker(json.loads(sys.argv[2]))
    else:
        print(json.dumps(run(sys.argv[1] if len(sys.argv) > 1 else "quick"), indent=1, default=str)[:3000])
