"""C17 (proof part) -- interpolate() of opendsm/common/hourly_interpolation.py on the row-wise model: for ONE ARBITRARY ROW
of an arbitrary frame (any length: every branch of the lag selection is explored),
   keep  : a cell that was present on entry leaves with the same value,
   flag  : interpolated_<col> is True exactly when the cell was missing on entry and is present on exit,
   total : a column with at least one present cell has no missing cell on exit,
   frame : no other column is written, the frame handed back is the one passed in.
_interpolate_col (numpy autocorrelation fill) is replaced by its frame contract 'changes only missing cells', which is itself
discharged on the real AST by flow/C17_frame.py; Series.interpolate / ffill / bfill are assumed pandas contracts (listed in the
evidence).  The data-class skeleton (whole local days, duplicates, zero -> NaN end to end) is the bounded part."""
from pyvc.api import *  # noqa

INTERPOLATE = repo("opendsm/common/hourly_interpolation.py::interpolate")
OPAQUE = {"opendsm/common/hourly_interpolation.py::_interpolate_col": "interpolate_col_frame"}

NUM = 0
NAN = 1


def interpolate_col_frame(x, lags):
    # C17.frame.interpolate_col (flow obligation): every store into x is x.loc[<subset of x.index[x.isna()]>] = ...
    return fill_only_missing(x)


CASES = [{"ghi": False, "explicit": True}, {"ghi": True, "explicit": True}, {"ghi": True, "explicit": False}]


@harness("C17.interpolate", prop="C17", cases=CASES)
def interpolate_row(ghi, explicit):
    cols = ["temperature", "observed"]
    if ghi:
        cols = cols + ["ghi"]
    df = row_frame(cols + ["date", "hour_of_day"])
    k0 = []
    v0 = []
    h0 = []
    for c in cols:
        k0.append(cell_kind(df, c))
        v0.append(cell_val(df, c))
        h0.append(column_has_present(df, c))
    kd = cell_kind(df, "date")
    vd = cell_val(df, "date")
    kh = cell_kind(df, "hour_of_day")
    vh = cell_val(df, "hour_of_day")
    if explicit:
        out = INTERPOLATE(df, columns=cols)        # how _HourlyData._interpolate calls it
    else:
        out = INTERPOLATE(df)                      # default column list
    check("C17.same_frame", is_same(out, df))
    i = 0
    for c in cols:
        k1 = cell_kind(out, c)
        v1 = cell_val(out, c)
        flag = cell_val(out, "interpolated_" + c)
        check("C17.keep." + c, implies(k0[i] != NAN, And(k1 == k0[i], implies(k0[i] == NUM, v1 == v0[i]))))
        check("C17.flag." + c, iff(flag, And(k0[i] == NAN, k1 != NAN)))
        check("C17.total." + c, implies(h0[i], k1 != NAN))
        i = i + 1
    check("C17.frame.other_columns", And(cell_kind(out, "date") == kd, implies(kd == NUM, cell_val(out, "date") == vd),
                                         cell_kind(out, "hour_of_day") == kh, implies(kh == NUM, cell_val(out, "hour_of_day") == vh)))
    cover("C17.cover.filled", And(k0[0] == NAN, cell_kind(out, "temperature") == NUM))
    cover("C17.cover.left_missing", And(k0[1] == NAN, cell_kind(out, "observed") == NAN))


@harness("C17.interpolate.preflagged", prop="C17")
def interpolate_preflagged():
    """a column that already carries its interpolated_ flag is left alone (the second call of _interpolate on a prepared frame)"""
    df = row_frame(["temperature", "observed", "interpolated_temperature"])
    kt = cell_kind(df, "temperature")
    vt = cell_val(df, "temperature")
    kf = cell_kind(df, "interpolated_temperature")
    vf = cell_val(df, "interpolated_temperature")
    out = INTERPOLATE(df, columns=["temperature", "observed"])
    check("C17.preflagged.untouched", And(cell_kind(out, "temperature") == kt, implies(kt == NUM, cell_val(out, "temperature") == vt),
                                          cell_kind(out, "interpolated_temperature") == kf,
                                          implies(kf == NUM, cell_val(out, "interpolated_temperature") == vf)))
