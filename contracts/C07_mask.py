"""C07 / C06 / C05 / C13 (daily part) -- DailyModel._predict on the row-wise model.

The real _predict, _initialize_data, _meter_segment and _predict_submodel are executed on ONE arbitrary row of
the input frame (symbolic temperature / observed cells with explicit NaN / +-inf tags, symbolic month and
weekday); a postcondition about that row holds for every row of every reporting frame.
"""
from pyvc.api import *  # noqa
from contracts.C11_curve import mk_submodel

USES = ["contracts.C11_curve"]

DM = repo("opendsm/eemeter/models/daily/model.py::DailyModel")
NUM = 0
NAN = 1

SEASON = {1: "winter", 2: "winter", 3: "shoulder", 4: "shoulder", 5: "shoulder", 6: "summer", 7: "summer", 8: "summer",
          9: "summer", 10: "shoulder", 11: "winter", 12: "winter"}
COMBO = {"su": "summer", "sh": "shoulder", "wi": "winter", "fw": [1, 2, 3, 4, 5, 6, 7], "wd": [1, 2, 3, 4, 5], "we": [6, 7]}
SPLITS = {
    "unsplit": ["fw-su_sh_wi"],
    "season": ["fw-su", "fw-sh_wi"],
    "weekday": ["wd-su_sh_wi", "we-su_sh_wi"],
    "mixed": ["fw-su", "wd-sh_wi", "we-sh_wi"],
}
CASES = [{"split": s, "with_observed": w} for s in SPLITS for w in [True, False]]


def model(split, b0: Real, b1: Real, c0: Real, c1: Real):
    subs = {}
    i = 0
    for key in SPLITS[split]:
        # an unsmoothed two-sided sub-model with symbolic slopes / base load per component
        subs[key] = mk_submodel("hdd_tidd_cdd", 50, b0 + i, 0, 65, b1 + i, 0, c0 + i, 0, 100, 10, 90, c1)
        i = i + 1
    params = new_object(None, submodels=subs)
    settings = new_object(None, season=new_object(None, _num_dict=SEASON))
    return new_object(DM, params=params, settings=settings, combo_dictionary=COMBO)


def run_predict(split, with_observed, b0, b1, c0, c1):
    cols = ["temperature", "observed"] if with_observed else ["temperature"]
    df = row_frame(cols)
    m = model(split, b0, b1, c0, c1)
    assume(And(b0 > 0, b1 > 0))
    res = m._predict(df)
    return [df, m, res]


@harness("C07.mask", prop="C07", cases=CASES)
def mask(split, with_observed, b0: Real, b1: Real, c0: Real, c1: Real):
    [df, m, res] = run_predict(split, with_observed, b0, b1, c0, c1)
    pk = cell_kind(res, "predicted")
    check("C07.row_kept", res.mult == 1)
    if with_observed:
        ok = cell_kind(res, "observed")
        # every row has either both a predicted and an observed value or neither
        check("C07.mask", iff(pk == NUM, ok == NUM))
        check("C07.nopred", implies(cell_kind(df, "observed") != NUM, pk != NUM))
        check("C07.masked_when_no_temperature", implies(cell_kind(df, "temperature") != NUM, ok != NUM))
        # a value that is reported is the value that was supplied
        check("C07.observed_unchanged", implies(ok == NUM, cell_val(res, "observed") == cell_val(df, "observed")))


@harness("C06.daily", prop="C06", cases=CASES)
def rows(split, with_observed, b0: Real, b1: Real, c0: Real, c1: Real):
    [df, m, res] = run_predict(split, with_observed, b0, b1, c0, c1)
    pk = cell_kind(res, "predicted")
    check("C06.daily.one_row_per_timestamp", res.mult == 1)
    check("C06.daily.chronological", res.sorted)
    # (_initialize_data adds its helper columns to the frame it is given; that frame is the data object's COPY --
    #  the call-site obligation lives in C02)
    tk = cell_kind(df, "temperature")
    if with_observed:
        check("C06.daily.finite", iff(pk == NUM, And(tk == NUM, cell_kind(df, "observed") == NUM)))
    else:
        check("C06.daily.finite", iff(pk == NUM, tk == NUM))
    check("C06.daily.temperature_kept", implies(tk == NUM, cell_val(res, "temperature") == cell_val(df, "temperature")))


@harness("C05.daily", prop="C05", cases=[c for c in CASES if c["with_observed"]])
def independent(split, with_observed, b0: Real, b1: Real, c0: Real, c1: Real):
    """Non-interference by self-composition: the real _predict is executed on TWO frames that agree on everything but
    the observed cell (independent value and NaN/inf tag); whenever both runs produce a prediction for the row, every
    model output is identical.  (All pairs of paths of the two runs are explored.)"""
    [df, m, res] = run_predict(split, with_observed, b0, b1, c0, c1)
    df2 = row_twin(df, ["observed"])
    res2 = m._predict(df2)
    both = And(cell_kind(res, "predicted") == NUM, cell_kind(res2, "predicted") == NUM)
    for col in ["predicted", "predicted_unc", "heating_load", "cooling_load", "model_split"]:
        check("C05.daily." + col, implies(both, cell_val(res, col) == cell_val(res2, col)))
    # and omitting the usage column altogether gives the same values as any usage that lets the row be predicted
    df3 = row_frame_drop(df, "observed")
    res3 = m._predict(df3)
    both3 = And(cell_kind(res, "predicted") == NUM, cell_kind(res3, "predicted") == NUM)
    for col in ["predicted", "heating_load", "cooling_load"]:
        check("C05.daily.absent." + col, implies(both3, cell_val(res, col) == cell_val(res3, col)))


@harness("C13.route", prop="C13", cases=[{"split": s, "with_observed": True} for s in SPLITS])
def route(split, with_observed, b0: Real, b1: Real, c0: Real, c1: Real):
    [df, m, res] = run_predict(split, with_observed, b0, b1, c0, c1)
    pk = cell_kind(res, "predicted")
    month = cell_val_month(df)
    dow = cell_val_dow(df)
    # predicted rows carry the split name of the unique component whose (season, day type) cell contains them
    for key in SPLITS[split]:
        seasons = [COMBO[s] for s in key[3:].split("_")]
        days = COMBO[key[:2]]
        in_season = Or(*[And(month == mth, True) for mth in SEASON if SEASON[mth] in seasons])
        in_days = Or(*[dow + 1 == d for d in days])
        check("C13.route." + key, implies(pk == NUM, iff(cell_val(res, "model_split") == string(key), And(in_season, in_days))))
