#!/bin/sh
# Offline: install the verifier-side dependencies next to the checks (never into /venv or /repo).
set -e
cd "$(dirname "$0")"
if [ ! -f .overlay/.ok ]; then
  rm -rf .overlay
  PIP_NO_INDEX=1 /venv/bin/python -m pip install --quiet --no-index --disable-pip-version-check \
      --find-links /opt/veriftools/wheels --target .overlay z3-solver icontract deal jsonschema >/dev/null
  touch .overlay/.ok
fi
PYTHONPATH=.overlay /venv/bin/python -c "import z3, icontract, deal, jsonschema; print('overlay ok: z3', z3.get_version_string())"
