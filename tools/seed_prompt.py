#!/venv/bin/python
"""Write the prompt handed to a seeding sub-agent: the text of ONE property and the path of its scratch worktree, nothing from /verif's
machinery.  The titles of changes earlier agents already proposed for the property are listed (they are the agents' own words) so that a
new round looks for something different.   usage: tools/seed_prompt.py Cnn <worktree> [n_changes]"""
import json, os, sys
V = os.path.dirname(os.path.dirname(os.path.abspath(__file__)))
pid, wt = sys.argv[1], sys.argv[2]
n = int(sys.argv[3]) if len(sys.argv) > 3 else 3
prop = next(json.loads(l) for l in open(os.path.join(V, "properties.jsonl")) if json.loads(l)["id"] == pid)
taken = []
for d in sorted(os.listdir(os.path.join(V, "seeded"))):
    if d.startswith(pid + "-"):
        try:
            taken.append(json.load(open(os.path.join(V, "seeded", d, "meta.json"))).get("title", d))
        except Exception:
            taken.append(d)
print(f"""You are helping to evaluate a verification effort for the Python library openeemeter/eemeter (package `opendsm`, sub-package
`opendsm.eemeter`: CalTRACK daily, billing and hourly energy baseline models on pandas / scikit-learn). You have your own scratch git
worktree of the repository at {wt} (work ONLY there; never touch /repo or /verif, and do not read anything under /verif). The interpreter is
/venv/bin/python; run things with `cd {wt} && NUMBA_CACHE_DIR={wt}/.numba_cache PYTHONPATH={wt} /venv/bin/python ...` so that the worktree's
`opendsm` is the one imported (check `opendsm.__file__`). There is no network.

The property under study (id {pid}):

TITLE: {prop['title']}
STATEMENT: {prop['statement']}
QUANTIFIER: {prop['quantifier']}
WHY TESTS CANNOT SETTLE IT: {prop['why_tests_cant']}
CODE ANCHORS: {json.dumps(prop['anchors'])}

YOUR TASK: write {n} DIFFERENT realistic changes to the library's source (under {wt}/opendsm), each of which BREAKS this property while
the package still imports and the existing test suite still passes exactly as before. Think of the kind of change a well-meaning
maintainer could make (a refactor, an optimisation, a cache, a "simplification", a changed default, a reordered step, an off-by-one at a
boundary, a helper reused in the wrong place) -- not sabotage that any use would expose at once. Each change must need something SPECIFIC
to manifest: an unusual but legitimate input, a multi-step sequence of operations, a particular history of earlier calls, two cooperating
sites that each look fine alone, a boundary value, a particular timezone / date, a particular settings combination. Prefer changes in
different functions / layers for the {n} changes (entry point, helper, data class, stored representation, a dependency's argument).
Changes already proposed by earlier rounds for this property (find something DIFFERENT from these):
""" + "".join(f"  - {t}\n" for t in taken) + f"""
For EACH change produce a directory {wt}/seeded_out/<short-kebab-name>/ containing:
  patch.diff  -- `git diff` of the change against the worktree's HEAD (paths relative to the repository root, applies with `git apply`);
                 source files under opendsm/ only, no test edits
  demo.py     -- a small self-contained program (run as `PYTHONPATH={wt} /venv/bin/python demo.py`) that exits 0 and prints PASS on the
                 unmodified tree and exits 1 printing FAIL with the change applied, demonstrating the property being broken (state in a
                 comment which clause of the property it shows)
  meta.json   -- {{"property": "{pid}", "title": one line, "what_it_breaks": ..., "needs_to_manifest": ..., "files_changed": [...],
                 "ran": [the exact commands you ran and what they printed, in order]}}

Procedure you must follow and report in meta.json "ran":
  1. On the unmodified worktree run the suite ONCE and keep the set of passing test ids:
     cd {wt} && NUMBA_CACHE_DIR={wt}/.numba_cache /venv/bin/python -m pytest -q -p no:cacheprovider --timeout=900 --continue-on-collection-errors --no-cov --junitxml={wt}/seeded_out/base.xml
     (drop --no-cov if it is rejected; some tests fail or error in this sandbox for want of data files / network: that is expected, only
     the set of PASSING ids matters; the suite takes several minutes, use up to 8 processes only if pytest-xdist happens to be installed).
  2. For each change: apply it, run the suite the same way, confirm that every test that passed before still passes; run demo.py (must FAIL);
     `git stash` / `git checkout -- .` back to the unmodified tree and run demo.py again (must PASS). Save patch.diff BEFORE reverting.
  3. Leave the worktree clean (git checkout -- . ; no stray files outside seeded_out/ and .numba_cache/).
If, while reading the code, you notice that the UNMODIFIED tree already breaks the property for some input, say so in a file
{wt}/seeded_out/NOTES.md with the concrete input -- that is valuable -- but your {n} changes must break it in a way HEAD does not.
Do not write anything outside {wt}. Finish with a short summary listing the directories you produced.
""")
