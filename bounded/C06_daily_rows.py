"""Bounded part of C06 for the daily / billing models: the real _predict returns exactly the input index, in order, with
predicted finite exactly on rows with a finite temperature (and usage, when supplied) -- the same enumerated frames as
bounded/C07_mask.py (NaN / +-inf patterns), reported under C06."""
from bounded import C07_mask as base
from bounded.common import Bounded, load_known

MODULE = "bounded.C06_daily_rows"
replay = base.replay


def run(tier="quick", seed=0):
    r = base.run(tier, seed)
    b = Bounded("C06", "C06.daily.rows", MODULE, r["rule"], known_findings=load_known("C06"))
    # re-run the cases under this property's name so that replay files belong to C06
    import itertools
    import numpy as np
    rng = np.random.default_rng(seed)
    tpat = list(itertools.product(base.VALUES_T, repeat=3))
    opat = list(itertools.product(base.VALUES_O, repeat=3)) + [None]
    combos = [(t, o) for t in tpat for o in opat]
    sel = rng.choice(len(combos), size=(150 if tier == "quick" else len(combos)), replace=False)
    for fam, shape, split in (("daily", "hdd_tidd", "unsplit"), ("billing", "tidd_cdd", "season2"), ("daily", "tidd", "unsplit")):
        for i in sel:
            t, o = combos[i]
            case = {"family": fam, "shape": shape, "split": split, "T": list(t), "O": None if o is None else list(o)}
            try:
                res = replay(case)
            except Exception as e:  # noqa
                res = {"ok": False, "problems": [f"exception {type(e).__name__}: {e}"]}
            b.case("C06.daily.rows", case, res["ok"], nontrivial_key=(fam, shape, tuple(t), None if o is None else tuple(o)), detail=res["problems"])
    return b.result()
