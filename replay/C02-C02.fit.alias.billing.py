#!/venv/bin/python
"""Flow obligation C02.fit.alias.billing (engine B) failed; a static may-analysis gives no input.
self attribute aliases the data object's and is mutated: [(alias@opendsm/eemeter/models/daily/model.py::DailyModel.fit:177 on ['alias:self.disqualification=param:baseline_data.disqualification'], method@opendsm/eemeter/models/daily/model.py::DailyModel.fit:189 on ['self.disqualification'])]
"""
print("self attribute aliases the data object's and is mutated: [(alias@opendsm/eemeter/models/daily/model.py::DailyModel.fit:177 on ['alias:self.disqualification=param:baseline_data.disqualification'], method@opendsm/eemeter/models/daily/model.py::DailyModel.fit:189 on ['self.disqualification'])]")
import sys; sys.exit(1)
