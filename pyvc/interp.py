"""The symbolic Python interpreter (statements, expressions, calls, classes)."""
from __future__ import annotations

import ast
import operator

import z3

from . import libmodels
from . import pdagg  # noqa: F401  (registers the aggregate model)
from . import sortedindex  # noqa: F401  (registers the sorted-index model)
from . import rowwise  # noqa: F401  (registers the row-wise model)
from .engine import Run, _Break, _Continue, _Return
from .values import (SArr, UNDEF, MaybeUnbound, PathDead, SBoundLib, SClass, SEnumMember, SExcClass, SFunc, SIdx, SLogger, SLoggerMethod,
                     SLib, SObj, SOpaque, SSel, SSeq, SStr, SVec, SymRaise, Undefined, Unsupported,
                     is_num, is_z3, to_fraction, to_real, to_z3)

BUILTIN_EXC = {
    "Exception": (), "ValueError": ("Exception",), "TypeError": ("Exception",), "KeyError": ("LookupError", "Exception"),
    "IndexError": ("LookupError", "Exception"), "LookupError": ("Exception",), "RuntimeError": ("Exception",),
    "AttributeError": ("Exception",), "NotImplementedError": ("RuntimeError", "Exception"),
    "ZeroDivisionError": ("ArithmeticError", "Exception"), "ArithmeticError": ("Exception",),
    "AssertionError": ("Exception",), "NameError": ("Exception",), "UnboundLocalError": ("NameError", "Exception"),
    "StopIteration": ("Exception",), "ImportError": ("Exception",), "OverflowError": ("ArithmeticError", "Exception"),
}


class Frame:
    def __init__(self, module, func=None, parent=None):
        self.module = module
        self.func = func
        self.parent = parent  # lexically enclosing frame (closures)
        self.locals = {}
        self.globals_decl = set()
        self.cls_ctx = None


class Interp:
    def __init__(self, world, run: Run, config=None):
        self.world = world
        self.run = run
        self.config = config or {}
        self.contracts = self.config.get("contracts", {})   # target -> contract spec (modular calls)
        self.opaques = self.config.get("opaques", {})        # target -> SFunc effect in the sidecar, or None
        self.forbidden = self.config.get("forbidden", set())
        self.depth = 0
        self.call_stack = []
        self.const_cache = {}

    # ================================================================ names
    def lookup(self, name, frame, node=None):
        f = frame
        while f is not None:
            if name in f.locals:
                v = f.locals[name]
                if isinstance(v, MaybeUnbound):
                    self.run.check(f"safety.defined[{name}@{self.where(frame)}]", False, kind="safety",
                                   loc=frame.module.loc(node) if node is not None else "")
                    raise Unsupported(f"read of '{name}' which may be unbound or stale from another loop iteration", node)
                return v
            f = f.parent
        return self.global_lookup(name, frame.module, node)

    def global_lookup(self, name, module, node=None):
        key = (module.path, name)
        if key in self.const_cache:
            return self.const_cache[key]
        ent = module.names.get(name)
        if ent is None:
            for star in module.star_imports:
                sm = self.world.module_by_dotted(star)
                if sm is not None and (name in sm.names or any(True for _ in sm.star_imports)):
                    try:
                        v = self.global_lookup(name, sm, node)
                        self.const_cache[key] = v
                        return v
                    except Unsupported:
                        pass
            api = libmodels.API.get(name)
            if api is not None and not module.is_repo:
                return api
            if name in libmodels.BUILTINS:
                return libmodels.BUILTINS[name]
            if name in BUILTIN_EXC:
                return SExcClass(name, BUILTIN_EXC[name])
            raise Unsupported(f"unknown name '{name}' in {module.relpath}", node)
        kind, payload = ent
        if kind == "func":
            self.world.note_function(module, payload, name)
            v = SFunc(module, payload, name)
        elif kind == "class":
            v = self.make_class(module, payload, name)
        elif kind == "import":
            m = self.world.module_by_dotted(payload)
            v = ("module", m) if m is not None else SLib(payload)
        elif kind == "importfrom":
            mod, nm = payload
            m = self.world.module_by_dotted(mod)
            sub = self.world.module_by_dotted(mod + "." + nm)
            if m is not None and (nm in m.names or sub is None):
                v = self.global_lookup(nm, m, node)
            elif sub is not None:
                v = ("module", sub)
            else:
                sub = self.world.module_by_dotted(mod + "." + nm)
                if sub is not None:
                    v = ("module", sub)
                elif mod == "pyvc.api":
                    v = libmodels.API.get(nm)
                    if v is None:
                        raise Unsupported(f"unknown pyvc.api name {nm}", node)
                else:
                    v = SLib(mod + "." + nm)
        elif kind in ("assign", "assign_unpack"):
            v = self.module_constant(module, name, payload, node)
        else:
            raise Unsupported(f"cannot resolve global '{name}'", node)
        self.const_cache[key] = v
        return v

    def module_constant(self, module, name, payload, node):
        """Module-level constants: literal displays are evaluated from the AST; anything else is read from the
        imported module at run time and recorded as an assumption (value fixed at import)."""
        if isinstance(payload, ast.AST) and not isinstance(payload, ast.Assign):
            try:
                return ast.literal_eval(payload)
            except Exception:
                pass
            if not module.is_repo:
                fr = Frame(module)
                return self.eval(payload, fr)
        if module.is_repo:
            import importlib
            m = importlib.import_module(module.modname)
            v = getattr(m, name)
            lifted = libmodels.lift_native_constant(v)
            self.run.assumptions.add(f"module constant {module.modname}.{name} = {v!r} read from the imported module")
            return lifted
        raise Unsupported(f"module-level name '{name}' is not a literal", node)

    def make_class(self, module, node, qualname):
        c = self.world.get_class(module, node, qualname)
        if c._members is None:
            c._members = {}
            base_names = [self._base_name(b) for b in node.bases]
            c.base_names = base_names
            c.str_enum = "Enum" in base_names and "str" in base_names
            c.is_enum = "Enum" in base_names
            c.is_exception = False
            if c.is_enum:
                for st in node.body:
                    if isinstance(st, ast.Assign) and len(st.targets) == 1 and isinstance(st.targets[0], ast.Name):
                        try:
                            val = ast.literal_eval(st.value)
                        except Exception:
                            continue
                        c._members[st.targets[0].id] = SEnumMember(c, st.targets[0].id, val)
        return c

    @staticmethod
    def _base_name(b):
        if isinstance(b, ast.Name):
            return b.id
        if isinstance(b, ast.Attribute):
            return b.attr
        return "?"

    def class_bases(self, cls):
        out = []
        for b in cls.node.bases:
            try:
                v = self.eval(b, Frame(cls.module))
            except Unsupported:
                v = None
            if isinstance(v, (SClass, SExcClass)):
                out.append(v)
        return out

    def exc_bases(self, cls):
        """names of all bases of an exception class (repo class or builtin)"""
        if isinstance(cls, SExcClass):
            return (cls.name,) + tuple(cls.bases)
        names = [cls.qualname]
        for b in self.class_bases(cls):
            names.extend(self.exc_bases(b))
        return tuple(names)

    def find_method(self, cls, name):
        """MRO-lite lookup (depth-first, left to right) over classes whose source the engine reads."""
        for st in cls.node.body:
            if isinstance(st, (ast.FunctionDef,)) and st.name == name:
                self.world.note_function(cls.module, st, f"{cls.qualname}.{name}")
                return SFunc(cls.module, st, f"{cls.qualname}.{name}", owner=cls)
        for b in self.class_bases(cls):
            if isinstance(b, SClass):
                m = self.find_method(b, name)
                if m is not None:
                    return m
        return None

    def ctor_assigned(self, cls):
        """names assigned to `self` in __init__ / model_post_init / __post_init__ of the class and its bases"""
        cache = self.__dict__.setdefault("_ctor_assigned", {})
        key = id(cls)
        if key not in cache:
            names = set()
            for st in cls.node.body:
                if isinstance(st, ast.FunctionDef) and st.name in ("__init__", "model_post_init", "__post_init__") and st.args.args:
                    me = st.args.args[0].arg
                    for n in ast.walk(st):
                        if isinstance(n, ast.Attribute) and isinstance(n.ctx, ast.Store) and isinstance(n.value, ast.Name) and n.value.id == me:
                            names.add(n.attr)
            for b in self.class_bases(cls):
                if isinstance(b, SClass):
                    names |= self.ctor_assigned(b)
            cache[key] = names
        return cache[key]

    def find_class_attr(self, cls, name):
        for st in cls.node.body:
            if isinstance(st, ast.Assign):
                for t in st.targets:
                    if isinstance(t, ast.Name) and t.id == name:
                        return True, self.eval(st.value, self._class_frame(cls))
            if isinstance(st, ast.AnnAssign) and isinstance(st.target, ast.Name) and st.target.id == name and st.value is not None:
                return True, self.eval(st.value, self._class_frame(cls))
        for b in self.class_bases(cls):
            if isinstance(b, SClass):
                ok, v = self.find_class_attr(b, name)
                if ok:
                    return ok, v
        return False, None

    def _class_frame(self, cls):
        return Frame(cls.module)

    @staticmethod
    def decorators(fnode):
        out = []
        for d in fnode.decorator_list:
            n = d.func if isinstance(d, ast.Call) else d
            if isinstance(n, ast.Attribute):
                out.append(n.attr)
            elif isinstance(n, ast.Name):
                out.append(n.id)
        return out

    # ================================================================ statements
    def exec_block(self, stmts, frame):
        for st in stmts:
            self.exec_stmt(st, frame)

    def exec_stmt(self, st, frame):
        m = getattr(self, "s_" + type(st).__name__, None)
        if m is None:
            raise Unsupported(f"statement {type(st).__name__}", st, frame.module.loc(st))
        try:
            return m(st, frame)
        except Unsupported as e:
            if e.where is None:
                e.where = frame.module.loc(e.node if e.node is not None and hasattr(e.node, "lineno") else st)
            raise

    def s_Expr(self, st, frame):
        if isinstance(st.value, ast.Constant):
            return  # docstring / bare literal
        if isinstance(st.value, ast.Call) and isinstance(st.value.func, ast.Name) and st.value.func.id == "print":
            return
        self.eval(st.value, frame)

    def s_Pass(self, st, frame):
        pass

    def s_Import(self, st, frame):
        for a in st.names:
            nm = a.asname or a.name.split(".")[0]
            m = self.world.module_by_dotted(a.name)
            frame.locals[nm] = ("module", m) if m is not None else SLib(a.name if a.asname else a.name.split(".")[0])

    def s_ImportFrom(self, st, frame):
        for a in st.names:
            m = self.world.module_by_dotted(st.module or "")
            if m is not None:
                frame.locals[a.asname or a.name] = self.global_lookup(a.name, m, st)
            else:
                frame.locals[a.asname or a.name] = SLib(f"{st.module}.{a.name}")

    def s_Global(self, st, frame):
        raise Unsupported("global statement", st)

    def s_Assign(self, st, frame):
        v = self.eval(st.value, frame)
        for t in st.targets:
            self.assign(t, v, frame)

    def s_AnnAssign(self, st, frame):
        if st.value is not None:
            self.assign(st.target, self.eval(st.value, frame), frame)

    def s_AugAssign(self, st, frame):
        cur = self.eval(_as_load(st.target), frame)
        rhs = self.eval(st.value, frame)
        if isinstance(cur, list) and isinstance(st.op, ast.Add):
            cur.extend(rhs)  # in place
            return
        v = self.binop(st.op, cur, rhs, st, frame)
        self.assign(st.target, v, frame)

    def s_Return(self, st, frame):
        raise _Return(self.eval(st.value, frame) if st.value is not None else None)

    def s_Break(self, st, frame):
        raise _Break()

    def s_Continue(self, st, frame):
        raise _Continue()

    def s_Delete(self, st, frame):
        for t in st.targets:
            if isinstance(t, ast.Name):
                frame.locals.pop(t.id, None)
            elif isinstance(t, ast.Subscript):
                base = self.eval(t.value, frame)
                key = self.eval(t.slice, frame)
                if isinstance(base, dict) and not is_z3(key):
                    del base[key]
                else:
                    libmodels.del_item(self, base, key, t)
            else:
                raise Unsupported("del target", st)

    def s_FunctionDef(self, st, frame):
        qual = (frame.func.qualname + "." if frame.func is not None else "") + st.name
        if frame.module.is_repo:
            self.world.note_function(frame.module, st, qual)
        frame.locals[st.name] = SFunc(frame.module, st, qual, closure=frame)

    def s_ClassDef(self, st, frame):
        raise Unsupported("nested class definition", st)

    def s_Assert(self, st, frame):
        c = self.truth(self.eval(st.test, frame), st)
        if not self.run.branch(c):
            e = SymRaise("AssertionError", node=st, bases=("AssertionError", "Exception"))
            e.code_assertion = f"{frame.module.relpath}:{getattr(st, 'lineno', '?')}" if frame.module.is_repo else None
            raise e

    def s_If(self, st, frame):
        c = self.truth(self.eval_test(st.test, frame), st.test)
        if self.run.branch(c):
            self.exec_block(st.body, frame)
        else:
            self.exec_block(st.orelse, frame)

    def s_Raise(self, st, frame):
        if st.exc is None:
            exc = frame.locals.get("__active_exc__")
            if exc is None:
                raise Unsupported("bare raise outside handler", st)
            raise exc
        v = self.eval_exc(st.exc, frame)
        raise v

    def eval_exc(self, node, frame):
        """Evaluate the operand of `raise`; message arguments (f-strings) are not evaluated."""
        target = node.func if isinstance(node, ast.Call) else node
        cls = self.eval(target, frame)
        if isinstance(cls, SExcClass):
            return SymRaise(cls.name, node=node, bases=(cls.name,) + cls.bases)
        if isinstance(cls, SClass):
            return SymRaise(cls.qualname, node=node, bases=self.exc_bases(cls))
        raise Unsupported("raise of a non-class value", node)

    def s_Try(self, st, frame):
        try:
            self.exec_block(st.body, frame)
        except SymRaise as e:
            handled = False
            for h in st.handlers:
                if self.handler_matches(h, e, frame):
                    handled = True
                    if h.name:
                        frame.locals[h.name] = SOpaque(f"exception {e.exc_name}")
                    saved = frame.locals.get("__active_exc__")
                    frame.locals["__active_exc__"] = e
                    try:
                        try:
                            self.exec_block(h.body, frame)
                        finally:
                            frame.locals["__active_exc__"] = saved
                    except BaseException:
                        self._finally(st, frame)
                        raise
                    break
            if not handled:
                self._finally(st, frame)
                raise
            self._finally(st, frame)
            return
        except (_Return, _Break, _Continue):
            self._finally(st, frame)
            raise
        # no exception
        try:
            self.exec_block(st.orelse, frame)
        except BaseException:
            self._finally(st, frame)
            raise
        self._finally(st, frame)

    def _finally(self, st, frame):
        if st.finalbody:
            self.exec_block(st.finalbody, frame)

    def handler_matches(self, h, e, frame):
        if h.type is None:
            return True
        t = self.eval(h.type, frame)
        ts = t if isinstance(t, (tuple, list)) else [t]
        for c in ts:
            name = c.name if isinstance(c, SExcClass) else getattr(c, "qualname", None)
            if name in e.bases or name == e.exc_name or name in ("Exception", "BaseException"):
                return True
        return False

    def s_With(self, st, frame):
        raise Unsupported("with statement", st)

    def s_While(self, st, frame):
        raise Unsupported("while loop (no invariant support for while)", st)

    def s_For(self, st, frame):
        it = self.eval(st.iter, frame)
        inv = self.config.get("invariants", {}).get((frame.module.relpath, st.lineno))
        if isinstance(it, _MapIter):
            return self.map_loop(st, it, frame)
        if isinstance(it, SVec):
            return self.map_loop(st, _MapIter(it, False), frame)
        if isinstance(it, _SeqIter) or isinstance(it, SSeq):
            return libmodels.seq_loop(self, st, it, frame)
        if isinstance(it, dict):
            it = list(it.keys())
        if isinstance(it, (range, list, tuple, zip, enumerate)) or hasattr(it, "__iter__") and not is_z3(it) and not isinstance(it, (str, SOpaque)):
            items = list(it)
            if len(items) > 5000:
                raise Unsupported("static loop too long", st)
            broke = False
            for item in items:
                self.assign(st.target, item, frame)
                try:
                    self.exec_block(st.body, frame)
                except _Break:
                    broke = True
                    break
                except _Continue:
                    continue
            if not broke:
                self.exec_block(st.orelse, frame)
            return
        raise Unsupported(f"for loop over {type(it).__name__}", st)

    def map_loop(self, st, it, frame):
        """Element-wise loop over a vector: the body is executed once, at the arbitrary index
        (DESIGN §3.1 'map loops').  Locals assigned in the body are havocked first."""
        vec = it.vec
        assigned = _assigned_names(st.body)
        tgt_names = _assigned_names([ast.Assign(targets=[st.target], value=ast.Constant(0))])
        for nm in assigned - tgt_names:
            cur = frame.locals.get(nm, None)
            if isinstance(cur, SVec):
                continue  # output arrays keep their identity
            frame.locals[nm] = MaybeUnbound(nm)
        idx = _LoopIndex()
        frame.locals.setdefault("__loop_idx__", [])
        frame.locals["__loop_idx__"].append(idx)
        try:
            if it.enumerated:
                self.assign(st.target, (idx, vec.elem), frame)
            else:
                self.assign(st.target, vec.elem, frame)
            try:
                self.exec_block(st.body, frame)
            except _Continue:
                pass    # the rest of the body is skipped for THIS element; the other elements are unaffected
            except _Break:
                raise Unsupported("break inside an element-wise loop", st)
        finally:
            frame.locals["__loop_idx__"].pop()
        if st.orelse:
            raise Unsupported("for-else on element-wise loop", st)
        for nm in assigned | tgt_names:
            cur = frame.locals.get(nm, None)
            if isinstance(cur, SVec):
                continue
            frame.locals[nm] = MaybeUnbound(nm)

    # ---------------------------------------------------------------- assignment
    def assign(self, target, value, frame):
        if isinstance(target, ast.Name):
            frame.locals[target.id] = value
        elif isinstance(target, (ast.Tuple, ast.List)):
            vals = self.unpack(value, len(target.elts), target)
            for t, v in zip(target.elts, vals):
                self.assign(t, v, frame)
        elif isinstance(target, ast.Attribute):
            obj = self.eval(target.value, frame)
            self.set_attr(obj, target.attr, value, target, frame)
        elif isinstance(target, ast.Subscript):
            base = self.eval(target.value, frame)
            self.set_item(base, target.slice, value, target, frame)
        elif isinstance(target, ast.Starred):
            raise Unsupported("starred assignment target", target)
        else:
            raise Unsupported(f"assignment target {type(target).__name__}", target)

    def unpack(self, value, n, node):
        if isinstance(value, (list, tuple)):
            if len(value) != n:
                raise SymRaise("ValueError", "unpack length", node, ("ValueError", "Exception"))
            return list(value)
        if isinstance(value, _Tuple2):
            return list(value.items)
        raise Unsupported(f"cannot unpack {type(value).__name__} into {n} targets", node)

    def set_attr(self, obj, name, value, node, frame):
        if isinstance(obj, SObj):
            obj.attrs[name] = value
            obj.written.add(name)
            return
        if isinstance(obj, SOpaque):
            handler = libmodels.OPAQUE_SETATTR
            handler(self, obj, name, value, node)
            return
        if hasattr(obj, "sym_setattr"):
            return obj.sym_setattr(self, name, value, node)
        raise Unsupported(f"attribute store on {type(obj).__name__}", node)

    def set_item(self, base, slice_node, value, node, frame):
        if isinstance(base, SVec):
            key = self.eval(slice_node, frame)
            if isinstance(key, _LoopIndex):
                stack = frame.locals.get("__loop_idx__") or []
                if not stack or stack[-1] is not key:
                    raise Unsupported("vector write with a stale loop index", node)
                base.elem = value
                return
            if isinstance(key, SVec) and is_z3(key.elem) and z3.is_bool(key.elem):
                key = SIdx(key)          # v[mask] = ...: a boolean mask selects the positions np.argwhere(mask).flatten() lists
            if isinstance(key, SIdx):
                same_set = isinstance(value, SSel) and (value.idx is key or value.idx.mask is key.mask or
                                                        (is_z3(value.idx.mask.elem) and is_z3(key.mask.elem) and value.idx.mask.elem.eq(key.mask.elem)))
                if same_set:
                    newv = value.vec.elem
                elif isinstance(value, SSel):
                    raise Unsupported("fancy assignment between different index sets", node)
                elif isinstance(value, SVec):
                    raise Unsupported("fancy assignment of an unselected vector", node)
                else:
                    newv = value
                m = key.mask.elem
                base.elem = libmodels.ite(self, m, newv, base.elem)
                return
            raise Unsupported("vector element write outside an element-wise loop", node)
        key = self.eval(slice_node, frame)
        if isinstance(base, list):
            if isinstance(key, int):
                base[key] = value
                return
            if isinstance(key, tuple) and len(key) == 2 and all(isinstance(k, int) and not isinstance(k, bool) for k in key) and isinstance(base[key[0]], list):
                base[key[0]][key[1]] = value        # numpy-style a[i, j] = v on a list of rows
                return
            raise Unsupported("list store with symbolic index", node)
        if isinstance(base, dict):
            if is_z3(key) or isinstance(key, (SObj, SOpaque)):
                raise Unsupported("dict store with symbolic key", node)
            base[key] = value
            return
        if hasattr(base, "sym_setitem"):
            return base.sym_setitem(self, key, value, node)
        raise Unsupported(f"subscript store on {type(base).__name__}", node)

    # ================================================================ expressions
    def eval_test(self, node, frame):
        return self.eval(node, frame)

    def eval(self, node, frame):
        m = getattr(self, "e_" + type(node).__name__, None)
        if m is None:
            raise Unsupported(f"expression {type(node).__name__}", node, frame.module.loc(node))
        try:
            return m(node, frame)
        except Unsupported as e:
            if e.where is None:
                e.where = frame.module.loc(e.node if e.node is not None and hasattr(e.node, "lineno") else node)
            raise

    def e_Constant(self, node, frame):
        return node.value

    def e_Name(self, node, frame):
        return self.lookup(node.id, frame, node)

    def e_JoinedStr(self, node, frame):
        # f-strings only feed messages/descriptions: evaluated to a concrete string when every piece is concrete
        parts = []
        for v in node.values:
            if isinstance(v, ast.Constant):
                parts.append(str(v.value))
            else:
                try:
                    x = self.eval(v.value, frame)
                except (Unsupported, SymRaise):
                    x = None
                    parts.append("<?>")
                    continue
                if isinstance(x, SEnumMember):
                    x = f"{x.cls.qualname}.{x.name}"  # Enum.__format__ == str(member) since Python 3.12
                if isinstance(x, (str, int, float, bool)) or x is None:
                    if v.format_spec is not None:
                        parts.append("<fmt>")
                    else:
                        parts.append(str(x))
                else:
                    parts.append("<sym>")
        return "".join(parts)

    def e_Tuple(self, node, frame):
        return tuple(self._elts(node.elts, frame))

    def e_List(self, node, frame):
        return list(self._elts(node.elts, frame))

    def e_Set(self, node, frame):
        vals = self._elts(node.elts, frame)
        try:
            return set(vals)
        except TypeError:
            raise Unsupported("set of symbolic values", node)

    def _elts(self, elts, frame):
        out = []
        for e in elts:
            if isinstance(e, ast.Starred):
                v = self.eval(e.value, frame)
                if isinstance(v, (list, tuple)):
                    out.extend(v)
                elif isinstance(v, dict):
                    out.extend(v.keys())
                else:
                    raise Unsupported("star-unpack of a non-static sequence", e)
            else:
                out.append(self.eval(e, frame))
        return out

    def e_Dict(self, node, frame):
        d = {}
        for k, v in zip(node.keys, node.values):
            if k is None:
                src = self.eval(v, frame)
                if not isinstance(src, dict):
                    raise Unsupported("** of non-dict", node)
                d.update(src)
            else:
                kk = self.eval(k, frame)
                if is_z3(kk):
                    raise Unsupported("dict display with symbolic key", node)
                d[kk] = self.eval(v, frame)
        return d

    def e_Lambda(self, node, frame):
        return SFunc(frame.module, node, "<lambda>", closure=frame)

    def e_IfExp(self, node, frame):
        c = self.truth(self.eval(node.test, frame), node)
        if self.run.branch(c):
            return self.eval(node.body, frame)
        return self.eval(node.orelse, frame)

    def e_NamedExpr(self, node, frame):
        v = self.eval(node.value, frame)
        self.assign(node.target, v, frame)
        return v

    def e_Starred(self, node, frame):
        raise Unsupported("starred expression", node)

    def e_Attribute(self, node, frame):
        obj = self.eval(node.value, frame)
        return self.get_attr(obj, node.attr, node, frame)

    def e_Subscript(self, node, frame):
        base = self.eval(node.value, frame)
        if isinstance(node.slice, ast.Slice):
            lo = self.eval(node.slice.lower, frame) if node.slice.lower is not None else None
            hi = self.eval(node.slice.upper, frame) if node.slice.upper is not None else None
            step = self.eval(node.slice.step, frame) if node.slice.step is not None else None
            key = slice(lo, hi, step)
        else:
            key = self.eval(node.slice, frame)
        return self.get_item(base, key, node, frame)

    def e_UnaryOp(self, node, frame):
        v = self.eval(node.operand, frame)
        if isinstance(node.op, ast.Not):
            t = self.truth(v, node)
            return (not t) if isinstance(t, bool) else z3.Not(t)
        if isinstance(node.op, ast.USub):
            if isinstance(v, SVec):
                return SVec(self._neg(v.elem), v.length)
            return self._neg(v)
        if isinstance(node.op, ast.UAdd):
            return v
        if isinstance(node.op, ast.Invert):
            if isinstance(v, SVec):
                return SVec(_znot(v.elem), v.length)
            if hasattr(v, "sym_invert"):
                return v.sym_invert(self, node)
            if isinstance(v, bool) or z3.is_bool(v) if is_z3(v) else False:
                return _znot(v)
        raise Unsupported(f"unary {type(node.op).__name__} on {type(v).__name__}", node)

    @staticmethod
    def _neg(v):
        if is_z3(v):
            return -v
        if is_num(v):
            return -v
        raise Unsupported(f"negation of {type(v).__name__}")

    def e_BoolOp(self, node, frame):
        is_and = isinstance(node.op, ast.And)
        vals = node.values
        cur = self.eval(vals[0], frame)
        for nxt in vals[1:]:
            t = self.truth(cur, node)
            if isinstance(t, bool):
                if is_and and not t:
                    return cur
                if (not is_and) and t:
                    return cur
                cur = self.eval(nxt, frame)
                continue
            if _pure_simple(nxt):
                # no calls/divisions on the right: combine without forking
                self.run.guards.append(t if is_and else z3.Not(t))
                try:
                    r = self.truth(self.eval(nxt, frame), node)
                finally:
                    self.run.guards.pop()
                cur = z3.And(t, to_z3(r)) if is_and else z3.Or(t, to_z3(r))
                continue
            if self.run.branch(t):
                if is_and:
                    cur = self.eval(nxt, frame)
                else:
                    return cur
            else:
                if is_and:
                    return cur if not is_z3(cur) else False
                cur = self.eval(nxt, frame)
        return cur

    def e_Compare(self, node, frame):
        left = self.eval(node.left, frame)
        res = None
        for op, rn in zip(node.ops, node.comparators):
            right = self.eval(rn, frame)
            r = self.compare(op, left, right, node, frame)
            if res is None:
                res = r
            else:
                res = self._and(res, r)
            left = right
        return res

    def _and(self, a, b):
        if isinstance(a, SVec) or isinstance(b, SVec):
            ae = a.elem if isinstance(a, SVec) else a
            be = b.elem if isinstance(b, SVec) else b
            return SVec(self._and(ae, be))
        if isinstance(a, bool):
            return b if a else False
        if isinstance(b, bool):
            return a if b else False
        return z3.And(a, b)

    def e_BinOp(self, node, frame):
        l = self.eval(node.left, frame)
        r = self.eval(node.right, frame)
        return self.binop(node.op, l, r, node, frame)

    def e_ListComp(self, node, frame):
        if len(node.generators) == 1 and not node.generators[0].ifs:
            it = self.eval(node.generators[0].iter, frame)
            if getattr(it, "opaque_iteration", False):
                # a list built from the labels of a symbolic index: its length and elements are unknown; the element expression is
                # evaluated once on an opaque element so that anything unsupported inside it is still noticed
                sub = Frame(frame.module, frame.func, parent=frame)
                self.assign(node.generators[0].target, SOpaque("label of a symbolic index"), sub)
                self.eval(node.elt, sub)
                return SOpaque("list over a symbolic index")
            if isinstance(it, SSeq):
                # [f(x) for x in seq]: same length; f is evaluated once on an arbitrary element
                sub = Frame(frame.module, frame.func, parent=frame)
                elem = SOpaque(f"element of {it.label}")
                self.assign(node.generators[0].target, elem, sub)
                out = SSeq(it.base_len, label=f"map({it.label})")
                if self.run.branch(it.length() > 0):
                    out.template = self.eval(node.elt, sub)
                out.appended = [out.template for _ in it.appended] if it.appended else []
                return out
        out = []
        self._comp(node.generators, 0, frame, lambda fr: out.append(self.eval(node.elt, fr)))
        return out

    def e_GeneratorExp(self, node, frame):
        return self.e_ListComp(node, frame)

    def e_SetComp(self, node, frame):
        out = self.e_ListComp(node, frame)
        try:
            return set(out)
        except TypeError:
            raise Unsupported("set comprehension over symbolic values", node)

    def e_DictComp(self, node, frame):
        out = {}

        def add(fr):
            k = self.eval(node.key, fr)
            if is_z3(k):
                raise Unsupported("dict comprehension with symbolic key", node)
            out[k] = self.eval(node.value, fr)
        self._comp(node.generators, 0, frame, add)
        return out

    def _comp(self, gens, i, frame, emit):
        if i == len(gens):
            emit(frame)
            return
        g = gens[i]
        it = self.eval(g.iter, frame)
        if isinstance(it, dict):
            it = list(it.keys())
        if isinstance(it, (SVec, SSeq, SOpaque)) or is_z3(it):
            raise Unsupported("comprehension over a non-static iterable", g.iter)
        sub = Frame(frame.module, frame.func, parent=frame)
        for item in list(it):
            self.assign(g.target, item, sub)
            ok = True
            for cond in g.ifs:
                c = self.truth(self.eval(cond, sub), cond)
                if not self.run.branch(c):
                    ok = False
                    break
            if ok:
                self._comp(gens, i + 1, sub, emit)

    def e_Call(self, node, frame):
        if isinstance(node.func, ast.Name) and node.func.id == "super" and not node.args:
            f = frame
            while f is not None and (f.func is None or f.func.owner is None):
                f = f.parent
            if f is None:
                raise Unsupported("super() outside a method", node)
            params = [p.arg for p in f.func.node.args.args]
            return _Super(f.locals[params[0]], f.func.owner)
        fn = self.eval(node.func, frame)
        if isinstance(fn, SLoggerMethod):
            return self.call_log_sink(fn, node, frame)
        args = []
        for a in node.args:
            if isinstance(a, ast.Starred):
                v = self.eval(a.value, frame)
                if isinstance(v, (list, tuple)):
                    args.extend(v)
                else:
                    raise Unsupported("*args of a non-static sequence", a)
            else:
                args.append(self.eval(a, frame))
        kwargs = {}
        for k in node.keywords:
            if k.arg is None:
                v = self.eval(k.value, frame)
                if isinstance(v, dict):
                    kwargs.update(v)
                elif isinstance(v, SOpaque):
                    kwargs["**"] = v
                else:
                    raise Unsupported("**kwargs of a non-dict", node)
            else:
                kwargs[k.arg] = self.eval(k.value, frame)
        return self.call(fn, args, kwargs, node, frame)

    def call_log_sink(self, fn, node, frame):
        """logger.debug(...) / warnings.warn(...): the arguments are evaluated (an exception they raise is the program's), what cannot be
        evaluated symbolically is skipped -- a log record has no effect on the results"""
        for a in list(node.args) + [k.value for k in node.keywords]:
            try:
                self.eval(a.value if isinstance(a, ast.Starred) else a, frame)
            except Unsupported:
                self.run.assumptions.add("[log] an argument of a logging call was not evaluated (assumed free of side effects and exceptions)")
        if fn.name in ("isEnabledFor", "getEffectiveLevel", "hasHandlers"):
            return SOpaque(f"logger.{fn.name}()")
        if fn.name in ("getChild", "getLogger"):
            return SLogger()
        return None

    # ================================================================ operations
    def truth(self, v, node=None):
        if isinstance(v, bool):
            return v
        if v is None:
            return False
        if is_z3(v):
            if z3.is_bool(v):
                return v
            return v != 0
        if isinstance(v, (int, float, str, list, tuple, dict, set)):
            return bool(v)
        if isinstance(v, SSeq):
            return v.length() > 0
        if isinstance(v, SStr):
            return z3.Length(v.expr) > 0
        if isinstance(v, (SObj, SFunc, SClass, SEnumMember)):
            return True
        if hasattr(v, "sym_truth"):
            return v.sym_truth(self, node)
        if isinstance(v, SOpaque) and self.config.get("permissive"):
            if "__truth__" not in v.attrs:
                v.attrs["__truth__"] = self.run.fresh_bool(f"truth({v.label})")
            return v.attrs["__truth__"]
        raise Unsupported(f"truth value of {type(v).__name__}", node)

    def compare(self, op, l, r, node, frame=None):
        if isinstance(op, (ast.Is, ast.IsNot)):
            if l is None or r is None or isinstance(l, (bool,)) or isinstance(r, (bool,)):
                if is_z3(l) or is_z3(r):
                    same = False  # a symbolic number is never None
                else:
                    same = l is r
            elif isinstance(l, (SObj, SSeq, SOpaque, list, dict, SClass, SFunc)) or isinstance(r, (SObj, SSeq, SOpaque, list, dict, SClass, SFunc)):
                same = l is r
            elif isinstance(l, SEnumMember) and isinstance(r, SEnumMember):
                same = l == r
            elif not is_z3(l) and not is_z3(r) and not isinstance(l, (int, float, str, SStr, tuple)) and not isinstance(r, (int, float, str, SStr, tuple)):
                same = l is r           # two model objects (frames, series, indexes ...): reference identity, as in Python
            else:
                raise Unsupported("identity comparison of symbolic scalars", node)
            return same if isinstance(op, ast.Is) else not same
        if isinstance(op, (ast.In, ast.NotIn)):
            res = self.contains(r, l, node)
            if isinstance(op, ast.NotIn):
                res = (not res) if isinstance(res, bool) else z3.Not(res)
            return res
        if isinstance(l, SVec) or isinstance(r, SVec):
            le = l.elem if isinstance(l, SVec) else l
            re_ = r.elem if isinstance(r, SVec) else r
            return SVec(self.compare(op, le, re_, node, frame), (l if isinstance(l, SVec) else r).length)
        if (isinstance(l, SArr) or isinstance(r, SArr)) and not (isinstance(l, list) and isinstance(r, list) and isinstance(op, (ast.Eq, ast.NotEq)) and not (isinstance(l, SArr) and isinstance(r, SArr))):
            n = len(l) if isinstance(l, SArr) else len(r)
            la = list(l) if isinstance(l, (list, tuple)) else [l] * n
            ra = list(r) if isinstance(r, (list, tuple)) else [r] * n
            return SArr(self.compare(op, a, b, node, frame) for a, b in zip(la, ra))
        if isinstance(op, (ast.Eq, ast.NotEq)) and type(l) is type(r) and type(l) in (tuple, list) and any(is_z3(x) for x in list(l) + list(r)):
            # sequences with symbolic elements compare element by element (Python would compare the z3 TERMS structurally)
            if len(l) != len(r):
                same = False
            else:
                same = True
                for a, b in zip(l, r):
                    same = self._and(same, True if a is b else self.compare(ast.Eq(), a, b, node, frame))
            if isinstance(op, ast.Eq):
                return same
            return (not same) if isinstance(same, bool) else z3.Not(same)
        for side in (l, r):
            if hasattr(side, "sym_compare"):
                return side.sym_compare(self, op, l, r, node)
        if isinstance(l, SStr) or isinstance(r, SStr):
            le = l.expr if isinstance(l, SStr) else z3.StringVal(l) if isinstance(l, str) else None
            re_ = r.expr if isinstance(r, SStr) else z3.StringVal(r) if isinstance(r, str) else None
            if le is None or re_ is None:
                if isinstance(op, ast.Eq):
                    return False
                if isinstance(op, ast.NotEq):
                    return True
                raise Unsupported("ordering of string and non-string", node)
            if isinstance(op, ast.Eq):
                return le == re_
            if isinstance(op, ast.NotEq):
                return le != re_
            raise Unsupported("ordering comparison of symbolic strings", node)
        if (is_z3(l) and isinstance(r, float) and r in (float("inf"), float("-inf"))) or (is_z3(r) and isinstance(l, float) and l in (float("inf"), float("-inf"))):
            # a real number against +-inf
            inf_left = isinstance(l, float)
            pos = (l if inf_left else r) > 0
            if isinstance(op, (ast.Eq, ast.NotEq)):
                return isinstance(op, ast.NotEq)
            less = isinstance(op, (ast.Lt, ast.LtE))  # "x < inf"
            if inf_left:
                less = not less                       # "inf < x"  <=>  "x > inf"
            return (less and pos) or (not less and not pos)
        if is_z3(l) or is_z3(r):
            if l is None or r is None or isinstance(l, str) or isinstance(r, str):
                if isinstance(op, ast.Eq):
                    return False
                if isinstance(op, ast.NotEq):
                    return True
                raise SymRaise("TypeError", "ordering with None/str", node, ("TypeError", "Exception"))
            a, b = to_z3(l), to_z3(r)
            if z3.is_bool(a) != z3.is_bool(b):
                a = z3.If(a, 1, 0) if z3.is_bool(a) else a
                b = z3.If(b, 1, 0) if z3.is_bool(b) else b
            fn = {ast.Eq: operator.eq, ast.NotEq: operator.ne, ast.Lt: operator.lt, ast.LtE: operator.le,
                  ast.Gt: operator.gt, ast.GtE: operator.ge}[type(op)]
            return fn(a, b)
        if isinstance(l, (SObj, SOpaque, SSeq)) or isinstance(r, (SObj, SOpaque, SSeq)):
            if isinstance(op, ast.Eq):
                if l is r:
                    return True
            if self.config.get("permissive") and (isinstance(l, SOpaque) or isinstance(r, SOpaque)):
                # comparison with an unknown value: an uninterpreted boolean, stable per operand pair
                key = ("cmp", type(op).__name__, id(l) if isinstance(l, (SOpaque, SObj)) else repr(l),
                       id(r) if isinstance(r, (SOpaque, SObj)) else repr(r))
                cache = self.run.__dict__.setdefault("_cmp_cache", {})
                if key not in cache:
                    cache[key] = self.run.fresh_bool("cmp")
                self.run.assumptions.add("[permissive] comparisons with unmodelled values are uninterpreted booleans")
                return cache[key]
            raise Unsupported(f"comparison of {type(l).__name__} and {type(r).__name__}", node)
        fn = {ast.Eq: operator.eq, ast.NotEq: operator.ne, ast.Lt: operator.lt, ast.LtE: operator.le,
              ast.Gt: operator.gt, ast.GtE: operator.ge}[type(op)]
        try:
            return bool(fn(l, r))
        except TypeError:
            raise SymRaise("TypeError", "unorderable", node, ("TypeError", "Exception"))

    def contains(self, container, item, node):
        if isinstance(container, (list, tuple, set, frozenset)):
            if is_z3(item) or isinstance(item, SStr):
                conds = [self.compare(ast.Eq(), item, c, node) for c in container]
                conds = [c for c in conds if c is not False]
                if any(c is True for c in conds):
                    return True
                return z3.Or(*[to_z3(c) for c in conds]) if conds else False
            if any(is_z3(c) for c in container):
                conds = [self.compare(ast.Eq(), item, c, node) for c in container]
                if any(c is True for c in conds):
                    return True
                conds = [c for c in conds if c is not False]
                return z3.Or(*[to_z3(c) for c in conds]) if conds else False
            for c in container:
                if c is item:
                    return True
                try:
                    if c == item:
                        return True
                except Exception:
                    pass
            return False
        if isinstance(container, dict):
            if is_z3(item):
                raise Unsupported("symbolic key membership", node)
            return item in container
        if isinstance(container, str):
            if isinstance(item, str):
                return item in container
            raise Unsupported("symbolic substring test", node)
        if hasattr(container, "sym_contains"):
            return container.sym_contains(self, item, node)
        raise Unsupported(f"membership in {type(container).__name__}", node)

    def binop(self, op, l, r, node, frame=None):
        if isinstance(l, SVec) or isinstance(r, SVec):
            le = l.elem if isinstance(l, SVec) else l
            re_ = r.elem if isinstance(r, SVec) else r
            if isinstance(le, Undefined) or isinstance(re_, Undefined):
                raise Unsupported("read of an unwritten vector element", node)
            ln = (l if isinstance(l, SVec) else r).length
            return SVec(self.binop(op, le, re_, node, frame), ln)
        if isinstance(l, SArr) or isinstance(r, SArr):
            n = len(l) if isinstance(l, SArr) else len(r)
            if isinstance(l, (list, tuple)) and isinstance(r, (list, tuple)) and len(l) != len(r):
                raise Unsupported("broadcast of arrays of different static length", node)
            la = list(l) if isinstance(l, (list, tuple)) else [l] * n
            ra = list(r) if isinstance(r, (list, tuple)) else [r] * n
            return SArr(self.binop(op, a, b, node, frame) for a, b in zip(la, ra))
        for side in (l, r):
            if hasattr(side, "sym_binop"):
                return side.sym_binop(self, op, l, r, node)
        if isinstance(op, (ast.BitAnd, ast.BitOr)) and (is_z3(l) or is_z3(r) or isinstance(l, bool) and isinstance(r, bool)):
            a, b = to_z3(l), to_z3(r)
            if z3.is_bool(a) and z3.is_bool(b):
                return z3.simplify(z3.And(a, b) if isinstance(op, ast.BitAnd) else z3.Or(a, b))
        INF = (float("inf"), float("-inf"))
        if (is_z3(l) or is_z3(r)) and ((isinstance(l, float) and l in INF) or (isinstance(r, float) and r in INF)):
            # extended reals: inf +/- finite
            if isinstance(op, ast.Add):
                return l if isinstance(l, float) else r
            if isinstance(op, ast.Sub):
                return l if isinstance(l, float) else -r
            raise Unsupported("arithmetic with an infinite constant other than +/-", node)
        if is_z3(l) or is_z3(r):
            if not (is_z3(l) or is_num(l) or isinstance(l, bool)) or not (is_z3(r) or is_num(r) or isinstance(r, bool)):
                raise Unsupported(f"arithmetic on {type(l).__name__} and {type(r).__name__}", node)
            a, b = to_z3(l), to_z3(r)
            if z3.is_bool(a):
                a = z3.If(a, 1, 0)
            if z3.is_bool(b):
                b = z3.If(b, 1, 0)
            if isinstance(op, ast.Add):
                return a + b
            if isinstance(op, ast.Sub):
                return a - b
            if isinstance(op, ast.Mult):
                return a * b
            if isinstance(op, ast.Div):
                self.safety_nonzero(b, node, frame)
                return to_real(a) / to_real(b)
            if isinstance(op, ast.Pow):
                if is_num(r) and to_fraction(r) == 2:
                    return a * a
                if is_num(r) and to_fraction(r) == 1:
                    return a
                if is_num(r) and to_fraction(r) == 3:
                    return a * a * a
                if is_num(r) and str(to_fraction(r)) == "1/2":
                    return libmodels.sym_sqrt(self, a, node, frame)
                raise Unsupported("symbolic power with exponent other than 1/2, 1, 2, 3", node)
            if isinstance(op, (ast.FloorDiv, ast.Mod)):
                if z3.is_int(a) and is_num(r) and isinstance(r, int) and r > 0:
                    return a / b if isinstance(op, ast.FloorDiv) else a % b
                raise Unsupported("floor division / modulo outside (Int, positive constant)", node)
            raise Unsupported(f"operator {type(op).__name__} on symbolic numbers", node)
        # concrete
        fn = {ast.Add: operator.add, ast.Sub: operator.sub, ast.Mult: operator.mul, ast.Div: operator.truediv,
              ast.Pow: operator.pow, ast.FloorDiv: operator.floordiv, ast.Mod: operator.mod,
              ast.BitAnd: operator.and_, ast.BitOr: operator.or_, ast.BitXor: operator.xor}.get(type(op))
        if fn is None:
            raise Unsupported(f"operator {type(op).__name__}", node)
        if isinstance(op, ast.Mod) and isinstance(l, str):
            raise Unsupported("string % formatting", node)
        try:
            return fn(l, r)
        except ZeroDivisionError:
            if frame is not None and not frame.module.is_repo:
                # sidecar spec text: a zero divisor under a guard (eager `ite`) denotes an unspecified value
                return self.run.fresh_real("div0")
            raise SymRaise("ZeroDivisionError", node=node, bases=("ZeroDivisionError", "ArithmeticError", "Exception"))
        except TypeError:
            raise Unsupported(f"operator {type(op).__name__} on {type(l).__name__}, {type(r).__name__}", node)

    def where(self, frame):
        """'relpath::qualname' of the function being executed (names of safety obligations: stable under
        edits that only move lines)"""
        if frame is None:
            return self.call_stack[-1] if self.call_stack else ""
        q = frame.func.qualname if frame.func is not None else "<module>"
        return f"{frame.module.relpath}::{q}"

    def safety_nonzero(self, b, node, frame):
        loc = frame.module.loc(node) if frame is not None else ""
        if frame is not None and not frame.module.is_repo:
            # divisions written in sidecar specs carry their own guards; a zero divisor there makes the
            # z3 term unspecified (any value), which can only make an obligation harder to prove
            return
        self.run.check(f"safety.div[{self.where(frame)}]", b != 0, kind="safety", loc=loc)

    # ---------------------------------------------------------------- attribute / item access
    def get_attr(self, obj, name, node, frame):
        if isinstance(obj, tuple) and len(obj) == 2 and obj[0] == "module":
            return self.global_lookup(name, obj[1], node)
        if isinstance(obj, SObj):
            if name in obj.attrs:
                v = obj.attrs[name]
                if isinstance(v, MaybeUnbound):
                    raise Unsupported(f"attribute {name} possibly unset", node)
                return v
            if obj.cls is not None:
                m = self.find_method(obj.cls, name)
                if m is not None:
                    decos = self.decorators(m.node)
                    if any(d in ("property", "cached_property", "computed_field", "computed_field_cached_property") for d in decos):
                        v = self.call_function(m.bind(obj), [], {}, node)
                        if "cached_property" in decos or "computed_field_cached_property" in decos:
                            obj.attrs[name] = v
                        return v
                    if "staticmethod" in decos:
                        return m
                    if "classmethod" in decos:
                        return m.bind(obj.cls)
                    return m.bind(obj)
                if getattr(obj, "ctor_bypassed", False) and name in self.ctor_assigned(obj.cls):
                    # the harness built this object without its constructor and did not supply an attribute the constructor computes (on THIS tree): the
                    # harness is incomplete for this code -- undecided, not an AttributeError / stale class default of the program
                    raise Unsupported(f"attribute '{name}' is assigned by the constructor of {obj.cls.qualname}, which the harness bypasses and does not supply", node)
                ok, v = self.find_class_attr(obj.cls, name)
                if ok:
                    return v
            hook = self.config.get("missing_attr")
            if hook is not None:
                return hook(self, obj, name, node)
            raise SymRaise("AttributeError", f"{obj!r}.{name}", node, ("AttributeError", "Exception"))
        if isinstance(obj, SClass):
            if getattr(obj, "is_enum", False) and name in obj._members:
                return obj._members[name]
            m = self.find_method(obj, name)
            if m is not None:
                decos = self.decorators(m.node)
                if "classmethod" in decos:
                    return m.bind(obj)
                return m
            ok, v = self.find_class_attr(obj, name)
            if ok:
                return v
            if name == "__name__":
                return obj.qualname.split(".")[-1]
            raise Unsupported(f"class attribute {obj.qualname}.{name}", node)
        if isinstance(obj, SEnumMember):
            if name == "value":
                return obj.value
            if name == "name":
                return obj.name
        if isinstance(obj, _Super):
            for b in self.class_bases(obj.cls):
                if isinstance(b, SClass):
                    m = self.find_method(b, name)
                    if m is not None:
                        decos = self.decorators(m.node)
                        if "classmethod" in decos:
                            return m.bind(obj.obj if isinstance(obj.obj, SClass) else obj.obj.cls)
                        if "staticmethod" in decos:
                            return m
                        return m.bind(obj.obj)
            raise Unsupported(f"super().{name} not found in the bases the engine reads", node)
        if isinstance(obj, SLib):
            d = obj.dotted + "." + name
            d2 = "numpy." + d[3:] if d.startswith("np.") else "pandas." + d[3:] if d.startswith("pd.") else d
            consts = getattr(libmodels, "LIB_CONSTANTS", {})
            if d2 in consts:
                return consts[d2]
            if d2 in ("logging.getLogger", "warnings.warn", "logging.debug", "logging.info", "logging.warning", "logging.error", "logging.exception",
                      "logging.critical", "logging.log", "warnings.warn_explicit"):
                return SLoggerMethod(name)
            return SLib(d)
        if isinstance(obj, SLogger):
            return SLoggerMethod(name)
        if isinstance(obj, SExcClass) and name == "__name__":
            return obj.name
        if hasattr(obj, "sym_getattr"):
            return obj.sym_getattr(self, name, node)
        return libmodels.get_attr(self, obj, name, node)

    def get_item(self, base, key, node, frame):
        if isinstance(base, SEnumMember) and getattr(base.cls, "str_enum", False):
            base = base.value  # a (str, Enum) member IS its value for str operations
        if isinstance(base, (list, tuple, str)):
            if isinstance(key, (int, slice)) and not isinstance(key, bool):
                if isinstance(key, slice) and any(is_z3(x) for x in (key.start, key.stop, key.step)):
                    raise Unsupported("symbolic slice of a static sequence", node)
                try:
                    return base[key]
                except IndexError:
                    raise SymRaise("IndexError", node=node, bases=("IndexError", "LookupError", "Exception"))
            if isinstance(base, list) and isinstance(key, tuple) and len(key) == 2 and all(isinstance(k, int) and not isinstance(k, bool) for k in key) \
                    and isinstance(base[key[0]] if -len(base) <= key[0] < len(base) else None, list):
                # numpy-style a[i, j] on a list of rows
                try:
                    return base[key[0]][key[1]]
                except IndexError:
                    raise SymRaise("IndexError", node=node, bases=("IndexError", "LookupError", "Exception"))
            raise Unsupported("symbolic index into a static sequence", node)
        if isinstance(base, dict):
            if is_z3(key) or isinstance(key, SStr):
                raise Unsupported("dict lookup with symbolic key", node)
            if isinstance(key, SEnumMember) and key not in base and key.value in base and key.cls.str_enum:
                key = key.value
            if key not in base:
                raise SymRaise("KeyError", str(key), node, ("KeyError", "LookupError", "Exception"))
            return base[key]
        if isinstance(base, SVec):
            if isinstance(key, SIdx):
                return SSel(base, key)
            if isinstance(key, _LoopIndex):
                return base.elem
            if isinstance(key, SVec) and is_z3(key.elem) and z3.is_bool(key.elem):
                return SSel(base, SIdx(key))
            raise Unsupported("vector read at a specific index", node)
        if hasattr(base, "sym_getitem"):
            return base.sym_getitem(self, key, node)
        return libmodels.get_item(self, base, key, node)

    # ================================================================ calls
    def call(self, fn, args, kwargs, node, frame):
        if isinstance(fn, SFunc):
            return self.call_function(fn, args, kwargs, node)
        if isinstance(fn, SClass):
            return self.instantiate(fn, args, kwargs, node, frame)
        if isinstance(fn, SExcClass):
            return SOpaque(f"exception instance {fn.name}")
        if isinstance(fn, SLib):
            return libmodels.call_lib(self, fn.dotted, args, kwargs, node, frame)
        if isinstance(fn, SBoundLib):
            return libmodels.call_method(self, fn.recv, fn.name, args, kwargs, node, frame)
        if isinstance(fn, libmodels.ApiFn):
            return fn.fn(self, args, kwargs, node, frame)
        if hasattr(fn, "sym_call"):
            return fn.sym_call(self, args, kwargs, node, frame)
        if isinstance(fn, SOpaque):
            # a method of an opaque value: unknown pure result, stable per (receiver, call site)
            k = ("call", repr([a if not is_z3(a) else str(a) for a in args]), repr(sorted((kk, str(vv)) for kk, vv in kwargs.items())))
            if k not in fn.attrs:
                fn.attrs[k] = SOpaque(f"{fn.label}()")
            self.run.assumptions.add(f"[opaque] result of calling {fn.label} is an unknown value; the call is assumed not to mutate its arguments")
            return fn.attrs[k]
        raise Unsupported(f"call of {type(fn).__name__}", node)

    def call_function(self, fn: SFunc, args, kwargs, node=None):
        target = fn.target
        if fn.module.is_repo:
            if target in self.forbidden:
                self.run.check(f"forbidden_call[{target}]", False, kind="post", loc=fn.module.loc(fn.node))
            if target in self.opaques:
                return self.call_opaque(fn, args, kwargs, node)
            if target in self.contracts and not self.config.get("verifying") == target:
                return self.call_contract(fn, args, kwargs, node)
        if self.depth > 60:
            raise Unsupported("call depth exceeded (recursion?)", node)
        frame = Frame(fn.module, fn, parent=fn.closure)
        self.bind_args(fn, frame, args, kwargs, node)
        self.depth += 1
        self.call_stack.append(target)
        try:
            if isinstance(fn.node, ast.Lambda):
                return self.eval(fn.node.body, frame)
            try:
                self.exec_block(fn.node.body, frame)
            except _Return as r:
                return r.value
            return None
        finally:
            self.depth -= 1
            self.call_stack.pop()

    def bind_args(self, fn, frame, args, kwargs, node):
        a = fn.node.args
        params = [p.arg for p in a.posonlyargs + a.args]
        args = list(args)
        if fn.bound_self is not None:
            args = [fn.bound_self] + args
        elif fn.owner is not None and "classmethod" in self.decorators(fn.node):
            args = [fn.owner] + args
        defaults = a.defaults
        n_req = len(params) - len(defaults)
        kwargs = dict(kwargs)
        for i, p in enumerate(params):
            if i < len(args):
                frame.locals[p] = args[i]
            elif p in kwargs:
                frame.locals[p] = kwargs.pop(p)
            elif i >= n_req:
                frame.locals[p] = self.eval_default(defaults[i - n_req], frame, fn)
            else:
                raise SymRaise("TypeError", f"missing argument {p} calling {fn.qualname}", node, ("TypeError", "Exception"))
        extra = args[len(params):]
        if a.vararg is not None:
            frame.locals[a.vararg.arg] = tuple(extra)
        elif extra:
            raise SymRaise("TypeError", f"too many arguments calling {fn.qualname}", node, ("TypeError", "Exception"))
        for p, d in zip(a.kwonlyargs, a.kw_defaults):
            if p.arg in kwargs:
                frame.locals[p.arg] = kwargs.pop(p.arg)
            elif d is not None:
                frame.locals[p.arg] = self.eval_default(d, frame, fn)
            else:
                raise SymRaise("TypeError", f"missing kw argument {p.arg}", node, ("TypeError", "Exception"))
        if a.kwarg is not None:
            frame.locals[a.kwarg.arg] = kwargs
        elif kwargs:
            raise SymRaise("TypeError", f"unexpected keyword {sorted(kwargs)} calling {fn.qualname}", node, ("TypeError", "Exception"))

    def eval_default(self, dnode, frame, fn):
        try:
            return ast.literal_eval(dnode)
        except Exception:
            pass
        # array-typed defaults are dropped (listed in DROPS): np.array([]) -> empty static list
        if isinstance(dnode, ast.Call) and isinstance(dnode.func, ast.Attribute) and dnode.func.attr == "array":
            return []
        return self.eval(dnode, Frame(fn.module, parent=fn.closure))

    # -- modular call through a contract
    def call_contract(self, fn, args, kwargs, node):
        spec = self.contracts[fn.target]
        return spec.apply(self, fn, args, kwargs, node)

    def call_opaque(self, fn, args, kwargs, node):
        eff = self.opaques[fn.target]
        self.run.opaque_calls.add(fn.target)
        if eff is None:
            return SOpaque(f"result of {fn.target}")
        a = list(args)
        if fn.bound_self is not None:
            a = [fn.bound_self] + a
        return self.call_function(eff, a, kwargs, node)

    # -- class instantiation
    def instantiate(self, cls, args, kwargs, node, frame):
        if getattr(cls, "is_enum", False):
            if len(args) == 1:
                for m in cls._members.values():
                    if m.value == args[0] or m is args[0]:
                        return m
                raise SymRaise("ValueError", "not a member", node, ("ValueError", "Exception"))
        bases = self.exc_bases(cls)
        if "Exception" in bases or any(b in BUILTIN_EXC for b in bases):
            return SOpaque(f"exception instance {cls.qualname}")
        hook = self.config.get("instantiate", {}).get(f"{cls.module.relpath}::{cls.qualname}")
        if hook is not None:
            return hook(self, cls, args, kwargs, node, frame)
        if f"{cls.module.relpath}::{cls.qualname}" in self.config.get("opaque_classes", ()) or cls.module.relpath in self.config.get("opaque_class_modules", ()):
            self.run.assumptions.add(f"[opaque class] constructing {cls.qualname} is not modelled: unknown object, no side effects assumed")
            return SOpaque(f"{cls.qualname} instance")
        obj = SObj(cls)
        init = self.find_method(cls, "__init__")
        if init is not None:
            self.call_function(init.bind(obj), args, kwargs, node)
            obj.written = set()
            return obj
        # record-style (pydantic BaseModel / dataclass-like): fields from annotated class attributes
        fields = self.record_fields(cls)
        if args:
            raise Unsupported(f"positional arguments to record constructor {cls.qualname}", node)
        for k, v in kwargs.items():
            if k not in fields and fields:
                # pydantic ignores/forbids extras depending on config; keep it visible
                raise Unsupported(f"unknown field {k} for {cls.qualname}", node)
            obj.attrs[k] = v
        for k, dflt in fields.items():
            if k not in obj.attrs:
                if dflt is _REQUIRED:
                    raise SymRaise("ValidationError", f"missing field {k}", node, ("ValidationError", "ValueError", "Exception"))
                obj.attrs[k] = self.eval(dflt, Frame(cls.module)) if isinstance(dflt, ast.AST) else dflt
        post = self.config.get("post_init", {}).get(f"{cls.module.relpath}::{cls.qualname}")
        if post is not None:
            post(self, obj, node)
        obj.written = set()
        return obj

    def record_fields(self, cls):
        fields = {}
        for b in reversed(self.class_bases(cls)):
            if isinstance(b, SClass):
                fields.update(self.record_fields(b))
        for st in cls.node.body:
            if isinstance(st, ast.AnnAssign) and isinstance(st.target, ast.Name):
                nm = st.target.id
                if nm == "model_config":
                    continue
                fields[nm] = st.value if st.value is not None else _REQUIRED
        return fields


class _Super:
    def __init__(self, obj, cls):
        self.obj = obj
        self.cls = cls


class _Required:
    pass


_REQUIRED = _Required()


class _LoopIndex:
    """The arbitrary index of an element-wise loop."""


class _MapIter:
    def __init__(self, vec, enumerated):
        self.vec = vec
        self.enumerated = enumerated


class _SeqIter:
    def __init__(self, seq):
        self.seq = seq


class _Tuple2:
    def __init__(self, items):
        self.items = items


def _znot(v):
    if isinstance(v, bool):
        return not v
    return z3.Not(v)


def _as_load(t):
    import copy
    t2 = copy.copy(t)
    t2.ctx = ast.Load()
    return t2


def _assigned_names(stmts):
    out = set()
    for st in stmts:
        for n in ast.walk(st):
            if isinstance(n, ast.Name) and isinstance(n.ctx, ast.Store):
                out.add(n.id)
    return out


def _pure_simple(node):
    """True when evaluating the expression cannot fork, raise or need a safety VC."""
    for n in ast.walk(node):
        if isinstance(n, (ast.Call, ast.IfExp, ast.Subscript, ast.Lambda, ast.ListComp, ast.DictComp, ast.SetComp,
                          ast.GeneratorExp, ast.NamedExpr, ast.Await, ast.Yield)):
            return False
        if isinstance(n, ast.BinOp) and isinstance(n.op, (ast.Div, ast.FloorDiv, ast.Mod, ast.Pow)):
            return False
        if isinstance(n, ast.Attribute):
            return False
    return True
