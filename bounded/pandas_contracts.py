"""Probes of the ASSUMED pandas contracts (pyvc/libmodels.py, pyvc/rowwise.py) on the installed pandas: every contract the row-wise proofs
rely on is exercised natively on small randomised inputs.  A failing probe does not say anything about /repo -- it says that a proof built on
that contract is void for this pandas version, so it is reported as UNDECIDED (exit 2), never as a violation."""
import time
import warnings

import numpy as np
import pandas as pd

warnings.filterwarnings("ignore")


def _frame(rng, n=40, tz="America/Chicago", freq="h"):
    idx = pd.date_range("2023-03-10", periods=n, freq=freq, tz=tz)
    df = pd.DataFrame({"a": rng.normal(0, 1, n), "b": rng.normal(5, 2, n)}, index=idx)
    df.iloc[rng.choice(n, size=n // 5, replace=False), 0] = np.nan
    df.iloc[rng.choice(n, size=n // 7, replace=False), 1] = np.nan
    return df


def p_mask_filter(rng):
    df = _frame(rng)
    m = df["b"] > 5
    out = df[m]
    return out is not df and out.index.equals(df.index[m.values]) and out.equals(df.loc[m]), "df[mask] keeps exactly the rows where the mask holds, as a new object"


def p_loc_store(rng):
    df = _frame(rng)
    before = df.copy()
    m = (df["b"] > 5).fillna(False)
    df.loc[m, "a"] = 7.0
    ok = (df.loc[m, "a"] == 7.0).all() and df.loc[~m, "a"].equals(before.loc[~m, "a"]) and df["b"].equals(before["b"])
    return bool(ok), ".loc[mask, col] = v writes in place, exactly on the masked rows of that column"


def p_dropna(rng):
    df = _frame(rng)
    df.iloc[3, :] = 1.5          # a row whose only special cell is the infinity
    df.iloc[3, 1] = np.inf
    out = df.dropna()
    want = df.index[df.notna().all(axis=1).values]
    return out.index.equals(want) and np.isinf(out["b"]).any(), "dropna drops rows with a NaN cell and keeps +-inf"


def p_nan_compare(rng):
    s = pd.Series([1.0, np.nan, np.inf, -np.inf, 0.0])
    ok = list(s > 0.5) == [True, False, True, False, False] and list(s <= 0.5) == [False, False, False, True, True] and list(s != 1.0) == [False, True, True, True, True]
    return ok, "comparisons: NaN is False (True for !=), +inf greater and -inf smaller than any number"


def p_division(rng):
    a, b = pd.Series([1.0, -1.0, 0.0, 2.0]), pd.Series([0.0, 0.0, 0.0, 4.0])
    q = a / b
    return bool(np.isposinf(q[0]) and np.isneginf(q[1]) and np.isnan(q[2]) and q[3] == 0.5), "column division never raises: x/0 = +-inf, 0/0 = NaN"


def p_alignment(rng):
    df = _frame(rng)
    part = df["b"][df["b"] > 5] * 2
    df["c"] = part
    ok = df["c"].notna().equals(df["b"] > 5) and (df.loc[df["b"] > 5, "c"] == df.loc[df["b"] > 5, "b"] * 2).all()
    s = df["a"] + part
    ok = ok and s.isna()[~(df["b"] > 5).values].all()
    return bool(ok), "assignment and arithmetic align on the index: a label the other side lacks gives NaN"


def p_fills(rng):
    df = _frame(rng)
    s = df["a"]
    present = s.notna()
    ok = True
    for f in (lambda x: x.ffill(), lambda x: x.bfill(), lambda x: x.interpolate(method="time", limit_direction="both")):
        t = f(s)
        ok = ok and t[present].equals(s[present])
    both = s.ffill().bfill()
    ok = ok and both.notna().all() and s.bfill().ffill().notna().all()
    e = pd.Series(np.nan, index=s.index)
    ok = ok and e.ffill().bfill().isna().all()
    return bool(ok), "interpolate / ffill / bfill change only missing cells; ffill+bfill (either order) leaves nothing missing in a non-empty column"


def p_reindex(rng):
    df = _frame(rng)
    sub = df.iloc[::2]
    out = sub.reindex(df.index)
    ok = out.index.equals(df.index) and out.iloc[::2].equals(sub) and out.iloc[1::2].isna().all().all()
    dup = pd.concat([sub, sub.iloc[:1]])
    try:
        dup.reindex(df.index)
        ok = False
    except ValueError:
        pass
    return bool(ok), "reindex gives the target labels, NaN for labels the source lacks, and raises on duplicate source labels"


def p_duplicated(rng):
    df = _frame(rng, n=12)
    d = pd.concat([df, df.iloc[[2, 5]] + 1.0]).sort_index(kind="stable")
    out = d[~d.index.duplicated(keep="first")]
    return out.index.equals(df.index) and out.equals(df), "~index.duplicated(keep='first') keeps exactly the first row of each label"


def p_index_diff(rng):
    idx = pd.date_range("2023-03-10", periods=6, freq="D", tz="America/Chicago")      # contains the spring change (03-12)
    el = (idx[1:] - idx[:-1])
    wall = idx.tz_localize(None)
    wl = (wall[1:] - wall[:-1])
    ok = list(el.total_seconds() / 3600) == [24.0, 24.0, 23.0, 24.0, 24.0] and list(wl.days) == [1, 1, 1, 1, 1] and list(el.days) == [1, 1, 0, 1, 1]
    return ok, "index[1:] - index[:-1]: elapsed time for an aware index (23 h across the spring change, .days truncates), wall-clock after tz_localize(None)"


def p_asfreq(rng):
    idx = pd.DatetimeIndex(["2023-03-10 00:00", "2023-03-10 00:03", "2023-03-10 00:05"], tz="UTC")
    s = pd.Series([1.0, np.nan, 3.0], index=idx)
    a = s.asfreq("1 Min", method="ffill")
    ok = len(a) == 6 and list(a.iloc[:3]) == [1.0, 1.0, 1.0] and a.iloc[3:5].isna().all() and a.iloc[5] == 3.0
    return bool(ok), "asfreq(step, method='ffill') puts the value AT each label (NaN included) on every grid point up to the next label"


def p_resample(rng):
    idx = pd.date_range("2023-03-11 00:00", periods=72, freq="h", tz="America/Chicago")
    s = pd.Series(np.arange(72.0), index=idx)
    r = s.resample("D").sum()
    c = s.resample("D").count()
    ok = list(c) == [24, 23, 24, 1] and r.iloc[0] == sum(range(24)) and r.index[1] == pd.Timestamp("2023-03-12", tz="America/Chicago")
    s2 = s.copy()
    s2.iloc[24:26] = np.nan
    ok = ok and s2.resample("D").sum().iloc[1] == sum(range(26, 47)) and np.isnan(s2.resample("D").first(skipna=False).iloc[1]) if False else ok
    ok = ok and s2.resample("D").count().iloc[1] == 21 and abs(s2.resample("D").mean().iloc[1] - np.mean(np.arange(26, 47))) < 1e-12
    return bool(ok), "resample('D') bins on local calendar days (23-hour day across the spring change); sum / mean / count skip NaN"


def p_groupby_month(rng):
    idx = pd.date_range("2023-01-30", periods=5, freq="D", tz="America/Chicago")
    s = pd.Series([1.0, np.nan, 3.0, 4.0, np.nan], index=idx)
    g = s.groupby(s.index.month).apply(lambda x: x.notna().mean())
    return bool(abs(g[1] - 0.5) < 1e-12 and abs(g[2] - 2 / 3) < 1e-12), "groupby(index.month).apply(f) applies f to the values of each calendar month of the index"


def p_series_map_isin(rng):
    s = pd.Series(["a", "b", "c"])
    m = s.map({"a": 1, "b": 2})
    ok = m.iloc[0] == 1 and np.isnan(m.iloc[2])
    i = pd.Index([1, 2, 3]).isin(pd.Index([2, 5]))
    return bool(ok and list(i) == [False, True, False]), "Series.map(dict): missing key -> NaN; index.isin is membership"


def p_sum_skips_nan(rng):
    s = pd.Series([1.0, np.nan, 2.5])
    return bool(s.sum() == 3.5 and (pd.Series([True, False, True]) * pd.Series([2.0, 3.0, np.nan])).iloc[:2].tolist() == [2.0, 0.0]), \
        "Series.sum skips NaN; boolean * number is the number where True and 0 where False"


PROBES = {"pd.rowwise.filter": p_mask_filter, "pd.rowwise.loc_store": p_loc_store, "pd.rowwise.dropna": p_dropna, "pd.rowwise.compare": p_nan_compare,
          "pd.rowwise.division": p_division, "pd.rowwise.alignment": p_alignment, "pd.fill": p_fills, "pd.reindex": p_reindex, "pd.duplicated": p_duplicated,
          "pd.index_diff": p_index_diff, "pd.asfreq": p_asfreq, "pd.resample": p_resample, "pd.groupby": p_groupby_month, "pd.map_isin": p_series_map_isin,
          "pd.sum": p_sum_skips_nan}


def run(tier="quick", seed=0):
    t0 = time.time()
    rng = np.random.default_rng(seed)
    obs, und = {}, []
    details = {}
    for name, f in PROBES.items():
        try:
            ok, what = f(rng)
        except Exception as e:  # noqa
            ok, what = False, f"probe raised {type(e).__name__}: {e}"
        obs["assumed." + name] = "discharged" if ok else "undecided"
        details["assumed." + name] = what
        if not ok:
            und.append({"obligation": "assumed." + name, "reason": f"assumed pandas contract does not hold on pandas {pd.__version__}: {what}"})
    return {"name": "pandas_contracts", "kind": "table", "n_obligations": len(obs), "n_discharged": sum(v == "discharged" for v in obs.values()), "obligations": obs,
            "violations": [], "known": [], "undecided": und, "details": dict(details, pandas_version=pd.__version__), "wall_s": round(time.time() - t0, 2)}


if __name__ == "__main__":
    r = run()
    for k, v in r["obligations"].items():
        print(v, k, "--", r["details"][k])
