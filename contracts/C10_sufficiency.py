"""C10 (proof part) -- each threshold check of SufficiencyCriteria appends its disqualification exactly on its published
criterion and touches nothing else (symbolic day counts; integers).  Call sets and writer sets are table / flow
obligations in flow/C10_tables.py; the end-to-end verdicts at the thresholds are the bounded part."""
from pyvc.api import *  # noqa

SC = repo("opendsm/eemeter/common/sufficiency_criteria.py::SufficiencyCriteria")
OPAQUE = {"opendsm/eemeter/common/warnings.py::EEMeterWarning.warn": None}

CASES = [{"reporting": r} for r in [False, True]]


def criteria(reporting, n_total, n_valid, n_meter, n_temp):
    return new_object(SC, is_reporting_data=reporting, is_electricity_data=True, n_days_total=n_total, n_valid_days=n_valid,
                      n_valid_meter_value_days=n_meter, n_valid_temperature_days=n_temp, min_fraction_daily_coverage=0.9, num_days=365,
                      disqualification=fresh_seq("disqualification"), warnings=fresh_seq("warnings"), data=opaque("data"))


def names(seq):
    return [w.qualified_name for w in appended(seq)]


@harness("C10.baseline_length", prop="C10")
def baseline_length(n_total: Int, n_valid: Int, n_meter: Int, n_temp: Int):
    c = criteria(False, n_total, n_valid, n_meter, n_temp)
    c._check_baseline_length_daily_billing_model()
    got = names(c.disqualification)
    # published: baseline span outside 329-365 days
    check("C10.baseline_length", iff(got == ["eemeter.sufficiency_criteria.incorrect_number_of_total_days"], Or(n_total > 365, n_total < 329)))
    check("C10.baseline_length.only", And(len(got) <= 1, Not(mutated(c.warnings))))


@harness("C10.valid_days", prop="C10", cases=CASES)
def valid_days(reporting, n_total: Int, n_valid: Int, n_meter: Int, n_temp: Int):
    assume(And(n_valid >= 0, n_meter >= 0, n_temp >= 0))
    c = criteria(reporting, n_total, n_valid, n_meter, n_temp)
    c._check_valid_days_percentage()
    got = names(c.disqualification)
    under = Or(n_total <= 0, n_valid * 10 < n_total * 9)     # n_valid / n_total < 0.9, in integers
    check("C10.valid_days", iff(got == ["eemeter.sufficiency_criteria.too_many_days_with_missing_data"], under))
    check("C10.valid_days.only", And(len(got) <= 1, Not(mutated(c.warnings))))


@harness("C10.valid_meter", prop="C10", cases=CASES)
def valid_meter(reporting, n_total: Int, n_valid: Int, n_meter: Int, n_temp: Int):
    assume(And(n_valid >= 0, n_meter >= 0, n_temp >= 0))
    c = criteria(reporting, n_total, n_valid, n_meter, n_temp)
    c._check_valid_meter_readings_percentage()
    got = names(c.disqualification)
    if reporting:
        check("C10.valid_meter", got == [])
    else:
        check("C10.valid_meter", iff(got == ["eemeter.sufficiency_criteria.too_many_days_with_missing_meter_data"],
                                     Or(n_total <= 0, n_meter * 10 < n_total * 9)))
    check("C10.valid_meter.only", And(len(got) <= 1, Not(mutated(c.warnings))))


@harness("C10.valid_temperature", prop="C10", cases=CASES)
def valid_temperature(reporting, n_total: Int, n_valid: Int, n_meter: Int, n_temp: Int):
    assume(And(n_valid >= 0, n_meter >= 0, n_temp >= 0))
    c = criteria(reporting, n_total, n_valid, n_meter, n_temp)
    c._check_valid_temperature_values_percentage()
    got = names(c.disqualification)
    check("C10.valid_temperature", iff(got == ["eemeter.sufficiency_criteria.too_many_days_with_missing_temperature_data"],
                                       Or(n_total <= 0, n_temp * 10 < n_total * 9)))
    check("C10.valid_temperature.only", And(len(got) <= 1, Not(mutated(c.warnings))))


# ----------------------------------------------------------------------------------------------------------------------------------
# day counting and the data-dependent checks on the row-wise model (one arbitrary row of an arbitrary sufficiency frame)

NUM = 0
NAN = 1
DATA_COLS = ["observed", "temperature", "temperature_not_null", "temperature_null"]
OPAQUE_CLASS_MODULES = []


def criteria_on(data, reporting, electric=True):
    return new_object(SC, is_reporting_data=reporting, is_electricity_data=electric, n_days_total=fresh_int("n_total"), n_valid_days=None,
                      n_valid_meter_value_days=None, n_valid_temperature_days=None, min_fraction_daily_coverage=0.9,
                      min_fraction_hourly_temperature_coverage_per_period=0.9, num_days=365,
                      disqualification=fresh_seq("disqualification"), warnings=fresh_seq("warnings"), data=data)


@harness("C10.day_counts", prop="C10", cases=CASES, permissive=True)
def day_counts(reporting):
    """_compute_valid_meter_temperature_days: every timestamp counts for the period up to the next timestamp (in days of elapsed time), the last
    one for nothing; a row counts as valid usage when its reading is present, as valid temperature when more than 90 % of its temperature readings
    are present, as valid when both (reporting: temperature only); each total is rounded to the nearest integer."""
    data = row_frame(DATA_COLS, label="sufficiency")
    ko = cell_kind(data, "observed")
    knn = cell_kind(data, "temperature_not_null")
    kn = cell_kind(data, "temperature_null")
    nn = cell_val(data, "temperature_not_null")
    nu = cell_val(data, "temperature_null")
    assume(And(knn == NUM, kn == NUM, nn >= 0, nu >= 0))
    secs = next_seconds(data)
    last = is_last_row(data)
    c = criteria_on(data, reporting)
    c._compute_valid_meter_temperature_days()
    sums = sum_log()
    rounds = round_log()
    period_days = secs / 86400
    temp_ok = And(nn + nu > 0, nn * 10 > (nn + nu) * 9)          # not_null / (not_null + null) > 0.9
    meter_ok = ko != NAN
    valid = temp_ok if reporting else And(meter_ok, temp_ok)
    # order of the three totals in the real function: meter (baseline only), temperature, both
    i_t = 0 if reporting else 1
    i_v = 1 if reporting else 2
    check("C10.day_counts.n_sums", len(sums) == (2 if reporting else 3))
    if len(sums) == (2 if reporting else 3):
        if not reporting:
            m = sums[0]
            check("C10.day_counts.meter_row", implies(Not(last), And(m[1] == NUM, m[2] == ite(meter_ok, period_days, 0))))
        t = sums[i_t]
        v = sums[i_v]
        check("C10.day_counts.temperature_row", implies(Not(last), And(t[1] == NUM, t[2] == ite(temp_ok, period_days, 0))))
        check("C10.day_counts.valid_row", implies(Not(last), And(v[1] == NUM, v[2] == ite(valid, period_days, 0))))
        check("C10.day_counts.last_row_counts_nothing", implies(last, And(t[1] == NAN, v[1] == NAN)))
        # the stored counts are the rounded totals
        check("C10.day_counts.rounded", len(rounds) == len(sums))
        if len(rounds) == len(sums):
            check("C10.day_counts.stored", And(c.n_valid_temperature_days == rounds[i_t][0], rounds[i_t][1] == t[0],
                                               c.n_valid_days == rounds[i_v][0], rounds[i_v][1] == v[0]))
            if not reporting:
                check("C10.day_counts.stored_meter", And(c.n_valid_meter_value_days == rounds[0][0], rounds[0][1] == sums[0][0]))
    cover("C10.cover.day_counts.partial_temperature", And(Not(last), nn > 0, nu > 0, Not(temp_ok)))


SPAN_CASES = [{"reporting": r, "start": a, "end": b} for r in [False, True] for a in [False, True] for b in [False, True]]


@harness("C10.n_days_total", prop="C10", cases=SPAN_CASES, permissive=True)
def n_days_total(reporting, start, end):
    """_compute_n_days_total: the span the length criterion judges runs from the first to the last COMPLETE row (usage, temperature and both
    coverage counts present) -- whole calendar days between the two on the local wall clock, plus one -- extended by the whole days between a requested start /
    end and those two rows; rows that are not complete do not stretch it."""
    data = row_frame(DATA_COLS, label="sufficiency")
    complete = And(cell_kind(data, "observed") != NAN, cell_kind(data, "temperature") != NAN, cell_kind(data, "temperature_not_null") != NAN,
                   cell_kind(data, "temperature_null") != NAN)
    rs = None
    re_ = None
    if start:
        rs = stamp("requested_start")
    if end:
        re_ = stamp("requested_end")
    c = new_object(SC, is_reporting_data=reporting, is_electricity_data=True, n_days_total=None, requested_start=rs, requested_end=re_,
                   disqualification=fresh_seq("disqualification"), warnings=fresh_seq("warnings"), data=data)
    c._compute_n_days_total()
    kept = data.dropna()
    first = index_min_seconds(kept)
    last = index_max_seconds(kept)
    some = Not(index_is_empty(kept))
    t = label_seconds(data)
    # the span itself is counted in CALENDAR days on the data's own wall clock (a span that starts in standard and ends in daylight-saving time is an hour
    # short in elapsed time); the gaps to a requested start / end are whole elapsed days
    expect = floor_days(wall_clock_seconds(last) - wall_clock_seconds(first)) + 1
    if start:
        expect = expect + floor_days(first - stamp_seconds(rs))
    if end:
        expect = expect + floor_days(stamp_seconds(re_) - last)
    check("C10.n_days_total.value", implies(some, c.n_days_total == expect))
    # the tie to the rows (assumed contract of index.min / index.max, instantiated on the arbitrary row): a complete row lies inside the span,
    # so the span is at least the whole days from the first complete row to it, plus one
    # (on the wall clock a complete row is not more than a day -- the largest UTC-offset change -- short of the elapsed count)
    check("C10.n_days_total.spans_complete_rows", implies(And(complete, Not(start), Not(end)), c.n_days_total >= floor_days(t - first) - 1))
    check("C10.n_days_total.frame", And(Not(mutated(c.disqualification)), Not(mutated(c.warnings)), Not(data.mutated)))
    cover("C10.cover.n_days_total.incomplete_row_outside", And(Not(complete), t > last))
    cover("C10.cover.n_days_total.year", And(some, last - first == 364 * 86400))


@harness("C10.no_data", prop="C10", cases=CASES, permissive=True)
def no_data(reporting):
    data = row_frame(DATA_COLS, label="sufficiency")
    complete = And(cell_kind(data, "observed") != NAN, cell_kind(data, "temperature") != NAN, cell_kind(data, "temperature_not_null") != NAN,
                   cell_kind(data, "temperature_null") != NAN)
    c = criteria_on(data, reporting)
    r = c._check_no_data()
    got = names(c.disqualification)
    # a complete row anywhere rules the verdict out; the verdict and the returned flag agree
    check("C10.no_data.sound", implies(complete, got == []))
    check("C10.no_data.flag", iff(r, got == []))
    check("C10.no_data.name", Or(got == [], got == ["eemeter.sufficiency_criteria.no_data"]))
    check("C10.no_data.only", Not(mutated(c.warnings)))


NEG_CASES = [{"reporting": r, "electric": e} for r in [False, True] for e in [False, True]]


@harness("C10.negative", prop="C10", cases=NEG_CASES, permissive=True)
def negative(reporting, electric):
    data = row_frame(DATA_COLS, label="sufficiency")
    ko = cell_kind(data, "observed")
    vo = cell_val(data, "observed")
    c = criteria_on(data, reporting, electric)
    c._check_negative_meter_values()
    got = names(c.disqualification)
    if reporting or electric:
        check("C10.negative.not_applicable", got == [])
    else:
        check("C10.negative.sound", implies(And(ko == NUM, vo < 0), got == ["eemeter.sufficiency_criteria.negative_meter_values"]))
        check("C10.negative.name", Or(got == [], got == ["eemeter.sufficiency_criteria.negative_meter_values"]))
    check("C10.negative.only", Not(mutated(c.warnings)))


@harness("C10.monthly", prop="C10", cases=CASES, permissive=True)
def monthly(reporting):
    """monthly temperature coverage: share of present readings per calendar month of the index, disqualified when any month is under 90 %"""
    data = row_frame(DATA_COLS, label="sufficiency")
    c = criteria_on(data, reporting)
    c._check_monthly_temperature_values_percentage()
    got = names(c.disqualification)
    log = agg_bool_log()
    # the share of present readings per calendar month, in one of its spellings; another spelling is undecided, not wrong
    recognise(len(log) == 1 and log[0][3] == "apply:text:x.notna().mean()" and log[0][2] == "any"
              and log[0][7] == "groupby(index.month)", "monthly share of present temperature readings")
    check("C10.monthly.column", log[0][6] == "temperature")
    check("C10.monthly.threshold", log[0][4] == "Lt" and log[0][5] == 0.9)
    check("C10.monthly.verdict", iff(log[0][0], got == ["eemeter.sufficiency_criteria.missing_monthly_temperature_data"]))
    check("C10.monthly.name", Or(got == [], got == ["eemeter.sufficiency_criteria.missing_monthly_temperature_data"]))


HOURLY_SUFF = repo("opendsm/eemeter/models/hourly/data.py::_create_sufficiency_df")
SUFF_CASES = [{"ghi": False}, {"ghi": True}]


@harness("C10.hourly_frame", prop="C10", cases=SUFF_CASES, permissive=True)
def hourly_sufficiency_frame(ghi):
    """the frame the hourly criteria are evaluated on: every value that was filled by interpolation is blanked again -- each column by ITS OWN
    flag -- and the temperature counts are 1/0 (present) and 0/1 (absent) per hour"""
    cols = ["observed", "temperature", "interpolated_observed", "interpolated_temperature"]
    if ghi:
        cols = cols + ["ghi", "interpolated_ghi"]
    df = row_frame(cols, label="hourly")
    names_ = ["observed", "temperature"] + (["ghi"] if ghi else [])
    k0 = []
    v0 = []
    f0 = []
    for c in names_:
        k0.append(cell_kind(df, c))
        v0.append(cell_val(df, c))
        f0.append(And(cell_kind(df, "interpolated_" + c) == NUM, cell_val(df, "interpolated_" + c) == 1))
    out = HOURLY_SUFF(df)
    i = 0
    for c in names_:
        k1 = cell_kind(out, c)
        check("C10.hourly_frame.blank." + c, implies(f0[i], k1 == NAN))
        check("C10.hourly_frame.keep." + c, implies(Not(f0[i]), And(k1 == k0[i], implies(k0[i] == NUM, cell_val(out, c) == v0[i]))))
        i = i + 1
    kt = cell_kind(out, "temperature")
    check("C10.hourly_frame.counts", And(cell_kind(out, "temperature_not_null") == NUM, cell_kind(out, "temperature_null") == NUM,
                                         cell_val(out, "temperature_not_null") == ite(kt != NAN, 1, 0),
                                         cell_val(out, "temperature_null") == ite(kt != NAN, 0, 1)))
    check("C10.hourly_frame.rows", out.mult == df.mult)


HSC = repo("opendsm/eemeter/common/sufficiency_criteria.py::HourlySufficiencyCriteria")
HM_CASES = [{"reporting": r, "ghi": g} for r in [False, True] for g in [False, True]]


@harness("C10.monthly_hourly", prop="C10", cases=HM_CASES, permissive=True)
def monthly_hourly(reporting, ghi):
    """hourly criteria: usage (baseline only) and irradiance (when supplied) must each be present for 90 % of every calendar month"""
    cols = list(DATA_COLS)
    if ghi:
        cols = cols + ["ghi"]
    data = row_frame(cols, label="sufficiency")
    c = new_object(HSC, is_reporting_data=reporting, is_electricity_data=True, min_fraction_daily_coverage=0.9, disqualification=fresh_seq("disqualification"),
                   warnings=fresh_seq("warnings"), data=data)
    c._check_monthly_meter_readings_percentage()
    got_m = names(c.disqualification)
    log = agg_bool_log()
    if reporting:
        check("C10.monthly_hourly.meter.not_for_reporting", And(got_m == [], len(log) == 0))
    else:
        recognise(len(log) == 1 and log[0][3] == "apply:text:x.notna().mean()" and log[0][2] == "any"
                  and log[0][7] == "groupby(index.month)", "monthly share of present usage readings")
        check("C10.monthly_hourly.meter.column", log[0][6] == "observed")
        check("C10.monthly_hourly.meter.threshold", log[0][4] == "Lt" and log[0][5] == 0.9)
        check("C10.monthly_hourly.meter.verdict", iff(log[0][0], got_m == ["eemeter.sufficiency_criteria.missing_monthly_meter_data"]))
    n0 = len(log)
    c2 = new_object(HSC, is_reporting_data=reporting, is_electricity_data=True, min_fraction_daily_coverage=0.9, disqualification=fresh_seq("disqualification2"),
                    warnings=fresh_seq("warnings2"), data=data)
    c2._check_monthly_ghi_percentage()
    got_g = names(c2.disqualification)
    log2 = agg_bool_log()
    if not ghi:
        check("C10.monthly_hourly.ghi.absent", And(got_g == [], len(log2) == n0))
    else:
        recognise(len(log2) == n0 + 1 and log2[n0][3] == "apply:text:x.notna().mean()" and log2[n0][2] == "any"
                  and log2[n0][7] == "groupby(index.month)", "monthly share of present irradiance readings")
        check("C10.monthly_hourly.ghi.column", log2[n0][6] == "ghi")
        check("C10.monthly_hourly.ghi.threshold", log2[n0][4] == "Lt" and log2[n0][5] == 0.9)
        check("C10.monthly_hourly.ghi.verdict", iff(log2[n0][0], got_g == ["eemeter.sufficiency_criteria.missing_monthly_ghi_data"]))
