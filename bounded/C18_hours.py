"""Bounded-exhaustive part of C18: every hour of a leap and a non-leap year in several timezones through the REAL
segment_time_series (all four segmentation types), compute_time_features, compute_occupancy_feature, the CalTRACK
feature processors, and compute_temperature_bin_features over a temperature grid x all 64 subsets of the candidate
bin endpoints."""
import itertools
import warnings

import numpy as np
import pandas as pd

from bounded.common import Bounded, load_known

MODULE = "bounded.C18_hours"
warnings.filterwarnings("ignore")
NAMES = ["jan", "feb", "mar", "apr", "may", "jun", "jul", "aug", "sep", "oct", "nov", "dec"]


def three(k):
    return NAMES[(k - 2) % 12] + "-" + NAMES[k - 1] + "-" + NAMES[k % 12]


def hours(year, tz):
    return pd.date_range(f"{year}-01-01", f"{year + 1}-01-01", freq="h", tz=tz, inclusive="left")


def check_segments(year, tz):
    from opendsm.eemeter.models.hourly_caltrack.segmentation import segment_time_series
    idx = hours(year, tz)
    month = idx.month.values
    bad = []
    w = segment_time_series(idx, "one_month")
    exp = np.zeros((len(idx), 12))
    exp[np.arange(len(idx)), month - 1] = 1
    if list(w.columns) != NAMES or not np.array_equal(w.values, exp):
        rows = np.where((w.values != exp).any(axis=1))[0]
        bad.append(f"one_month: {len(rows)} hours not in exactly their own month, first {idx[rows[0]] if len(rows) else None}")
    w = segment_time_series(idx, "three_month_weighted")
    for k in range(1, 13):
        col = three(k) + "-weighted"
        prev, nxt = (k - 2) % 12 + 1, k % 12 + 1
        e = np.where(month == k, 1.0, np.where((month == prev) | (month == nxt), 0.5, 0.0))
        if not np.array_equal(w[col].values, e):
            bad.append(f"three_month_weighted: wrong weights in {col}")
            break
    w = segment_time_series(idx, "three_month")
    for k in range(1, 13):
        prev, nxt = (k - 2) % 12 + 1, k % 12 + 1
        e = ((month == k) | (month == prev) | (month == nxt)).astype(float)
        if not np.array_equal(w[three(k)].values, e):
            bad.append(f"three_month: wrong weights in {three(k)}")
            break
    if not (segment_time_series(idx, "single")["all"].values == 1.0).all():
        bad.append("single: weight not 1")
    return bad


def expected_weights(month, seg_type):
    """column name -> weight vector, by the statement: full weight in the own month's segment, (three_month_weighted) half in the two neighbours'"""
    out = {}
    for k in range(1, 13):
        prev, nxt = (k - 2) % 12 + 1, k % 12 + 1
        if seg_type == "one_month":
            out[NAMES[k - 1]] = (month == k).astype(float)
        elif seg_type == "three_month":
            out[three(k)] = ((month == k) | (month == prev) | (month == nxt)).astype(float)
        elif seg_type == "three_month_weighted":
            out[three(k) + "-weighted"] = np.where(month == k, 1.0, np.where((month == prev) | (month == nxt), 0.5, 0.0))
    if seg_type == "single":
        out["all"] = np.ones(len(month))
    return out


def check_segments_partial(tz, start, end, history_tz=None):
    """a baseline that covers only some calendar months, with and without `drop_zero_weight_segments`: every column that carries weight is there with the
    stated weights (the flag may only remove columns that are zero everywhere); optionally after the SAME instants were segmented in another zone"""
    from opendsm.eemeter.models.hourly_caltrack.segmentation import segment_time_series
    idx = pd.date_range(start, end, freq="h", tz=tz, inclusive="left")
    bad = []
    for seg_type in ("one_month", "three_month", "three_month_weighted", "single"):
        for drop in (False, True):
            if history_tz:
                segment_time_series(idx.tz_convert(history_tz), seg_type, drop_zero_weight_segments=drop)     # an earlier call, same instants, other clock
            w = segment_time_series(idx, seg_type, drop_zero_weight_segments=drop)
            exp = expected_weights(idx.month.values, seg_type)
            for col, e in exp.items():
                if col in w.columns:
                    if not np.array_equal(w[col].values.astype(float), e):
                        n = int((w[col].values.astype(float) != e).sum())
                        bad.append(f"{seg_type} (drop={drop}{', after ' + history_tz if history_tz else ''}): {n} hours with a wrong weight in {col}")
                elif not drop or e.any():
                    bad.append(f"{seg_type} (drop={drop}): column {col} is missing although {int((e > 0).sum())} hours carry weight in it")
            extra = [c for c in w.columns if c not in exp]
            if extra:
                bad.append(f"{seg_type}: unexpected columns {extra[:3]}")
    return bad[:6]


def check_time_features(year, tz):
    from opendsm.eemeter.common.features import compute_time_features, compute_occupancy_feature
    idx = hours(year, tz)
    f = compute_time_features(idx)
    bad = []
    how = f["hour_of_week"].astype(int).values
    exp = idx.dayofweek.values * 24 + idx.hour.values
    if not np.array_equal(how, exp):
        rows = np.where(how != exp)[0]
        bad.append(f"hour_of_week != 24*weekday+hour on {len(rows)} hours, first {idx[rows[0]]} ({how[rows[0]]} vs {exp[rows[0]]})")
    if set(np.unique(how)) - set(range(168)):
        bad.append("hour_of_week outside 0..167")
    occ = pd.Series((np.arange(168) % 3 == 0).astype(int), index=pd.Index(range(168), name="hour_of_week"))
    o = compute_occupancy_feature(f["hour_of_week"], occ)
    if o.isna().any() or not np.array_equal(o.values.astype(int), occ.values[exp]):
        bad.append("occupancy feature is not the lookup of the hour's hour_of_week")
    return bad


def check_processor(tz):
    from opendsm.eemeter.models.hourly_caltrack.model import (caltrack_hourly_fit_feature_processor,
                                                               caltrack_hourly_prediction_feature_processor)
    idx = pd.date_range("2020-03-01", "2020-03-15", freq="h", tz=tz, inclusive="left")
    T = pd.Series(np.linspace(-25, 115, len(idx)), index=idx)
    how = pd.Series(idx.dayofweek * 24 + idx.hour, index=idx).astype("category")
    data = pd.DataFrame({"temperature_mean": T, "hour_of_week": how, "meter_value": 1.0, "weight": 1.0})
    occ = pd.DataFrame({"seg": (np.arange(168) % 2).astype(int)}, index=pd.Index(range(168), name="hour_of_week"))
    ends = [30, 45, 55, 65, 75, 90]
    bins = pd.DataFrame({"seg": [True] * 6}, index=pd.Series(ends, name="bin_endpoints"))
    bad = []
    for name, proc in (("fit", caltrack_hourly_fit_feature_processor), ("predict", caltrack_hourly_prediction_feature_processor)):
        out = proc("seg", data.copy(), occ, bins, bins)
        oc = [c for c in out.columns if c.endswith("_occupied") and "unoccupied" not in c]
        un = [c for c in out.columns if c.endswith("_unoccupied")]
        both = (out[oc].abs().sum(axis=1) > 0) & (out[un].abs().sum(axis=1) > 0)
        if both.any():
            bad.append(f"{name}: {int(both.sum())} hours with occupied AND unoccupied features non-zero")
        s = out[oc].sum(axis=1) + out[un].sum(axis=1)
        if not np.allclose(s.values, T.values):
            bad.append(f"{name}: bin features do not sum to the temperature")
    return bad


def check_bins(subset):
    from opendsm.eemeter.common.features import compute_temperature_bin_features
    ends = list(subset)
    T = pd.Series(list(np.arange(-40.0, 130.0, 2.5)) + [float(e) for e in ends] + [np.nan, -0.0, 0.0],
                  index=pd.RangeIndex(0, 0 + 68 + len(ends) + 3))
    out = compute_temperature_bin_features(T, list(ends))
    bad = []
    t = T.values
    edges = [-np.inf] + ends + [np.inf]
    if out.shape[1] != len(ends) + 1:
        return [f"{out.shape[1]} bin columns for {len(ends)} endpoints"]
    for i in range(len(edges) - 1):
        lo, hi = edges[i], edges[i + 1]
        if i == 0:
            e = np.minimum(t, hi)
        else:
            e = np.clip(t - lo, 0, hi - lo)
        e = np.where(np.isnan(t), np.nan, e)
        if not np.allclose(out.iloc[:, i].values, e, equal_nan=True):
            j = int(np.where(~np.isclose(out.iloc[:, i].values, e, equal_nan=True))[0][0])
            bad.append(f"bin_{i} for T={t[j]} endpoints {ends}: {out.iloc[j, i]} expected {e[j]}")
            break
    s = out.sum(axis=1, min_count=1).values
    if not np.allclose(s, t, equal_nan=True):
        j = int(np.where(~np.isclose(s, t, equal_nan=True))[0][0])
        bad.append(f"bins sum to {s[j]} for T={t[j]} (endpoints {ends})")
    return bad


def check_partial_model(tz):
    """a CalTRACK hourly model assembled with the library's own fitting functions from the segments of SOME months only (as the library's tests do):
    an hour whose own month has no segment model, or whose hour of week its own month's model never saw, stays unpredicted -- no other month's
    model contributes to it; hours covered by their own month's model are predicted"""
    from opendsm.eemeter.common.features import compute_time_features
    from opendsm.eemeter.models.hourly_caltrack.model import caltrack_hourly_fit_feature_processor, fit_caltrack_hourly_model
    A, C = three(1) + "-weighted", three(3) + "-weighted"
    B = three(2) + "-weighted"

    def rows(start, periods):
        idx = pd.date_range(start=start, periods=periods, freq="h", tz=tz)
        rng = np.random.default_rng(periods)
        t = 50 + 30 * np.sin(np.arange(periods) / 9.0) + rng.normal(0, 2, periods)
        return pd.DataFrame({"hour_of_week": compute_time_features(idx).hour_of_week, "temperature_mean": t,
                             "meter_value": 5 + 0.05 * t + (idx.hour.values % 12) + rng.normal(0, 0.1, periods), "weight": np.ones(periods)}, index=idx)
    how = pd.Categorical(range(168))
    occ = pd.Series([i % 24 in range(8, 18) for i in range(168)], index=how)
    occ_lookup = pd.DataFrame({A: occ, B: occ, C: occ})
    flags = pd.Series([True, True, True], index=[30, 60, 90])
    bins = pd.DataFrame({A: flags, B: flags, C: flags})
    # the January model saw Monday 00:00 .. Thursday 23:00 only (hours of week 0..95); March saw whole weeks; February has no model
    dms = {A: caltrack_hourly_fit_feature_processor(A, rows("2018-01-01", 96), occ_lookup, bins, bins),
           C: caltrack_hourly_fit_feature_processor(C, rows("2018-03-05", 24 * 14), occ_lookup, bins, bins)}
    res = fit_caltrack_hourly_model(dms, occ_lookup, bins, bins, segment_type="three_month_weighted")
    idx = pd.date_range("2019-01-01", "2019-03-31 23:00", freq="h", tz=tz)
    temps = pd.Series(50 + 25 * np.cos(np.arange(len(idx)) / 7.0), index=idx)
    pred = res.predict(idx, temps).result["predicted_usage"]
    hw = idx.dayofweek * 24 + idx.hour
    bad = []
    feb = pred[idx.month == 2]
    if feb.notna().any():
        bad.append(f"February has no segment model, yet {int(feb.notna().sum())} of its {len(feb)} hours were predicted (values {sorted(set(feb.dropna().round(6)))[:3]})")
    unseen = pred[(idx.month == 1) & (hw >= 96)]
    if unseen.notna().any():
        bad.append(f"{int(unseen.notna().sum())} January hours whose hour of week the January model never saw were predicted (values {sorted(set(unseen.dropna().round(6)))[:3]})")
    seen = pred[(idx.month == 1) & (hw < 96)]
    mar = pred[idx.month == 3]
    if seen.isna().any() or mar.isna().any():
        bad.append("hours covered by their own month's model were not predicted")
    return bad


def replay(case):
    k = case["kind"]
    if k == "partial_model":
        return {"ok": not (bad := check_partial_model(case["tz"])), "problems": bad}
    if k == "segments_partial":
        bad = check_segments_partial(case["tz"], case["start"], case["end"], case.get("history_tz"))
    elif k == "segments":
        bad = check_segments(case["year"], case["tz"])
    elif k == "time":
        bad = check_time_features(case["year"], case["tz"])
    elif k == "processor":
        bad = check_processor(case["tz"])
    else:
        bad = check_bins(case["subset"])
    return {"ok": not bad, "problems": bad}


def run(tier="quick", seed=0):
    b = Bounded("C18", "C18.hours", MODULE,
                "every hour of 2020 (leap) and 2021 in {UTC, America/Chicago, Europe/Berlin, Asia/Tokyo, Australia/Sydney} through the real "
                "segment_time_series (4 types), compute_time_features and compute_occupancy_feature; the CalTRACK fit/prediction feature "
                "processors; compute_temperature_bin_features on a 2.5F grid from -40 to 130F plus the endpoints, NaN and +-0 for all 64 subsets "
                "of {30,45,55,65,75,90}; a model assembled from the segments of January (four days of the week only) and March, predicting January-March. distinct = case", exhaustive=True, known_findings=load_known("C18"))
    tzs = ["UTC", "America/Chicago", "Europe/Berlin", "Asia/Tokyo", "Australia/Sydney"]
    cases = []
    for tz in tzs:
        for year in (2020, 2021):
            if tier == "quick" and (tz, year) not in (("America/Chicago", 2020), ("Europe/Berlin", 2021), ("Asia/Tokyo", 2020), ("UTC", 2021)):
                continue
            cases.append({"kind": "segments", "year": year, "tz": tz})
            cases.append({"kind": "time", "year": year, "tz": tz})
        cases.append({"kind": "processor", "tz": tz})
        if tz in ("UTC", "America/Chicago") or tier == "thorough":
            cases.append({"kind": "partial_model", "tz": tz})
    # baselines covering some months only (drop flag on and off), and the same instants segmented on another clock earlier in the process
    cases.append({"kind": "segments_partial", "tz": "America/Chicago", "start": "2021-01-01", "end": "2021-04-01"})
    cases.append({"kind": "segments_partial", "tz": "Europe/Berlin", "start": "2020-11-15", "end": "2021-02-10"})
    cases.append({"kind": "segments_partial", "tz": "America/Los_Angeles", "start": "2020-01-01", "end": "2021-01-01", "history_tz": "UTC"})
    cases.append({"kind": "segments_partial", "tz": "UTC", "start": "2021-01-01", "end": "2022-01-01", "history_tz": "Australia/Sydney"})
    cand = [30, 45, 55, 65, 75, 90]
    for r in range(7):
        for sub in itertools.combinations(cand, r):
            cases.append({"kind": "bins", "subset": list(sub)})
    for case in cases:
        try:
            r = replay(case)
        except Exception as e:  # noqa
            import traceback
            r = {"ok": False, "problems": [f"exception {type(e).__name__}: {e}", traceback.format_exc()[-600:]]}
        b.case("C18.hours." + case["kind"], case, r["ok"], nontrivial_key=str(case), detail=r["problems"])
    b.exhaustive = tier == "thorough"
    return b.result()
