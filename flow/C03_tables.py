"""Frame / ownership obligations of C03 on the real AST of every module of the package (re-read from /repo every run).

History independence of fit ("regardless of what the library was used for beforehand") follows from a frame condition: fitting
reads nothing but its arguments and immutable module constants, and writes nothing but the model object it returns.  The
obligations below are the parts of that frame condition that can be decided structurally:

  C03.owned.<Class>.<attr>   every attribute of a model / data / settings class that is mutated in place (append, extend, item store,
                             +=, ...) is only ever ASSIGNED a fresh object (literal, comprehension, .copy(), list(...), a + b, a call
                             result), never an alias of a parameter, of another object's attribute or of module state.  A failing
                             obligation means an in-place write lands in an object the model does not own (the caller's settings,
                             a module constant): reported as a violation (no input: structural).
  C03.module_state           no module-level list / dict / set is mutated in place anywhere in the package.
  C03.mutable_defaults       no function mutates a mutable default argument, and a default that escapes into object state is never
                             mutated through that attribute in its sub-package.
  C03.sources                the only draw from a process-global source of nondeterminism (numpy / random global generators, clocks,
                             uuid, urandom, id(), hash()) is the approved one: the seed drawn when the hourly settings carry none.
  C03.random_state           every random_state handed to an estimator derives from the settings' seed.
  C03.thread_pins            the BLAS / OpenMP thread pins precede the numeric imports of the hourly model.

The last five are CONDITIONS OF THE ARGUMENT, not the property: when one stops holding, history independence is no longer implied by
the frame condition and this part reports UNDECIDED (exit 2); whether the property itself breaks is then decided by the bounded part
(repeated / reordered / fresh-process fits).  Only the ownership obligations report violations."""
import ast
import json
import os
import time

REPO = os.environ.get("VERIF_REPO", "/repo")
PKG = "opendsm"
MUT_METHODS = {"append", "extend", "insert", "pop", "remove", "clear", "sort", "reverse", "update", "setdefault", "popitem", "add", "discard",
               "appendleft", "extendleft", "__setitem__", "__delitem__"}
MUT_CALLS = {"list", "dict", "set", "defaultdict", "OrderedDict", "deque", "Counter", "bytearray"}
FRESH_CALLS = {"list", "dict", "set", "tuple", "sorted", "copy", "deepcopy", "frozenset", "OrderedDict", "defaultdict", "reversed", "zip", "map", "filter", "range"}
APPROVED_SOURCES = {("opendsm/eemeter/models/hourly/settings.py", "BaseHourlySettings._check_seed", "np.random.randint")}
APPROVED_RANDOM_STATE = {("opendsm/eemeter/models/hourly/model.py", "self.settings.elasticnet._seed"), ("opendsm/eemeter/models/hourly/model.py", "seed + i")}
SOURCE_ATTRS = {("np", "random"), ("numpy", "random"), ("random", None), ("time", "time"), ("time", "time_ns"), ("time", "perf_counter"), ("time", "monotonic"),
                ("os", "urandom"), ("os", "getpid"), ("uuid", None), ("secrets", None), ("datetime", "now"), ("datetime", "utcnow"), ("datetime", "today"),
                ("date", "today"), ("Timestamp", "now"), ("Timestamp", "utcnow"), ("Timestamp", "today")}
SOURCE_BUILTINS = {"id", "hash"}
SEEDED_OK = {"default_rng", "RandomState", "Generator", "SeedSequence", "seed"}      # explicit generators (a seed argument is required)
# modules that are not on any fit / predict path (sample-data loaders, plotting, notebooks helpers)
OFF_PATH = ("opendsm/common/test_data.py", "opendsm/eemeter/samples/", "opendsm/eemeter/models/daily/plot.py", "opendsm/eemeter/models/billing/plot.py",
            "opendsm/eemeter/common/plot", "opendsm/drmeter", "opendsm/gridmeter")


def _files():
    for root, _, files in os.walk(os.path.join(REPO, PKG)):
        for f in sorted(files):
            if f.endswith(".py"):
                p = os.path.join(root, f)
                yield os.path.relpath(p, REPO), p


def _is_mutable_literal(n):
    return isinstance(n, (ast.List, ast.Dict, ast.Set, ast.ListComp, ast.DictComp, ast.SetComp)) or \
        (isinstance(n, ast.Call) and isinstance(n.func, ast.Name) and n.func.id in MUT_CALLS)


def _qual(stack):
    return ".".join(stack)


def _is_fresh(expr, local_assigns, depth=0):
    """is the value of `expr` an object nobody else references? (True / False / 'alias of ...')"""
    if expr is None or isinstance(expr, ast.Constant):
        return True
    if isinstance(expr, (ast.List, ast.Dict, ast.Set, ast.Tuple, ast.ListComp, ast.DictComp, ast.SetComp, ast.GeneratorExp, ast.JoinedStr)):
        return True
    if isinstance(expr, ast.BinOp):
        return True                           # a + b, a * n build a new object for lists / numbers
    if isinstance(expr, (ast.Compare, ast.UnaryOp)):
        return True
    if isinstance(expr, ast.BoolOp):
        r = [_is_fresh(v, local_assigns, depth) for v in expr.values]
        bad = [x for x in r if x is not True]
        return True if not bad else bad[0]
    if isinstance(expr, ast.IfExp):
        for v in (expr.body, expr.orelse):
            r = _is_fresh(v, local_assigns, depth)
            if r is not True:
                return r
        return True
    if isinstance(expr, ast.Call):
        f = expr.func
        if isinstance(f, ast.Attribute) and f.attr in ("get", "pop", "setdefault", "__getitem__") and not isinstance(f.value, ast.Call):
            return f"alias: element of {ast.unparse(f.value)} via .{f.attr}()"
        if isinstance(f, ast.Name) and f.id == "getattr":
            return f"alias: {ast.unparse(expr)}"
        return True                           # result of a call: a new object (copy(), list(), sorted(), constructors, methods building results)
    if isinstance(expr, ast.Name):
        if depth > 4:
            return f"alias: {expr.id}"
        vals = local_assigns.get(expr.id)
        if vals is None:
            return f"alias: non-local name {expr.id}"
        for v in vals:
            if v is None:
                return f"alias: {expr.id} (parameter or loop variable)"
            r = _is_fresh(v, local_assigns, depth + 1)
            if r is not True:
                return r
        return True
    if isinstance(expr, (ast.Attribute, ast.Subscript, ast.Starred)):
        return f"alias: {ast.unparse(expr)}"
    if isinstance(expr, ast.NamedExpr):
        return _is_fresh(expr.value, local_assigns, depth)
    return f"alias: {ast.unparse(expr)[:60]}"


def _local_assigns(fn):
    """name -> list of value expressions assigned to it inside fn (None = parameter / loop target / unpacking)"""
    out = {}
    for a in fn.args.args + fn.args.kwonlyargs + fn.args.posonlyargs + ([fn.args.vararg] if fn.args.vararg else []) + ([fn.args.kwarg] if fn.args.kwarg else []):
        out.setdefault(a.arg, []).append(None)
    for n in ast.walk(fn):
        if isinstance(n, ast.Assign):
            for t in n.targets:
                if isinstance(t, ast.Name):
                    out.setdefault(t.id, []).append(n.value)
                elif isinstance(t, (ast.Tuple, ast.List)):
                    for k, e in enumerate(t.elts):
                        if isinstance(e, ast.Name):
                            # a, b = f(...): parts of a call result are fresh; a, b = x, y pairs up
                            if isinstance(n.value, (ast.Tuple, ast.List)) and len(n.value.elts) == len(t.elts):
                                out.setdefault(e.id, []).append(n.value.elts[k])
                            elif isinstance(n.value, ast.Call):
                                out.setdefault(e.id, []).append(n.value)
                            else:
                                out.setdefault(e.id, []).append(None)
        elif isinstance(n, ast.AnnAssign) and isinstance(n.target, ast.Name) and n.value is not None:
            out.setdefault(n.target.id, []).append(n.value)
        elif isinstance(n, (ast.For, ast.comprehension)):
            for e in ast.walk(n.target):
                if isinstance(e, ast.Name):
                    out.setdefault(e.id, []).append(None)
        elif isinstance(n, ast.With):
            for it in n.items:
                if it.optional_vars is not None:
                    for e in ast.walk(it.optional_vars):
                        if isinstance(e, ast.Name):
                            out.setdefault(e.id, []).append(None)
        elif isinstance(n, ast.NamedExpr):
            out.setdefault(n.target.id, []).append(n.value)
    return out


def _self_attr(node):
    """'a' when node is self.a (also cls-instance style model_cls.a is NOT counted: from_dict owns the object it builds)"""
    if isinstance(node, ast.Attribute) and isinstance(node.value, ast.Name) and node.value.id == "self":
        return node.attr
    return None


def ownership(rel, tree):
    obs = []
    for cls in [n for n in ast.walk(tree) if isinstance(n, ast.ClassDef)]:
        methods = [m for m in cls.body if isinstance(m, (ast.FunctionDef, ast.AsyncFunctionDef))]
        mutated = {}
        for m in methods:
            for n in ast.walk(m):
                if isinstance(n, ast.Call) and isinstance(n.func, ast.Attribute) and n.func.attr in MUT_METHODS:
                    a = _self_attr(n.func.value)
                    if a:
                        mutated.setdefault(a, []).append(f"{m.name}:{n.lineno} .{n.func.attr}()")
                targets = n.targets if isinstance(n, (ast.Assign, ast.Delete)) else [n.target] if isinstance(n, ast.AugAssign) else []
                for t in targets:
                    if isinstance(t, ast.Subscript):
                        a = _self_attr(t.value)
                        if a:
                            mutated.setdefault(a, []).append(f"{m.name}:{n.lineno} item store")
                    if isinstance(n, ast.AugAssign):
                        a = _self_attr(t)
                        if a:
                            mutated.setdefault(a, []).append(f"{m.name}:{n.lineno} augmented assignment")
        if not mutated:
            continue
        for attr, sites in sorted(mutated.items()):
            problems = []
            n_assign = 0
            for m in methods:
                la = _local_assigns(m)
                for n in ast.walk(m):
                    pairs = []
                    if isinstance(n, ast.Assign):
                        for t in n.targets:
                            if _self_attr(t) == attr:
                                pairs.append(n.value)
                            elif isinstance(t, (ast.Tuple, ast.List)):
                                for k, e in enumerate(t.elts):
                                    if _self_attr(e) == attr:
                                        if isinstance(n.value, (ast.Tuple, ast.List)) and len(n.value.elts) == len(t.elts):
                                            pairs.append(n.value.elts[k])
                                        else:
                                            pairs.append(n.value)
                    elif isinstance(n, ast.AnnAssign) and _self_attr(n.target) == attr and n.value is not None:
                        pairs.append(n.value)
                    for v in pairs:
                        n_assign += 1
                        r = _is_fresh(v, la)
                        # numbers / strings mutated by += are rebinding, not in-place: only containers matter
                        if r is not True:
                            problems.append(f"{m.name}:{n.lineno} self.{attr} = {ast.unparse(v)[:70]}  ({r})")
            only_aug = all("augmented" in s for s in sites)
            if only_aug and not problems:
                continue        # counters and accumulators rebound by +=
            obs.append({"name": f"C03.owned.{rel.split('/')[-2]}/{rel.split('/')[-1][:-3]}.{cls.name}.{attr}", "ok": not problems, "severity": "violation",
                        "detail": ("; ".join(problems) + f" -- while the attribute is mutated in place at {sites[:3]}") if problems else
                        f"mutated in place at {len(sites)} site(s); all {n_assign} assignment(s) are fresh objects"})
    return obs


def module_state(rel, tree, src, all_trees):
    """module-level mutable containers of this module and in-place mutations of them anywhere in the package"""
    names = {}
    for st in tree.body:
        if isinstance(st, ast.Assign) and _is_mutable_literal(st.value):
            for t in st.targets:
                if isinstance(t, ast.Name):
                    names[t.id] = st.lineno
    hits = []
    if not names:
        return names, hits
    mod = rel[:-3].replace("/", ".")
    for rel2, tree2 in all_trees.items():
        # how this module's names are visible in rel2
        visible = {}
        if rel2 == rel:
            visible = {n: n for n in names}
        prefixes = set()
        for n in ast.walk(tree2):
            if isinstance(n, ast.ImportFrom) and n.module and (n.module == mod or mod.endswith("." + n.module.lstrip("."))):
                for a in n.names:
                    if a.name in names:
                        visible[a.asname or a.name] = a.name
            if isinstance(n, ast.ImportFrom) and n.module and mod.startswith(n.module + "."):
                for a in n.names:
                    if mod == f"{n.module}.{a.name}":
                        prefixes.add(a.asname or a.name)
            if isinstance(n, ast.Import):
                for a in n.names:
                    if a.name == mod:
                        prefixes.add(a.asname or a.name)

        def resolves(e):
            if isinstance(e, ast.Name) and e.id in visible:
                return visible[e.id]
            if isinstance(e, ast.Attribute) and e.attr in names and isinstance(e.value, ast.Name) and e.value.id in prefixes:
                return e.attr
            return None
        for fn in [n for n in ast.walk(tree2) if isinstance(n, (ast.FunctionDef, ast.AsyncFunctionDef, ast.Module))]:
            shadow = set()
            if not isinstance(fn, ast.Module):
                la = _local_assigns(fn)
                shadow = {k for k in la if not any(isinstance(g, ast.Global) and k in g.names for g in ast.walk(fn))}
            body = fn.body if not isinstance(fn, ast.Module) else [s for s in fn.body if not isinstance(s, (ast.FunctionDef, ast.AsyncFunctionDef, ast.ClassDef))]
            for st in body:
                for n in ast.walk(st):
                    if isinstance(n, (ast.FunctionDef, ast.AsyncFunctionDef)) and n is not fn:
                        continue
                    tgt = None
                    if isinstance(n, ast.Call) and isinstance(n.func, ast.Attribute) and n.func.attr in MUT_METHODS:
                        tgt = n.func.value
                    elif isinstance(n, (ast.Assign, ast.Delete)):
                        for t in n.targets:
                            if isinstance(t, ast.Subscript):
                                tgt = t.value
                    elif isinstance(n, ast.AugAssign):
                        tgt = n.target.value if isinstance(n.target, ast.Subscript) else n.target
                    if tgt is None:
                        continue
                    r = resolves(tgt)
                    if r and not (isinstance(tgt, ast.Name) and tgt.id in shadow):
                        if isinstance(fn, ast.Module) and rel2 == rel:
                            continue          # building the constant at import time
                        hits.append(f"{rel2}:{n.lineno} mutates {mod}.{r}")
    return names, hits


def scan():
    trees, srcs = {}, {}
    for rel, p in _files():
        srcs[rel] = open(p).read()
        trees[rel] = ast.parse(srcs[rel])
    obs = []
    # ---- ownership
    for rel, tree in trees.items():
        if rel.startswith(("opendsm/eemeter/models/", "opendsm/eemeter/common/", "opendsm/common/")) and not rel.startswith(OFF_PATH):
            obs += ownership(rel, tree)
    # ---- module state
    hits_all, n_names = [], 0
    for rel, tree in trees.items():
        names, hits = module_state(rel, tree, srcs[rel], trees)
        n_names += len(names)
        hits_all += [h for h in hits if not h.startswith(OFF_PATH)]
    obs.append({"name": "C03.module_state", "ok": not hits_all, "severity": "undecided",
                "detail": "; ".join(hits_all[:6]) or f"{n_names} module-level containers, none mutated in place"})
    # also: `global` statements that rebind module state inside functions
    globs = [f"{rel}:{n.lineno} global {', '.join(n.names)}" for rel, tree in trees.items() if not rel.startswith(OFF_PATH) for n in ast.walk(tree) if isinstance(n, ast.Global)]
    obs.append({"name": "C03.module_state.global_statements", "ok": not globs, "severity": "undecided", "detail": "; ".join(globs[:6]) or "no global statement in the package"})
    # ---- mutable defaults
    md_problems, n_md = [], 0
    for rel, tree in trees.items():
        if rel.startswith(OFF_PATH):
            continue
        parents = {}
        for n in ast.walk(tree):
            for ch in ast.iter_child_nodes(n):
                parents[ch] = n
        for fn in [n for n in ast.walk(tree) if isinstance(n, (ast.FunctionDef, ast.AsyncFunctionDef))]:
            defaults = list(zip(fn.args.args[::-1], fn.args.defaults[::-1])) + [(a, d) for a, d in zip(fn.args.kwonlyargs, fn.args.kw_defaults) if d is not None]
            for a, d in defaults:
                if not (_is_mutable_literal(d) or (isinstance(d, ast.Call) and isinstance(d.func, ast.Attribute) and d.func.attr in ("array", "zeros", "ones", "empty"))):
                    continue
                n_md += 1
                p = a.arg
                rebinds = [n for n in ast.walk(fn) if isinstance(n, ast.Assign) and any(isinstance(t, ast.Name) and t.id == p for t in n.targets)]
                for n in ast.walk(fn):
                    if isinstance(n, ast.Call) and isinstance(n.func, ast.Attribute) and n.func.attr in MUT_METHODS and isinstance(n.func.value, ast.Name) and n.func.value.id == p \
                            and not any(r.lineno < n.lineno for r in rebinds):
                        md_problems.append(f"{rel}:{n.lineno} {fn.name}() mutates its default argument {p} with .{n.func.attr}()")
                    if isinstance(n, (ast.Assign, ast.AugAssign)):
                        for t in (n.targets if isinstance(n, ast.Assign) else [n.target]):
                            if isinstance(t, ast.Subscript) and isinstance(t.value, ast.Name) and t.value.id == p and not any(r.lineno < n.lineno for r in rebinds):
                                md_problems.append(f"{rel}:{n.lineno} {fn.name}() stores into its default argument {p}")
                            if isinstance(n, ast.AugAssign) and isinstance(t, ast.Name) and t.id == p and not any(r.lineno < n.lineno for r in rebinds):
                                md_problems.append(f"{rel}:{n.lineno} {fn.name}() augments its default argument {p} in place")
                    # escape into object state: self.x = p  -> nobody in the sub-package may mutate .x of a foreign object
                    if isinstance(n, ast.Assign) and isinstance(n.value, ast.Name) and n.value.id == p:
                        for t in n.targets:
                            a2 = _self_attr(t)
                            if a2:
                                sub = os.path.dirname(rel)
                                for rel3, tree3 in trees.items():
                                    if os.path.dirname(rel3) != sub:
                                        continue
                                    for cls3 in [c for c in ast.walk(tree3) if isinstance(c, ast.ClassDef)]:
                                        own = any(isinstance(x, ast.Assign) and any(_self_attr(t3) == a2 for t3 in x.targets) and _is_fresh(x.value, {}) is True
                                                  for x in ast.walk(cls3)) and not (rel3 == rel and any(f is fn for f in ast.walk(cls3)))
                                        for x in ast.walk(cls3):
                                            if isinstance(x, ast.Call) and isinstance(x.func, ast.Attribute) and x.func.attr in MUT_METHODS and \
                                                    isinstance(x.func.value, ast.Attribute) and x.func.value.attr == a2 and not (own and _self_attr(x.func.value)):
                                                md_problems.append(f"{rel3}:{x.lineno} mutates .{a2}, which may be the shared default of {fn.name}({p}=...) in {rel}")
    obs.append({"name": "C03.mutable_defaults", "ok": not md_problems, "severity": "undecided",
                "detail": "; ".join(md_problems[:6]) or f"{n_md} mutable default arguments, none mutated or mutated through the attribute it escapes to"})
    # ---- sources
    found = set()
    for rel, tree in trees.items():
        if rel.startswith(OFF_PATH):
            continue
        stack = []

        def visit(node):
            pushed = False
            if isinstance(node, (ast.FunctionDef, ast.AsyncFunctionDef, ast.ClassDef)):
                stack.append(node.name)
                pushed = True
            if isinstance(node, ast.Call):
                f = node.func
                if isinstance(f, ast.Name) and f.id in SOURCE_BUILTINS:
                    found.add((rel, _qual(stack), f.id))
                if isinstance(f, ast.Attribute):
                    chain = ast.unparse(f).split(".")
                    for i in range(len(chain) - 1):
                        for (a, b) in SOURCE_ATTRS:
                            if chain[i] == a and (b is None or chain[i + 1] == b) and chain[-1] not in SEEDED_OK:
                                if a == "random" and i > 0 and chain[i - 1] in ("np", "numpy"):
                                    continue
                                found.add((rel, _qual(stack), ".".join(chain)))
            for ch in ast.iter_child_nodes(node):
                visit(ch)
            if pushed:
                stack.pop()
        visit(tree)
    extra = sorted(found - APPROVED_SOURCES)
    obs.append({"name": "C03.sources", "ok": not extra, "severity": "undecided",
                "detail": ("new process-global sources: " + "; ".join(f"{r}::{q} {api}" for r, q, api in extra[:6])) if extra else
                f"sources found {sorted(found)}; approved {sorted(APPROVED_SOURCES)}"})
    # ---- random_state plumbing
    rs = set()
    for rel, tree in trees.items():
        if rel.startswith(OFF_PATH) or rel.startswith("opendsm/common/"):
            continue
        for n in ast.walk(tree):
            if isinstance(n, ast.keyword) and n.arg in ("random_state", "seed") and not (isinstance(n.value, ast.Constant) and n.value.value is None and False):
                rs.add((rel, ast.unparse(n.value)))
    extra_rs = sorted(rs - APPROVED_RANDOM_STATE)
    obs.append({"name": "C03.random_state", "ok": not extra_rs, "severity": "undecided",
                "detail": ("random_state arguments not derived from the settings' seed: " + str(extra_rs[:5])) if extra_rs else f"random_state arguments: {sorted(rs)}"})
    # ---- thread pins
    rel = "opendsm/eemeter/models/hourly/model.py"
    pins, first_numeric = {}, None
    for st in trees[rel].body:
        if isinstance(st, ast.Assign) and isinstance(st.targets[0], ast.Subscript) and ast.unparse(st.targets[0].value) == "os.environ" and \
                isinstance(st.value, ast.Constant):
            pins[ast.literal_eval(st.targets[0].slice)] = (st.value.value, st.lineno)
        if isinstance(st, (ast.Import, ast.ImportFrom)) and first_numeric is None:
            mods = [a.name for a in st.names] if isinstance(st, ast.Import) else [st.module or ""]
            if any(m.split(".")[0] in ("numpy", "scipy", "sklearn", "pandas", "numba", "opendsm") for m in mods):
                first_numeric = st.lineno
    want = {"OMP_NUM_THREADS": "1", "MKL_NUM_THREADS": "1", "OPENBLAS_NUM_THREADS": "1"}
    ok = all(k in pins and pins[k][0] == v and (first_numeric is None or pins[k][1] < first_numeric) for k, v in want.items())
    obs.append({"name": "C03.thread_pins", "ok": ok, "severity": "undecided", "detail": f"pins {pins}; first numeric import at line {first_numeric}"})
    return obs


def run(tier="quick", seed=0):
    t0 = time.time()
    verif = os.path.dirname(os.path.dirname(os.path.abspath(__file__)))
    obs = scan()
    viol, und = [], []
    for o in obs:
        if o["ok"]:
            continue
        if o["severity"] == "undecided":
            und.append({"obligation": o["name"], "reason": "frame condition no longer holds structurally: " + o["detail"][:400]})
            continue
        path = os.path.join(verif, "replay", f"C03-{o['name'].replace('/', '_')}.py")
        os.makedirs(os.path.dirname(path), exist_ok=True)
        with open(path, "w") as f:
            f.write(f'#!/venv/bin/python\n"""Ownership obligation {o["name"]} failed (structural: no failing input).\n{o["detail"]}\n"""\nprint({o["detail"]!r})\nimport sys; sys.exit(1)\n')
        viol.append({"obligation": o["name"], "replay": path, "reproduced": False, "detail": o["detail"]})
    return {"name": "C03.frame", "kind": "table", "n_obligations": len(obs), "n_discharged": sum(bool(o["ok"]) for o in obs),
            "obligations": {o["name"]: ("discharged" if o["ok"] else ("failed" if o["severity"] == "violation" else "undecided")) for o in obs},
            "violations": viol, "known": [], "undecided": und, "details": {o["name"]: o["detail"] for o in obs}, "wall_s": round(time.time() - t0, 2)}


if __name__ == "__main__":
    for o in scan():
        print("ok " if o["ok"] else "FAIL", o["name"], "--", o["detail"][:300])
