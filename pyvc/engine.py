"""pyvc engine: symbolic execution of Python source text into verification conditions.

One *run* follows one path, chosen by a list of branch decisions; the explorer re-executes
the harness for every pending alternative (DFS by re-execution, so no state cloning and any
evaluator may fork by calling `run.branch`).  Obligations are discharged on the path's own
incremental solver as they are generated.
"""
from __future__ import annotations

import ast
import time

import z3

from .values import (UNDEF, MaybeUnbound, PathDead, SBoundLib, SClass, SEnumMember, SExcClass, SFunc, SIdx,
                     SLib, SObj, SOpaque, SSel, SSeq, SStr, SVec, SymRaise, Undefined, Unsupported,
                     is_num, is_z3, to_fraction, to_real, to_z3)

EXP = z3.Function("EXP", z3.RealSort(), z3.RealSort())
LOG = z3.Function("LOG", z3.RealSort(), z3.RealSort())

FEAS_TIMEOUT_MS = 3000
OB_TIMEOUT_MS = 30000
MAX_PATHS = 20000


class _Return(Exception):
    def __init__(self, value):
        self.value = value


class _Break(Exception):
    pass


class _Continue(Exception):
    pass


class Ob:
    __slots__ = ("name", "status", "loc", "kind", "time_s", "model", "reason", "finding", "smt2", "backend",
                 "path", "excluded")

    def __init__(self, name, kind, loc):
        self.name = name
        self.kind = kind
        self.loc = loc
        self.status = None  # 'discharged' | 'refuted' | 'unknown'
        self.time_s = 0.0
        self.model = None
        self.reason = ""
        self.finding = None
        self.smt2 = None
        self.backend = "z3"
        self.path = None
        self.excluded = False

    def to_json(self):
        d = {"name": self.name, "kind": self.kind, "loc": self.loc, "status": self.status,
             "backend": self.backend, "time_s": round(self.time_s, 4)}
        if self.finding:
            d["finding"] = self.finding
        if self.model is not None:
            d["model"] = self.model
        if self.reason:
            d["reason"] = self.reason
        return d


# ------------------------------------------------------------------ exp / log axiom instances

def _collect_apps(exprs, decl):
    seen, out, stack = set(), [], list(exprs)
    while stack:
        e = stack.pop()
        if e.get_id() in seen:
            continue
        seen.add(e.get_id())
        if z3.is_app(e):
            if e.decl().eq(decl):
                out.append(e)
            stack.extend(e.children())
    # de-duplicate syntactically
    uniq = {}
    for e in out:
        uniq[e.get_id()] = e
    return list(uniq.values())


def exp_axioms(exprs):
    """Axiom *instances* of the real exponential for the finitely many argument terms of a query
    (DESIGN §3.5).  All are true of exp; they keep the query quantifier-free."""
    apps = _collect_apps(exprs, EXP)
    if not apps:
        return []
    zero = z3.RealVal(0)
    terms = [(a.arg(0), a) for a in apps]
    ax = []
    for a, ea in terms:
        ax.append(ea > 0)
        ax.append(ea >= 1 + a)
        ax.append(z3.Implies(a == 0, ea == 1))
        ax.append(z3.Implies(a < 0, ea < 1))
        ax.append(z3.Implies(a > 0, ea > 1))
        # chord / tangent bounds against the point (0, 1):  a*ea >= ea - 1  (convexity)
        ax.append(a * ea >= ea - 1)
    for i in range(len(terms)):
        for j in range(i + 1, len(terms)):
            (a, ea), (b, eb) = terms[i], terms[j]
            ax.append(z3.Implies(a == b, ea == eb))
            ax.append(z3.Implies(a < b, z3.And(ea < eb, (b - a) * ea <= eb - ea, eb - ea <= (b - a) * eb)))
            ax.append(z3.Implies(b < a, z3.And(eb < ea, (a - b) * eb <= ea - eb, ea - eb <= (a - b) * ea)))
    return ax


# ------------------------------------------------------------------ one path

class Run:
    def __init__(self, decisions, job_name="", baseline=None, known_findings=None, ob_timeout_ms=OB_TIMEOUT_MS):
        self.decisions = list(decisions)
        self.pos = 0
        self.pending = []
        self.pc = []
        self.solver = z3.Solver()
        self.solver.set("timeout", FEAS_TIMEOUT_MS)
        self.obligations = []
        self.assumptions = set()
        self.opaque_calls = set()
        self.counter = 0
        self.inputs = {}  # name -> z3 const (harness inputs, reported in counterexamples)
        self.job_name = job_name
        self.covers = set()
        self.outcome = None
        self.known_findings = known_findings or {}
        self.ob_timeout_ms = ob_timeout_ms
        self.ob_counts = {}
        self.feas_time = 0.0
        self.guards = []  # temporary guards while evaluating guarded sub-expressions
        self.safety_known = {}  # safety obligation name -> known-finding id (sidecar SAFETY_KNOWN)

    # -- symbols
    def fresh(self, sort, hint="v"):
        self.counter += 1
        return z3.Const(f"{hint}!{self.counter}", sort)

    def fresh_real(self, hint="r"):
        return self.fresh(z3.RealSort(), hint)

    def fresh_int(self, hint="i"):
        return self.fresh(z3.IntSort(), hint)

    def fresh_bool(self, hint="b"):
        return self.fresh(z3.BoolSort(), hint)

    def input(self, name, sort):
        c = z3.Const(name, sort)
        self.inputs[name] = c
        return c

    # -- path condition
    def _add(self, cond):
        self.pc.append(cond)
        self.solver.add(cond)

    def _feasible(self, cond):
        t = time.time()
        self.solver.push()
        self.solver.add(cond)
        r = self.solver.check()
        self.solver.pop()
        if r == z3.unknown:
            # the incremental solver gave up (nonlinear path condition): one more try on a fresh nonlinear solver before the branch is explored.
            # Exploring an infeasible branch is sound but wasteful, and the code on it may leave the supported subset for no real reason.
            try:
                asserts, _ = ackermannize(list(self.pc) + [cond])
                for mk, budget in ((_solver_nlsat, 4000), (_solver_default, 2000)):
                    s2 = mk()
                    if s2 is None:
                        continue
                    s2.set("timeout", budget)
                    s2.add(*asserts)
                    r2 = s2.check()
                    if r2 != z3.unknown:
                        r = r2
                        break
            except z3.Z3Exception:
                pass
        self.feas_time += time.time() - t
        return r != z3.unsat  # unknown counts as feasible (sound: more paths explored)

    def branch(self, cond):
        """Decide a branch on `cond` (python bool or z3 Bool); forks the exploration when both
        outcomes are feasible under the current path condition."""
        if isinstance(cond, bool):
            return cond
        cond = z3.simplify(cond)
        if z3.is_true(cond):
            return True
        if z3.is_false(cond):
            return False
        guard = z3.And(*self.guards) if self.guards else None
        if self.pos < len(self.decisions):
            d = self.decisions[self.pos]
        else:
            c_t = cond if guard is None else z3.And(guard, cond)
            c_f = z3.Not(cond) if guard is None else z3.And(guard, z3.Not(cond))
            can_t = self._feasible(c_t)
            can_f = self._feasible(c_f) if can_t else True
            if can_t and can_f:
                d = True
                self.pending.append(self.decisions[: self.pos] + [False])
            elif can_t:
                d = True
            else:
                d = False
            self.decisions.append(d)
        self.pos += 1
        self._add(cond if d else z3.Not(cond))
        self.__dict__.setdefault("branch_conds", []).append(cond)
        return d

    def assume(self, cond, note=None):
        if isinstance(cond, bool):
            if not cond:
                raise PathDead()
            return
        cond = z3.simplify(cond)
        if z3.is_true(cond):
            return
        self._add(cond)
        if z3.is_false(cond) or self.solver.check() == z3.unsat:
            raise PathDead()

    # -- obligations
    def check(self, name, goal, kind="post", loc="", finding=None, unless=None, given=None):
        """Record and discharge the obligation  pc ⇒ goal  on this path.  With `given` (facts already
        established on this path) the obligation is  And(given) ⇒ goal : definitions the proof does not need
        are hidden from the solver."""
        n = self.ob_counts.get(name, 0)
        self.ob_counts[name] = n + 1
        ob = Ob(name, kind, loc)
        ob.path = list(self.decisions[: self.pos])
        self.obligations.append(ob)
        if self.guards:
            goal_z = z3.Implies(z3.And(*self.guards), to_z3(goal) if not isinstance(goal, bool) else z3.BoolVal(goal))
        else:
            goal_z = z3.BoolVal(goal) if isinstance(goal, bool) else goal
        t0 = time.time()
        saved_pc = None
        if given is not None:
            saved_pc = self.pc
            self.pc = [to_z3(g) for g in given if not isinstance(g, bool)]
        try:
            return self._check2(ob, goal_z, finding, unless, t0, given is not None)
        finally:
            if saved_pc is not None:
                self.pc = saved_pc

    def _check2(self, ob, goal_z, finding, unless, t0, restricted):
        status, model, reason = self._prove(goal_z)
        if restricted and status == "refuted":
            # a counter-model of the restricted context is not a counterexample of the program
            status, model, reason = "unknown", None, "not provable from the given facts alone"
        if status != "discharged" and finding is not None and all(f in self.known_findings for f in finding.split("+")) and unless is not None:
            # known-finding protocol (DESIGN §3.9): re-verify with the witness class excluded
            st2, model2, reason2 = self._prove(z3.Or(to_z3(unless), goal_z))
            if restricted and st2 == "refuted":
                st2, model2, reason2 = "unknown", None, "not provable from the given facts alone"
            if st2 == "discharged":
                ob.finding = finding
                ob.excluded = True
                ob.model = self._model_json(model) if model is not None else None
                status, model, reason = "discharged", None, f"holds outside witness class of known finding {finding}"
            elif status == "refuted":
                status, model, reason = st2, model2, (reason2 or "") + f" (outside known finding {finding})"
        if status != "discharged" and ob.kind == "safety" and ob.name in self.safety_known:
            fid = self.safety_known[ob.name]
            if all(f in self.known_findings for f in fid.split("+")):
                ob.finding = fid
                ob.excluded = True
                ob.model = self._model_json(model) if model is not None else None
                status, model, reason = "discharged", None, f"run-time failure that IS known finding {fid} (whole site attributed)"
        ob.status = status
        ob.reason = reason or ""
        ob.time_s = time.time() - t0
        if status != "discharged":
            ob.model = self._model_json(model)
            ob.smt2 = self.smt2_of(goal_z)
        elif getattr(self, "sample_smt", False) and not getattr(ob, "excluded", False) and not z3.is_true(z3.simplify(goal_z)):
            # thorough tier: a deterministic ~4 % sample of the discharged VCs is exported for a second opinion by cvc5
            import zlib
            if self.sample_smt == "all" or zlib.crc32((ob.name + "|" + "".join("T" if x else "F" for x in (self.decisions or []))).encode()) % 25 == 0:
                ob.smt2 = self.smt2_of(goal_z)
        return ob

    def _unused(self):
        pass

    def _prove(self, goal_z):
        """Decide  pc ⇒ goal  on a FRESH solver (the path's incremental solver is used for feasibility only:
        its nonlinear answers after many push/pop rounds proved unreliable).  `exp` is Ackermannized."""
        goal_s = z3.simplify(goal_z)
        if z3.is_true(goal_s):
            return "discharged", None, ""
        asserts, back = ackermannize(list(self.pc) + [z3.Not(goal_z)])
        reason = ""
        # portfolio with escalating budgets: most VCs fall to one of the tactics in well under a second, and
        # which one differs from query to query
        T = self.ob_timeout_ms
        plan = [(_solver_default, min(T, 1500)), (_solver_nlsat, min(T, 4000)), (_solver_smt, min(T, 1500)),
                (_solver_nlsat, T), (_solver_default, T)]
        for mk, budget in plan:
            s = mk()
            if s is None:
                continue
            s.set("timeout", int(budget))
            try:
                s.add(*asserts)
                r = s.check()
            except z3.Z3Exception as e:
                reason += f"; {e}"
                continue
            if r == z3.unsat:
                return "discharged", None, ""
            if r == z3.sat:
                m = s.model()
                if _model_ok(m, asserts):
                    return "refuted", _BackModel(m, back), ""
                reason += "; solver model failed validation"
                continue
            reason += "; " + s.reason_unknown()
        return "unknown", None, reason.strip("; ")

    def smt2_of(self, goal_z):
        asserts, _ = ackermannize(list(self.pc) + [z3.Not(goal_z)])
        s = z3.Solver()
        s.add(*asserts)
        return s.to_smt2()

    def _model_json(self, model):
        if model is None:
            return None
        out = {}
        for name, c in self.inputs.items():
            v = model.eval(c, model_completion=True)
            out[name] = _val_to_py(v)
        return out

    def cover(self, label):
        self.covers.add(label)


def ackermannize(asserts):
    """Replace every distinct application EXP(t) by a fresh real constant and add the axiom instances of
    exp for those arguments; the result is pure (QF_)NRA, which z3 decides with nlsat."""
    apps = _collect_apps(asserts, EXP)
    if not apps:
        return asserts, {}
    # innermost first, so nested applications are substituted consistently
    apps.sort(key=lambda a: len(a.sexpr()))
    ax = exp_axioms(asserts)
    allf = list(asserts) + ax
    back = {}
    for k, a in enumerate(apps):
        c = z3.Real(f"exp!{k}")
        back[c] = a
        allf = [z3.substitute(f, (a, c)) for f in allf]
    return allf, back


class _BackModel:
    def __init__(self, model, back):
        self.model = model
        self.back = back

    def eval(self, e, model_completion=True):
        return self.model.eval(e, model_completion=model_completion)


def _model_ok(m, asserts):
    try:
        for a in asserts:
            v = m.eval(a, model_completion=True)
            if z3.is_false(v):
                return False
            if not z3.is_true(v):
                v2 = z3.simplify(v)
                if z3.is_false(v2):
                    return False
        return True
    except z3.Z3Exception:
        return True


def _solver_default():
    return z3.Solver()


def _solver_nlsat():
    try:
        return z3.Tactic("qfnra-nlsat").solver()
    except z3.Z3Exception:
        return None


def _solver_smt():
    return z3.SimpleSolver()


def _has_uf(exprs):
    return bool(_collect_apps(exprs, EXP)) or bool(_collect_apps(exprs, LOG))


def _val_to_py(v):
    try:
        if z3.is_int_value(v):
            return v.as_long()
        if z3.is_rational_value(v):
            return {"num": str(v.numerator_as_long()), "den": str(v.denominator_as_long()),
                    "float": float(v.numerator_as_long()) / float(v.denominator_as_long())}
        if z3.is_algebraic_value(v):
            a = v.approx(20)
            return {"num": str(a.numerator_as_long()), "den": str(a.denominator_as_long()),
                    "float": float(a.numerator_as_long()) / float(a.denominator_as_long()), "approx": True}
        if z3.is_true(v):
            return True
        if z3.is_false(v):
            return False
        if z3.is_string_value(v):
            return v.as_string()
    except Exception:
        pass
    return str(v)
