"""Bounded part of C05: paired predictions of REAL fitted models on reporting sets that differ only in the observed
column (scaled, shuffled, partially NaN, all NaN, absent).  Hourly and CalTRACK-hourly prediction paths are outside
the row-wise proof (clustering / scalers / statsmodels); this exercises them, incl. DST weeks."""
import numpy as np
import pandas as pd

from bounded.common import Bounded, load_known

MODULE = "bounded.C05_independence"

ALTER = {
    "scaled": lambda d, rng: d.assign(observed=d["observed"] * 3.7),
    "shuffled": lambda d, rng: d.assign(observed=rng.permutation(d["observed"].values)),
    "partial_nan": lambda d, rng: d.assign(observed=d["observed"].where(rng.random(len(d)) > 0.35)),
    "all_nan": lambda d, rng: d.assign(observed=np.nan),
    "absent": lambda d, rng: d.drop(columns=["observed"]),
    "replaced": lambda d, rng: d.assign(observed=np.abs(rng.normal(1.0, 0.2, len(d))) + 0.05),
    "few_nan": lambda d, rng: d.assign(observed=d["observed"].where(rng.random(len(d)) > 0.05)),
}


def _cmp(p0, p1, cols):
    bad = []
    common = p0.index.intersection(p1.index)
    for c in cols:
        a, b = p0.loc[common, c].astype(float).values, p1.loc[common, c].astype(float).values
        both = np.isfinite(a) & np.isfinite(b)  # "every PRODUCED prediction is unchanged"
        if not np.array_equal(a[both], b[both]):
            bad.append(f"{c} differs on {int((a[both] != b[both]).sum())} rows (max abs {np.max(np.abs(a[both] - b[both]))})")
    return bad


def replay(case):
    rng = np.random.default_rng(case["seed"])
    fam = case["family"]
    if fam in ("hourly", "hourly_solar"):
        from bounded.hourly_common import fitted_hourly, hourly_frame
        import opendsm.eemeter as em
        solar = fam == "hourly_solar"
        m, _ = fitted_hourly(case["zone"], with_ghi=solar)
        df = hourly_frame(case["zone"], with_ghi=solar).loc[case["start"]:case["end"]].copy()
        if solar:
            # gaps in the reporting period's irradiance and temperature (they are filled by the data class)
            r7 = np.random.default_rng(7)
            for start in r7.choice(np.arange(24, len(df) - 24), size=12, replace=False):
                day_noon = (start // 24) * 24 + 10
                df.iloc[day_noon:day_noon + int(r7.integers(2, 6)), df.columns.get_loc("ghi")] = np.nan   # daytime sensor outages
            g = r7.choice(len(df), size=6, replace=False)
            df.iloc[g, df.columns.get_loc("temperature")] = np.nan
        p0 = m.predict(em.HourlyReportingData(df.copy(), is_electricity_data=True), ignore_disqualification=True)
        p1 = m.predict(em.HourlyReportingData(ALTER[case["alter"]](df.copy(), rng), is_electricity_data=True), ignore_disqualification=True)
        if len(p0) != len(p1):
            return {"ok": False, "problems": [f"row count {len(p0)} vs {len(p1)}"]}
        bad = _cmp(p0, p1, ["predicted"])
    elif fam in ("hourly_dup", "hourly_whatif", "hourly_long_gap"):
        from bounded.hourly_common import fitted_hourly, hourly_frame
        import opendsm.eemeter as em
        m, _ = fitted_hourly(case["zone"])
        if fam == "hourly_whatif":
            # a what-if run: the baseline's own timestamps and usage under other weather (the model was fitted in this process on exactly this usage)
            df = hourly_frame(case["zone"]).loc["2016-01-01":"2016-12-31"].copy()
            df["temperature"] = df["temperature"] + 6.0
        else:
            df = hourly_frame(case["zone"]).loc["2017-04-10":"2017-05-20"].copy()
        if fam == "hourly_long_gap":
            # a weather-feed outage of twelve days (the data class fills it)
            df.iloc[24 * 8: 24 * 20, df.columns.get_loc("temperature")] = np.nan
        if fam == "hourly_dup":
            # a feed that delivers some hours twice: first an early copy without the reading and with a provisional temperature, then the final one
            pos = np.random.default_rng(3).choice(np.arange(30, len(df) - 30), size=25, replace=False)
            early = df.iloc[pos].copy()
            early["observed"] = np.nan
            early["temperature"] = early["temperature"] + 4.0
            df = pd.concat([df.iloc[:pos.min()], early, df.iloc[pos.min():]]).sort_index(kind="stable")
            # the early copy must come first among equal stamps
            order = np.lexsort((df["observed"].notna().values, df.index.asi8))
            df = df.iloc[order]
        p0 = m.predict(em.HourlyReportingData(df.copy(), is_electricity_data=True), ignore_disqualification=True)
        p1 = m.predict(em.HourlyReportingData(ALTER[case["alter"]](df.copy(), rng), is_electricity_data=True), ignore_disqualification=True)
        if len(p0) != len(p1):
            return {"ok": False, "problems": [f"row count {len(p0)} vs {len(p1)}"]}
        bad = _cmp(p0, p1, ["predicted"])
    elif fam == "daily":
        from bounded.C01_roundtrip import fitted
        import opendsm.eemeter as em
        from opendsm.eemeter.samples import load_sample
        m, _, _ = fitted("daily", "current")
        meter, temp, meta = load_sample("il-electricity-cdd-hdd-daily")
        meter = meter.loc[meta["blackout_end_date"]:].iloc[:200]
        d = meter.rename(columns={"value": "observed"})
        alt = ALTER[case["alter"]](d.copy(), rng)
        r0 = em.DailyReportingData.from_series(d["observed"], temp, is_electricity_data=True)
        r1 = em.DailyReportingData.from_series(alt["observed"] if "observed" in alt else None, temp, is_electricity_data=True)
        p0, p1 = m.predict(r0, ignore_disqualification=True), m.predict(r1, ignore_disqualification=True)
        bad = _cmp(p0, p1, ["predicted", "predicted_unc", "heating_load", "cooling_load"])
    elif fam == "daily_from_hourly":
        # the daily data class fed with ONE hourly frame (usage and temperature per hour): hours whose usage is exactly zero are blanked for
        # electricity -- that must not touch the hour's temperature, so the day's mean temperature and prediction stay what they are
        from bounded.C01_roundtrip import fitted
        import opendsm.eemeter as em
        from bounded.hourly_common import hourly_frame
        m, _, _ = fitted("daily", "current")
        df = hourly_frame("UTC").loc["2017-02-01":"2017-05-31"].copy()          # the sample daily model was fitted on a UTC-stamped meter
        df["temperature"] = df["temperature"] + 9.0 * np.sin(np.arange(len(df)) / 24.0 * 2 * np.pi)      # a diurnal swing, so that WHICH hours count matters
        alt = df.copy()
        if case["alter"] == "zeros":
            z = np.random.default_rng(5).choice(len(alt), size=len(alt) // 12, replace=False)
            alt.iloc[z, alt.columns.get_loc("observed")] = 0.0
        elif case["alter"] == "scaled_zero":
            alt["observed"] = alt["observed"] * 0.0
        else:
            alt = ALTER[case["alter"]](alt, rng)
        r0 = em.DailyReportingData(df, is_electricity_data=True)
        r1 = em.DailyReportingData(alt, is_electricity_data=True)
        p0, p1 = m.predict(r0, ignore_disqualification=True), m.predict(r1, ignore_disqualification=True)
        bad = _cmp(p0, p1, ["predicted", "heating_load", "cooling_load"])
        t0, t1 = r0.df["temperature"], r1.df["temperature"]
        common = t0.index.intersection(t1.index)
        if not np.array_equal(t0[common].values, t1[common].values, equal_nan=True):
            bad.append(f"the data object's daily temperature depends on the usage column ({int((t0[common].values != t1[common].values).sum())} days differ)")
    elif fam == "hourly_outage":
        # a baseline that covers every month and weekday but has a meter outage over one (month, weekday) combination (the Saturdays of June)
        import opendsm.eemeter as em
        from bounded.hourly_common import hourly_frame, _CACHE
        key = ("outage_model", case["zone"])
        if key not in _CACHE:
            base = hourly_frame(case["zone"]).loc["2016-01-01":"2016-12-31"].copy()
            sat_june = (base.index.month == 6) & (base.index.dayofweek == 5)
            base.loc[sat_june, "observed"] = np.nan
            _CACHE[key] = em.HourlyModel(settings={"seed": 2}).fit(em.HourlyBaselineData(base, is_electricity_data=True), ignore_disqualification=True)
        m = _CACHE[key]
        df = hourly_frame(case["zone"]).loc["2017-05-20":"2017-07-10"].copy()
        p0 = m.predict(em.HourlyReportingData(df.copy(), is_electricity_data=True), ignore_disqualification=True)
        p1 = m.predict(em.HourlyReportingData(ALTER[case["alter"]](df.copy(), rng), is_electricity_data=True), ignore_disqualification=True)
        bad = _cmp(p0, p1, ["predicted"])
    elif fam == "caltrack_hourly":
        from bounded.C01_roundtrip import fitted
        from opendsm.eemeter.models.hourly_caltrack.data import HourlyReportingData as CTR
        from bounded.hourly_common import hourly_frame
        m, _, _ = fitted("caltrack_hourly")
        df = hourly_frame("UTC").iloc[24 * 365: 24 * 400].copy()
        # sub-hourly reporting data with some readings of exactly zero (the data class blanks zero electric usage)
        df = df.resample("30min").ffill()
        df["observed"] = df["observed"] / 2
        z = np.random.default_rng(11).choice(len(df), size=40, replace=False)
        df.iloc[z, df.columns.get_loc("observed")] = 0.0
        df.iloc[::7, df.columns.get_loc("temperature")] += 1.5
        p0 = m.predict(CTR(df.copy(), is_electricity_data=True))
        p1 = m.predict(CTR(ALTER[case["alter"]](df.copy(), rng), is_electricity_data=True))
        bad = _cmp(p0, p1, ["predicted"])
    else:
        raise ValueError(fam)
    return {"ok": not bad, "problems": bad}


def run(tier="quick", seed=0):
    b = Bounded("C05", "C05.paired", MODULE,
                "real fitted models (hourly: full-year America/Chicago baseline; daily: sample fit; thorough: + CalTRACK hourly) predicting "
                "paired reporting sets that differ only in observed usage {scaled, shuffled, 35% NaN, all NaN, column absent} over spans "
                "with and without a DST change; the daily data class fed with one hourly frame whose usage has exact zeros / is scaled by zero (electricity: zeros are blanked); "
                "an hourly model whose full-year baseline has a meter outage over the Saturdays of June; hourly reporting frames with hours delivered twice (an early copy without the reading and another temperature), the baseline's own usage under other weather (what-if), a twelve-day temperature outage; every prediction produced in both must be bit-identical; "
                "distinct = (family, span, alteration)",
                known_findings=load_known("C05"))
    spans = [("America/Chicago", "2017-03-05", "2017-03-19"), ("America/Chicago", "2017-06-03", "2017-06-09")]
    if tier == "thorough":
        spans += [("America/Chicago", "2017-10-29", "2017-11-11"), ("America/Chicago", "2017-01-01", "2017-12-31"),
                  ("Europe/London", "2017-03-20", "2017-04-02")]
    cases = []
    for z, a, e in spans:
        for alt in ALTER:
            cases.append({"family": "hourly", "zone": z, "start": a, "end": e, "alter": alt, "seed": seed})
    for alt in ALTER:
        cases.append({"family": "daily", "alter": alt, "seed": seed})
    for alt in ("few_nan", "all_nan", "absent", "replaced"):
        cases.append({"family": "hourly_solar", "zone": "America/Chicago", "start": "2017-05-01", "end": "2017-07-15", "alter": alt, "seed": seed})
    for alt in (ALTER if tier == "thorough" else ("replaced", "all_nan", "scaled")):
        cases.append({"family": "caltrack_hourly", "alter": alt, "seed": seed})
    for alt in ("zeros", "scaled_zero", "partial_nan", "absent") + (("scaled", "shuffled") if tier == "thorough" else ()):
        cases.append({"family": "daily_from_hourly", "alter": alt, "seed": seed})
    for alt in ("all_nan", "shuffled", "absent") + (("replaced", "partial_nan") if tier == "thorough" else ()):
        cases.append({"family": "hourly_outage", "zone": "America/Chicago", "alter": alt, "seed": seed})
    for fam, alts in (("hourly_dup", ("all_nan", "absent")), ("hourly_whatif", ("scaled", "absent")), ("hourly_long_gap", ("scaled", "absent", "partial_nan"))):
        for alt in alts + (("replaced",) if tier == "thorough" else ()):
            cases.append({"family": fam, "zone": "America/Chicago", "alter": alt, "seed": seed})
    for case in cases:
        try:
            r = replay(case)
        except Exception as ex:  # noqa
            import traceback
            r = {"ok": False, "problems": [f"exception {type(ex).__name__}: {ex}", traceback.format_exc()[-600:]]}
        b.case("C05.paired." + case["family"], case, r["ok"], nontrivial_key=tuple(str(v) for v in case.values()), detail=r["problems"])
    return b.result()
