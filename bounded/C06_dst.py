"""Bounded parts of C06.
(a) C06.dst.kernel -- bounded-EXHAUSTIVE over the statement's own quantifier: every IANA zone of the installed tz database x
    every UTC-offset change 2000-2037 x a 3-day contiguous hourly frame around it: run-time contract on the real
    _get_dst_indices / _transform_dst (quick tier: one representative per distinct (local hour, offset delta) class).
(b) C06.hourly.index -- the real HourlyModel.predict returns exactly the reporting frame's index, all finite, in
    several zones across DST changes, with and without usage."""
import datetime as dt
import zoneinfo

import numpy as np
import pandas as pd

from bounded.common import Bounded, load_known

MODULE = "bounded.C06_dst"


def transitions(zone, y0=2000, y1=2037):
    """UTC instants at which the zone's UTC offset changes (hour resolution scan, then refined)."""
    tz = zoneinfo.ZoneInfo(zone)
    out = []
    t = dt.datetime(y0, 1, 1, tzinfo=dt.timezone.utc)
    end = dt.datetime(y1 + 1, 1, 1, tzinfo=dt.timezone.utc)
    step = dt.timedelta(days=1)
    prev = t.astimezone(tz).utcoffset()
    while t < end:
        t2 = t + step
        off = t2.astimezone(tz).utcoffset()
        if off != prev:
            lo, hi = t, t2
            while hi - lo > dt.timedelta(minutes=1):
                mid = lo + (hi - lo) / 2
                if mid.astimezone(tz).utcoffset() == prev:
                    lo = mid
                else:
                    hi = mid
            out.append((hi.replace(second=0, microsecond=0), int((off - prev).total_seconds() // 60)))
            prev = off
        t = t2
    return out


def frame_around(zone, instant_utc, place="middle"):
    """3 whole local days of on-the-hour hourly rows (absolute-time contiguous) around the transition; place = 'last' / 'first': two days,
    the day of the change being the last / first day of the frame (a span that ends / begins on the change)"""
    ts = pd.Timestamp(instant_utc)
    idx = pd.date_range(ts.floor("h") - pd.Timedelta(hours=80), ts.floor("h") + pd.Timedelta(hours=80), freq="h").tz_convert(zone)
    dates = pd.Series(idx.date, index=idx)
    counts = dates.groupby(dates.values).size()
    whole = sorted(counts.index)[1:-1]                       # the first and last local dates of the scan are partial
    odd = [d for d in whole if counts[d] != 24]
    local_day = ts.tz_convert(zone).date()
    day = min(odd, key=lambda d: abs((d - local_day).days)) if odd else local_day
    k = whole.index(day)
    lo = k if place == "first" else k - 1
    hi = k if place == "last" else k + 1
    keep = set(whole[max(lo, 0):hi + 1])
    idx = idx[[d in keep for d in idx.date]]
    return pd.DataFrame({"observed": np.nan, "temperature": 50.0}, index=idx)


def check_kernel(zone, instant_iso, place="middle"):
    from opendsm.eemeter.models.hourly.model import _get_dst_indices, _transform_dst
    df = frame_around(zone, pd.Timestamp(instant_iso), place)
    bad = []
    if (df.index.minute != 0).any():
        return {"ok": True, "skipped": "zone's local hours are off the hour around this change (outside the stated precondition)"}
    dates = sorted(set(df.index.date))
    per_day = pd.Series(1, index=df.index).groupby(df.index.date).size()
    try:
        interp, mean = _get_dst_indices(df)
    except Exception as e:  # noqa
        return {"ok": False, "problems": [f"_get_dst_indices raised {type(e).__name__}: {e}; rows per day {per_day.tolist()}"]}
    exp_interp, exp_mean = [], []
    for k, d in enumerate(dates):
        hours = df.index.hour[df.index.date == d]
        if len(hours) == 23:
            missing = sorted(set(range(24)) - set(hours))
            exp_interp.append((k, missing[0]))
        if len(hours) == 25:
            seen, rep = set(), None
            for h in hours:
                if h in seen:
                    rep = h
                    break
                seen.add(h)
            exp_mean.append((k, rep))
    if [tuple(map(int, x)) for x in interp] != exp_interp:
        bad.append(f"interp {interp} expected {exp_interp}")
    if [tuple(map(int, x)) for x in mean] != exp_mean:
        bad.append(f"mean {mean} expected {exp_mean}")
    D = len(dates)
    model_out = np.arange(24.0 * D)  # what the 24-slot-per-day model emits
    try:
        out = _transform_dst(model_out, (interp, mean))
    except Exception as e:  # noqa
        return {"ok": False, "problems": bad + [f"_transform_dst raised {type(e).__name__}: {e}"]}
    if len(out) != len(df):
        bad.append(f"_transform_dst gives {len(out)} values for a frame of {len(df)} rows (days {per_day.tolist()})")
    else:
        # slots unaffected by the change keep their value: value v = 24*day + hour
        for pos, (ts, v) in enumerate(zip(df.index, out)):
            k = dates.index(ts.date())
            if float(v) == int(v) and int(v) != 24 * k + ts.hour and (k, ts.hour) not in [(a, b) for a, b in exp_mean]:
                bad.append(f"row {ts} got slot {v}, expected {24 * k + ts.hour}")
                break
    return {"ok": not bad, "problems": bad}


def transform_spec(pred, interp, mean):
    """what the clock normalisation must return, slot by slot: the 24-slot-per-day vector with the slot of every absent hour removed and, after
    the slot of every repeated hour, one extra value (the mean of that slot and the following one; the slot itself when it is the last)"""
    remove = {d * 24 + h for d, h in interp}
    insert = {d * 24 + h + 1 for d, h in mean}
    out = []
    for i in range(len(pred) + 1):
        if i in insert:
            out.append((pred[i - 1] + (pred[i] if i < len(pred) else pred[i - 1])) / 2)
        if i < len(pred) and i not in remove:
            out.append(pred[i])
    return np.array(out, dtype=float)


def check_transform(days, ops):
    """ops: tuple of (day, kind, hour), kind 'r' = absent hour (23-row day), 'i' = repeated hour (25-row day); the two lists reach the
    function each in date order, as _get_dst_indices builds them"""
    from opendsm.eemeter.models.hourly.model import _transform_dst
    interp = [(d, h) for d, k, h in ops if k == "r"]
    mean = [(d, h) for d, k, h in ops if k == "i"]
    pred = np.arange(24.0 * days) * 1.5 + 0.25
    want = transform_spec(pred, interp, mean)
    try:
        got = np.asarray(_transform_dst(pred.copy(), (list(interp), list(mean))), dtype=float)
    except Exception as e:  # noqa
        return {"ok": False, "problems": [f"_transform_dst raised {type(e).__name__}: {e}"]}
    if len(got) != len(want):
        return {"ok": False, "problems": [f"{len(got)} values, expected {len(want)} (= {len(pred)} - {len(interp)} + {len(mean)})"]}
    if not np.array_equal(got, want):
        k = int(np.argmax(got != want))
        return {"ok": False, "problems": [f"value {k} is {got[k]!r}, expected {want[k]!r}"]}
    return {"ok": True, "problems": []}


def transform_cases(tier):
    import itertools
    days = 6
    hours = {"r": [0, 1, 2, 23], "i": [0, 1, 2, 23]}
    out = []
    for n in (0, 1, 2, 3):
        for ds in itertools.combinations(range(days), n):
            if any(b - a < 2 for a, b in zip(ds, ds[1:])):
                continue        # two clock changes are never on consecutive days
            for kinds in itertools.product("ri", repeat=n):
                for hs in itertools.product(*[hours[k] for k in kinds]):
                    out.append((days, tuple(zip(ds, kinds, hs))))
    return out


def check_hourly_index(zone, start, end, usage):
    from bounded.hourly_common import fitted_hourly, reporting
    m, _ = fitted_hourly(zone)
    tr = {"with": None, "blank": lambda d: d.assign(observed=np.nan), "absent": lambda d: d.drop(columns=["observed"])}[usage]
    rep = reporting(zone, start, end, tr)
    p = m.predict(rep, ignore_disqualification=True)
    bad = []
    if not p.index.equals(rep.df.index):
        bad.append(f"prediction index differs from the reporting frame's index ({len(p)} vs {len(rep.df)} rows)")
    if p.index.has_duplicates and not rep.df.index.has_duplicates:
        bad.append("duplicated timestamps")
    if not p.index.is_monotonic_increasing:
        bad.append("not chronological")
    if not np.isfinite(p["predicted"].astype(float)).all():
        bad.append(f"{int((~np.isfinite(p['predicted'].astype(float))).sum())} non-finite predictions")
    # every supplied timestamp has its row (the frame may add rows to complete the first / last local day, never lose one)
    from bounded.hourly_common import hourly_frame
    full = hourly_frame(zone)
    supplied = full[(full.index.date >= pd.Timestamp(start).date()) & (full.index.date <= pd.Timestamp(end).date())].index
    lost = supplied.difference(p.index)
    if len(lost):
        bad.append(f"{len(lost)} supplied timestamps have no row in the prediction, e.g. {lost[0]}")
    # no timestamp is shifted: the value predicted for a timestamp does not depend on where the reporting span begins or ends
    wide = reporting(zone, str((pd.Timestamp(start) - pd.Timedelta(days=3)).date()), str((pd.Timestamp(end) + pd.Timedelta(days=3)).date()), tr)
    pw = m.predict(wide, ignore_disqualification=True)
    common = p.index.intersection(pw.index)
    if len(p) and p.index[-1].hour == 23 and len(p) > 1 and p.index[-2].hour == 23:
        # the span ends with the second 23:00 of a day whose clocks go back at midnight: the value synthesised for it uses the following hour when
        # there is one, so it legitimately depends on whether the span goes on
        common = common[common != p.index[-1]] if not common.has_duplicates else common[:-1]
    a, b = p.loc[common, "predicted"].astype(float), pw.loc[common, "predicted"].astype(float)
    if len(common) and not np.allclose(a.values, b.values, rtol=1e-9, atol=1e-9, equal_nan=True):
        k = int(np.nanargmax(np.abs(a.values - b.values)))
        bad.append(f"{int((~np.isclose(a.values, b.values, rtol=1e-9, atol=1e-9, equal_nan=True)).sum())} timestamps are predicted differently when the span is extended by 3 days "
                   f"on either side, e.g. {common[k]}: {a.values[k]!r} vs {b.values[k]!r}")
    return {"ok": not bad, "problems": bad}


def check_hourly_pair(zone_a, zone_b, start, end):
    """two meters in ONE process whose reporting frames cover the same instants (same first row, last row and row count) but sit in zones with
    different clock changes: each prediction must still carry its own frame's index, whatever was predicted before"""
    from bounded.hourly_common import fitted_hourly, reporting
    bad = []
    for z in (zone_a, zone_b, zone_a):
        m, _ = fitted_hourly(z)
        rep = reporting(z, start, end, None)
        try:
            p = m.predict(rep, ignore_disqualification=True)
        except Exception as e:  # noqa
            bad.append(f"{z} (after {zone_a if z != zone_a else zone_b}): predict raised {type(e).__name__}: {e}")
            continue
        if not p.index.equals(rep.df.index):
            bad.append(f"{z}: prediction index differs from the reporting frame's index ({len(p)} vs {len(rep.df)} rows)")
        elif not np.isfinite(p["predicted"].astype(float)).all():
            bad.append(f"{z}: non-finite predictions")
    return {"ok": not bad, "problems": bad}


def replay(case):
    if case["kind"] == "kernel":
        return check_kernel(case["zone"], case["instant"], case.get("place", "middle"))
    if case["kind"] == "hourly_pair":
        return check_hourly_pair(case["zone_a"], case["zone_b"], case["start"], case["end"])
    if case["kind"] == "transform":
        return check_transform(case["days"], tuple(tuple(o) for o in case["ops"]))
    return check_hourly_index(case["zone"], case["start"], case["end"], case["usage"])


def run(tier="quick", seed=0):
    known = load_known("C06")
    b = Bounded("C06", "C06.dst.kernel", MODULE,
                "every zone of the installed IANA database x every UTC-offset change 2000-2037 x 3 whole local days of hourly rows: "
                "_get_dst_indices finds exactly the 23-row days with their absent hour and the 25-row days with their repeated hour, "
                "_transform_dst maps 24 slots/day onto the frame's rows (length and unaffected slots). Quick tier: one representative per "
                "distinct (local hour of change, offset delta) class; thorough: all. distinct = (zone, instant)", known_findings=known)
    zones = sorted(zoneinfo.available_timezones())
    seen_classes = {}
    n_trans = 0
    skipped = 0
    for z in zones:
        try:
            trs = transitions(z)
        except Exception:
            continue
        for inst, delta in trs:
            n_trans += 1
            local = pd.Timestamp(inst).tz_convert(z)
            cls = (local.hour, local.minute, delta)
            if tier == "quick":
                if cls in seen_classes:
                    continue
                seen_classes[cls] = (z, inst)
            for place in ("middle", "last", "first"):
                case = {"kind": "kernel", "zone": z, "instant": pd.Timestamp(inst).isoformat(), "place": place}
                try:
                    r = replay(case)
                except Exception as e:  # noqa
                    r = {"ok": False, "problems": [f"harness exception {type(e).__name__}: {e}"]}
                if r.get("skipped"):
                    skipped += 1
                    continue
                kid = None
                if not r["ok"] and abs(delta) != 60:
                    kid = "C06-dst-not-one-hour"
                b.case("C06.dst.kernel", case, r["ok"], nontrivial_key=(z, case["instant"], place), detail=r.get("problems"), known_id=kid)
    b.extra["transitions_in_database"] = n_trans
    b.extra["off_the_hour_skipped"] = skipped
    b.exhaustive = tier == "thorough"
    # (c) the normalisation as a pure function against its slot-by-slot specification: every set of up to three changes on six days (never on consecutive days), absent and
    # repeated hours in every order (autumn before spring, spring before autumn), hours 0 / 1 / 2 / 23, the change on the first and the last day
    tcs = transform_cases(tier)
    for days, ops in tcs:
        case = {"kind": "transform", "days": days, "ops": [list(o) for o in ops]}
        r = replay(case)
        b.case("C06.dst.transform", case, r["ok"], nontrivial_key=("transform", ops), detail=r.get("problems"))
    b.extra["transform_cases"] = len(tcs)
    # (b) real predictions
    spans = [("America/Chicago", "2017-03-05", "2017-03-19"), ("America/Chicago", "2017-10-29", "2017-11-11"),
             ("America/Chicago", "2017-06-03", "2017-06-04"),
             # spans that END / BEGIN on the day of the change itself
             ("America/Chicago", "2017-03-05", "2017-03-12"), ("America/Chicago", "2017-10-29", "2017-11-05"),
             ("America/Chicago", "2017-03-12", "2017-03-16"), ("America/Chicago", "2017-11-05", "2017-11-09"),
             # several changes in one span, the autumn change BEFORE the spring one
             ("America/Chicago", "2016-10-20", "2017-03-20"), ("Australia/Sydney", "2017-03-20", "2017-10-10"),
             # a span that ends on the day clocks go back at midnight (the repeated hour is the last row)
             ("Asia/Beirut", "2017-10-20", "2017-10-28")]
    if tier == "thorough":
        spans += [("Europe/London", "2017-03-20", "2017-04-02"), ("Australia/Sydney", "2017-03-27", "2017-04-09"),
                  ("Asia/Tokyo", "2017-03-05", "2017-03-12")]
    for z, a, e in spans:
        for usage in ("with", "blank", "absent"):
            case = {"kind": "hourly", "zone": z, "start": a, "end": e, "usage": usage}
            try:
                r = replay(case)
            except Exception as ex:  # noqa
                import traceback
                r = {"ok": False, "problems": [f"exception {type(ex).__name__}: {ex}", traceback.format_exc()[-500:]]}
            b.case("C06.hourly.index", case, r["ok"], nontrivial_key=(z, a, usage), detail=r.get("problems"))
    pairs = [("America/Phoenix", "America/Denver", "2017-01-01", "2017-12-31")]
    if tier == "thorough":
        pairs.append(("Africa/Lagos", "Europe/Paris", "2017-01-01", "2017-12-31"))
    for za, zb, a, e in pairs:
        case = {"kind": "hourly_pair", "zone_a": za, "zone_b": zb, "start": a, "end": e}
        try:
            r = replay(case)
        except Exception as ex:  # noqa
            import traceback
            r = {"ok": False, "problems": [f"exception {type(ex).__name__}: {ex}", traceback.format_exc()[-500:]]}
        b.case("C06.hourly.index", case, r["ok"], nontrivial_key=(za, zb, a), detail=r.get("problems"))
    return b.result()
