"""Front end: reads the real source from the working tree on every run (DESIGN §3.1).

Nothing here imports the code under verification; it is parsed with `ast`.
What extraction drops is listed in DROPS and repeated in every evidence file.
"""
from __future__ import annotations

import ast
import hashlib
import os

from .values import SClass, SFunc, Unsupported

REPO = os.environ.get("VERIF_REPO", "/repo")
VERIF = os.path.dirname(os.path.dirname(os.path.abspath(__file__)))

DROPS = [
    "decorators (numba.jit, classmethod/staticmethod are honoured for binding only, pydantic validator/computed_field/cached_property wrappers)",
    "docstrings and bare string expression statements",
    "type annotations",
    "print(...) calls",
    "comments",
    "the values of array-typed default arguments (np.array([]))",
]


class ModuleInfo:
    def __init__(self, root, relpath):
        self.root = root
        self.relpath = relpath
        self.path = os.path.join(root, relpath)
        with open(self.path, "r", encoding="utf-8") as f:
            self.source = f.read()
        self.tree = ast.parse(self.source, filename=self.path)
        self.lines = self.source.splitlines()
        self.names = {}  # top-level name -> ('func'|'class'|'import'|'importfrom'|'assign', payload)
        self.star_imports = []
        self._index(self.tree.body)
        self._classes = {}
        self.is_repo = os.path.abspath(root) == os.path.abspath(REPO)

    @property
    def modname(self):
        p = self.relpath[:-3] if self.relpath.endswith(".py") else self.relpath
        if p.endswith("/__init__"):
            p = p[: -len("/__init__")]
        return p.replace("/", ".")

    def _index(self, body):
        for st in body:
            if isinstance(st, (ast.FunctionDef, ast.AsyncFunctionDef)):
                self.names[st.name] = ("func", st)
            elif isinstance(st, ast.ClassDef):
                self.names[st.name] = ("class", st)
            elif isinstance(st, ast.Import):
                for a in st.names:
                    nm = a.asname or a.name.split(".")[0]
                    self.names[nm] = ("import", a.name if a.asname else a.name.split(".")[0])
            elif isinstance(st, ast.ImportFrom):
                mod = st.module or ""
                if st.level:
                    base = self.modname.split(".")
                    if not self.relpath.endswith("__init__.py"):
                        base = base[:-1]
                    base = base[: len(base) - (st.level - 1)]
                    mod = ".".join(base + ([mod] if mod else []))
                for a in st.names:
                    if a.name == "*":
                        self.star_imports.append(mod)
                        continue
                    self.names[a.asname or a.name] = ("importfrom", (mod, a.name))
            elif isinstance(st, ast.Assign):
                for t in st.targets:
                    if isinstance(t, ast.Name):
                        self.names[t.id] = ("assign", st.value)
                    elif isinstance(t, (ast.Tuple, ast.List)):
                        for e in t.elts:
                            if isinstance(e, ast.Name):
                                self.names[e.id] = ("assign_unpack", st)
            elif isinstance(st, ast.AnnAssign) and isinstance(st.target, ast.Name) and st.value is not None:
                self.names[st.target.id] = ("assign", st.value)
            elif isinstance(st, (ast.If, ast.Try)):
                # names defined under module-level if/try: index the bodies too (first wins)
                for sub in ([st.body, st.orelse] if isinstance(st, ast.If) else [st.body] + [h.body for h in st.handlers]):
                    saved = dict(self.names)
                    self._index(sub)
                    for k, v in saved.items():
                        self.names[k] = v

    def segment(self, node):
        return ast.get_source_segment(self.source, node) or ""

    def loc(self, node):
        return f"{self.relpath}:{getattr(node, 'lineno', '?')}"


class World:
    """Cache of parsed modules + records of what was read (for evidence)."""

    def __init__(self, repo=REPO, verif=VERIF):
        self.repo = repo
        self.verif = verif
        self.modules = {}
        self.functions_read = {}  # target -> dict(path, lines, sha256)

    # -- modules ---------------------------------------------------------------
    def module(self, relpath, root=None):
        root = root or self.repo
        key = (os.path.abspath(root), relpath)
        if key not in self.modules:
            if not os.path.exists(os.path.join(root, relpath)):
                raise Unsupported(f"source file not found: {relpath}")
            self.modules[key] = ModuleInfo(root, relpath)
        return self.modules[key]

    def module_by_dotted(self, dotted):
        """opendsm.x.y -> ModuleInfo in /repo, pyvc-sidecar modules in /verif; None for libraries."""
        parts = dotted.split(".")
        for root in (self.repo, self.verif):
            if parts[0] not in ("opendsm", "contracts"):
                continue
            if parts[0] == "opendsm" and root != self.repo:
                continue
            if parts[0] == "contracts" and root != self.verif:
                continue
            p = os.path.join(*parts)
            if os.path.isfile(os.path.join(root, p + ".py")):
                return self.module(p + ".py", root)
            if os.path.isfile(os.path.join(root, p, "__init__.py")):
                return self.module(os.path.join(p, "__init__.py"), root)
        return None

    # -- functions and classes ----------------------------------------------------
    def resolve_target(self, target, root=None):
        """'path.py::A.b.c' -> SFunc | SClass  (walks classes and nested function definitions)."""
        relpath, _, qual = target.partition("::")
        mod = self.module(relpath, root)
        parts = qual.split(".")
        kind, node = mod.names.get(parts[0], (None, None))
        if kind not in ("func", "class"):
            raise Unsupported(f"contract target not found: {target}")
        owner = None
        for i, p in enumerate(parts[1:], start=1):
            found = None
            for st in ast.walk(node) if isinstance(node, (ast.FunctionDef,)) else node.body:
                if isinstance(st, (ast.FunctionDef, ast.ClassDef)) and st.name == p and st is not node:
                    found = st
                    break
            if found is None:
                raise Unsupported(f"contract target not found: {target}")
            if isinstance(node, ast.ClassDef):
                owner = self.get_class(mod, node, ".".join(parts[:i]))
            node = found
        if isinstance(node, ast.ClassDef):
            return self.get_class(mod, node, qual)
        self.note_function(mod, node, qual)
        return SFunc(mod, node, qual, owner=owner)

    def get_class(self, mod, node, qualname):
        key = (mod.path, qualname)
        c = mod._classes.get(key)
        if c is None:
            c = SClass(mod, node, qualname)
            mod._classes[key] = c
        return c

    def note_function(self, mod, node, qual):
        if not mod.is_repo:
            return
        seg = mod.segment(node)
        self.functions_read[f"{mod.relpath}::{qual}"] = {
            "path": mod.relpath,
            "lines": [node.lineno, getattr(node, "end_lineno", node.lineno)],
            "sha256": hashlib.sha256(seg.encode()).hexdigest()[:16],
        }
