"""Exploration of harnesses: jobs, paths, modular contracts, results."""
from __future__ import annotations

import ast
import importlib
import inspect
import os
import sys
import time
import traceback

import z3

from . import libmodels
from .engine import MAX_PATHS, Run
from .frontend import VERIF, World
from .interp import Frame, Interp
from .values import PathDead, SFunc, SymRaise, Unsupported


class ContractSpec:
    """A sidecar contract class bound to its source (symbolic mode)."""

    def __init__(self, world, modname, decl):
        self.target = decl.target
        self.clsname = decl.cls.__name__
        self.modname = modname
        self.relpath = modname.replace(".", "/") + ".py"
        self.opts = dict(getattr(decl.cls, "_opts", {}))
        self.world = world
        self._fn = {}

    def fn(self, name):
        if name not in self._fn:
            try:
                self._fn[name] = self.world.resolve_target(f"{self.relpath}::{self.clsname}.{name}", root=VERIF)
            except Unsupported:
                self._fn[name] = None
        return self._fn[name]

    def _call(self, interp, name, params, node, extra=None):
        f = self.fn(name)
        if f is None:
            return None
        want = [a.arg for a in f.node.args.args]
        kw = {}
        for w in want:
            if extra and w in extra:
                kw[w] = extra[w]
            elif w in params:
                kw[w] = params[w]
            else:
                raise Unsupported(f"contract {self.clsname}.{name} wants unknown parameter {w}")
        return interp.call_function(f, [], kw, node)

    def apply(self, interp, fn, args, kwargs, node):
        fr = Frame(fn.module, fn)
        interp.bind_args(fn, fr, args, kwargs, node)
        params = dict(fr.locals)
        short = fn.qualname
        pre = self._call(interp, "requires", params, node)
        if pre is not None:
            interp.run.check(f"{interp.config.get('ob_prefix', '')}call[{short}].requires", interp.truth(pre, node),
                             kind="pre", loc=interp.call_stack[-1] if interp.call_stack else "")
        result = self._call(interp, "returns", params, node)
        post = self._call(interp, "ensures", params, node, extra={"result": result})
        if post is not None:
            interp.run.assume(interp.truth(post, node))
        interp.run.assumptions.add(f"[modular] call to {fn.target} replaced by its contract {self.modname}.{self.clsname} (verified separately)")
        return result


def load_sidecar(modname):
    for p in (VERIF, os.path.join(VERIF, ".overlay")):
        if p not in sys.path:
            sys.path.insert(0, p)
    from . import api
    mod = importlib.import_module(modname)
    return mod, api.REGISTRY.get(modname, []), api.CONTRACTS.get(modname, [])


def make_jobs(modnames, only=None):
    jobs = []
    for modname in modnames:
        mod, harnesses, contracts = load_sidecar(modname)
        for h in harnesses:
            for ci, case in enumerate(h.cases):
                jobs.append({"kind": "harness", "module": modname, "name": h.name, "id": h.id, "prop": h.prop,
                             "case": case, "case_index": ci, "opts": _plain(h.opts)})
        for c in contracts:
            opts = getattr(c.cls, "_opts", {})
            for ci, case in enumerate(opts.get("cases", [{}])):
                jobs.append({"kind": "contract", "module": modname, "name": c.cls.__name__, "target": c.target,
                             "id": opts.get("id", f"{opts.get('prop', '?')}.contract[{c.target.split('::')[1]}]"),
                             "prop": opts.get("prop", "?"), "case": case, "case_index": ci, "opts": _plain(opts)})
    if only:
        jobs = [j for j in jobs if any(o in j["id"] or o == j["name"] for o in only)]
    return jobs


def _plain(opts):
    return {k: v for k, v in opts.items() if isinstance(v, (str, int, float, bool, list, dict, tuple, type(None)))}


def build_config(world, job):
    """contracts / opaque effects visible to this job (declared in the sidecar module and its `uses`)."""
    modname = job["module"]
    mod, _, _ = load_sidecar(modname)
    cfg = {"contracts": {}, "opaques": {}, "forbidden": set(), "invariants": {}, "safety_known": {}}
    mods = [modname] + list(getattr(mod, "USES", []))
    for mn in mods:
        m, _, contracts = load_sidecar(mn)
        for c in contracts:
            if getattr(c.cls, "_opts", {}).get("modular", True):
                cfg["contracts"][c.target] = ContractSpec(world, mn, c)
        for target, eff in getattr(m, "OPAQUE", {}).items():
            if eff is None:
                cfg["opaques"][target] = None
            else:
                cfg["opaques"][target] = world.resolve_target(f"{mn.replace('.', '/')}.py::{eff}", root=VERIF)
        cfg["forbidden"] |= set(getattr(m, "FORBIDDEN", []))
        cfg["safety_known"].update(getattr(m, "SAFETY_KNOWN", {}))
        cfg.setdefault("opaque_classes", set()).update(getattr(m, "OPAQUE_CLASSES", []))
        cfg.setdefault("opaque_class_modules", set()).update(getattr(m, "OPAQUE_CLASS_MODULES", []))
    inline = set(job["opts"].get("inline", []) or [])
    for t in inline:
        cfg["contracts"].pop(t, None)
    for t, eff in (job["opts"].get("opaque", {}) or {}).items():
        cfg["opaques"][t] = None if eff is None else world.resolve_target(f"{modname.replace('.', '/')}.py::{eff}", root=VERIF)
    if job["opts"].get("no_contracts"):
        cfg["contracts"] = {}
    if job["opts"].get("permissive"):
        cfg["permissive"] = True
    return cfg


_WORLD = None


def _world():
    global _WORLD
    if _WORLD is None:
        _WORLD = World()
    return _WORLD


def run_path(task):
    """Run ONE path of a job (task = dict(job, decisions, known_findings, ob_timeout_ms, keep_smt)).
    Returns the path's obligations plus the decision prefixes of the alternatives it discovered."""
    job = task["job"]
    decisions = task["decisions"]
    t0 = time.time()
    world = _world()
    before = set(world.functions_read)
    out = {"job_key": task.get("job_key"), "status": None, "obligations": [], "pending": [], "unsupported": [],
           "assumptions": [], "opaque_calls": [], "covers": [], "sample_inputs": None, "error": None,
           "feas_time": 0.0, "n_decisions": len(decisions)}
    try:
        cfg = build_config(world, job)
        cfg["ob_prefix"] = ""
        relpath = job["module"].replace(".", "/") + ".py"
        if job["kind"] == "harness":
            hfn = world.resolve_target(f"{relpath}::{job['name']}", root=VERIF)
        else:
            spec = ContractSpec(world, job["module"], _find_contract(job))
            cfg["verifying"] = job["target"]
        run = Run(decisions, job_name=job["id"], known_findings=task.get("known_findings"),
                  ob_timeout_ms=task.get("ob_timeout_ms", 30000))
        run.safety_known = cfg.get("safety_known", {})
        run.sample_smt = task.get("keep_smt") or False
        interp = Interp(world, run, cfg)
        try:
            if job["kind"] == "harness":
                _run_harness(interp, hfn, job)
            else:
                _run_contract(interp, spec, job, world)
            out["status"] = "completed"
            if task.get("want_sample", True):
                r = run.solver.check()
                if r == z3.sat:
                    out["sample_inputs"] = run._model_json(run.solver.model())
                    out["sat"] = True
        except PathDead:
            out["status"] = "dead"
        except SymRaise as e:
            out["status"] = "raised"
            if getattr(e, "code_assertion", None):
                # an `assert` of the code itself that the symbolic model could not prove on this path
                run.check(f"{job['id']}.code_assertion[{e.code_assertion.rsplit(':', 1)[0]}]", False, kind="assert", loc=e.code_assertion)
            else:
                run.check(f"{job['id']}.no_unexpected_exception[{e.exc_name}]", False, kind="post", loc=_loc_of(e))
        except Unsupported as e:
            out["status"] = "unsupported"
            out["unsupported"].append({"msg": e.msg, "where": e.where or "", "path": len(decisions)})
        except RecursionError:
            out["status"] = "unsupported"
            out["unsupported"].append({"msg": "interpreter recursion limit", "where": job["id"]})
        except (TypeError, AttributeError, KeyError, IndexError, ValueError, NotImplementedError, ZeroDivisionError, z3.Z3Exception) as e:
            # the symbolic models were handed a combination of values they do not cover (typically code that is NOT on the unchanged tree): this is
            # a construct the engine cannot execute, i.e. undecided -- never a verdict, and not a reason to void the other harnesses of the check
            tb = traceback.extract_tb(e.__traceback__)
            inner = next((f"{os.path.basename(fr.filename)}:{fr.lineno}" for fr in reversed(tb) if "/pyvc/" in fr.filename), "")
            where = (interp.call_stack[-1] if getattr(interp, "call_stack", None) else job["id"])
            out["status"] = "unsupported"
            out["unsupported"].append({"msg": f"no symbolic model for an operation on these values ({type(e).__name__}: {str(e)[:160]}) [{inner}]", "where": where,
                                       "path": len(decisions)})
        for ob in run.obligations:
            d = ob.to_json()
            if task.get("keep_smt") and ob.smt2:
                d["smt2"] = ob.smt2
            d["path"] = "".join("T" if x else "F" for x in (ob.path or []))
            out["obligations"].append(d)
        out["pending"] = run.pending
        out["assumptions"] = sorted(run.assumptions)
        out["opaque_calls"] = sorted(run.opaque_calls)
        out["covers"] = sorted(run.covers)
        out["feas_time"] = run.feas_time
    except Unsupported as e:
        out["status"] = "unsupported"
        out["unsupported"].append({"msg": e.msg, "where": e.where or "setup"})
    except Exception as e:  # engine error
        out["status"] = "error"
        out["error"] = f"{type(e).__name__}: {e}\n{traceback.format_exc()[-3000:]}"
    out["functions_read"] = {k: v for k, v in world.functions_read.items()}
    out["wall_s"] = round(time.time() - t0, 3)
    return out


def new_job_result(job):
    return {"job": {k: job[k] for k in ("kind", "module", "name", "id", "prop", "case", "case_index")},
            "paths": 0, "dead_paths": 0, "completed_paths": 0, "raised_paths": 0, "obligations": [],
            "unsupported": [], "assumptions": set(), "opaque_calls": set(), "covers": set(),
            "sample_inputs": None, "sat_paths": 0, "error": None, "feas_time": 0.0, "functions_read": {},
            "cpu_s": 0.0}


def merge_path(res, out):
    res["paths"] += 1
    st = out["status"]
    if st == "completed":
        res["completed_paths"] += 1
    elif st == "dead":
        res["dead_paths"] += 1
    elif st == "raised":
        res["raised_paths"] += 1
    if out.get("sat"):
        res["sat_paths"] += 1
        if res["sample_inputs"] is None:
            res["sample_inputs"] = out["sample_inputs"]
    res["obligations"].extend(out["obligations"])
    res["unsupported"].extend(out["unsupported"])
    res["assumptions"] |= set(out["assumptions"])
    res["opaque_calls"] |= set(out["opaque_calls"])
    res["covers"] |= set(out["covers"])
    res["feas_time"] += out["feas_time"]
    res["functions_read"].update(out["functions_read"])
    res["cpu_s"] += out["wall_s"]
    if out["error"] and not res["error"]:
        res["error"] = out["error"]


def finish_job(res):
    res["assumptions"] = sorted(res["assumptions"])
    res["opaque_calls"] = sorted(res["opaque_calls"])
    res["covers"] = sorted(res["covers"])
    return res


def run_job(job, known_findings=None, ob_timeout_ms=30000, max_paths=MAX_PATHS, keep_smt=False):
    """Sequential exploration of one job (debugging; the pool scheduler in main.py is the normal route)."""
    t0 = time.time()
    res = new_job_result(job)
    worklist = [[]]
    while worklist:
        decisions = worklist.pop()
        if res["paths"] >= max_paths:
            res["unsupported"].append({"msg": f"path limit {max_paths} reached", "where": job["id"]})
            break
        out = run_path({"job": job, "decisions": decisions, "known_findings": known_findings,
                        "ob_timeout_ms": ob_timeout_ms, "keep_smt": keep_smt})
        merge_path(res, out)
        worklist.extend(out["pending"])
    res["wall_s"] = round(time.time() - t0, 3)
    return finish_job(res)


def _loc_of(e):
    n = getattr(e, "node", None)
    return f"line {getattr(n, 'lineno', '?')}"


def _find_contract(job):
    _, _, contracts = load_sidecar(job["module"])
    for c in contracts:
        if c.cls.__name__ == job["name"]:
            return c
    raise RuntimeError("contract not found")


def _make_inputs(interp, fn: SFunc, case):
    frame = Frame(fn.module, fn)
    kwargs = {}
    for a in fn.node.args.args:
        if a.arg in case:
            kwargs[a.arg] = case[a.arg]
        else:
            if a.annotation is None:
                raise Unsupported(f"harness parameter {a.arg} has neither a case value nor an annotation")
            spec = interp.eval(a.annotation, frame)
            kwargs[a.arg] = libmodels.make_input(interp, a.arg, spec)
    return kwargs


def _run_harness(interp, hfn, job):
    kwargs = _make_inputs(interp, hfn, job["case"])
    interp.call_function(hfn, [], kwargs, None)


def _run_contract(interp, spec: ContractSpec, job, world):
    """Verify a function against its own contract: assume requires, run the body, check ensures."""
    req = spec.fn("requires")
    params_fn = spec.fn("params") or req
    kwargs = _make_inputs(interp, params_fn, job["case"])
    # the case may carry concrete arguments the requires() signature does not name
    params = dict(job["case"])
    params.update(kwargs)
    if req is not None:
        pre = spec._call(interp, "requires", params, None)
        interp.run.assume(interp.truth(pre, None))
    target = world.resolve_target(spec.target)
    call_kwargs = {a.arg: params[a.arg] for a in target.node.args.args if a.arg in params}
    self_first = spec.opts.get("self")
    from .libmodels import Outcome
    try:
        result = interp.call_function(target, [], call_kwargs, None)
    except SymRaise as e:
        exc = spec.fn("raises")
        if exc is None:
            raise
        o = Outcome("raise", None, e.exc_name.split(".")[-1], tuple(b.split(".")[-1] for b in e.bases))
        ok = spec._call(interp, "raises", params, None, extra={"exc": o.exc, "out": o})
        interp.run.check(f"{job['id']}.raises", interp.truth(ok, None), kind="post")
        return
    post = spec._call(interp, "ensures", params, None, extra={"result": result})
    if post is not None:
        if isinstance(post, dict):
            for k, v in post.items():
                interp.run.check(f"{job['id']}.ensures.{k}", interp.truth(v, None), kind="post")
        else:
            interp.run.check(f"{job['id']}.ensures", interp.truth(post, None), kind="post")
