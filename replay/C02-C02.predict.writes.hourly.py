#!/venv/bin/python
"""Flow obligation C02.predict.writes.hourly (engine B) failed; a static may-analysis gives no input.
self attributes written on the predict path: ['_T_edge_bin_coeffs', '_categorical_features', '_df_temporal_clusters', '_processed_meter_data', '_processed_meter_data_full', '_ts_feature_norm', '_ts_features']; allowed: ['_T_edge_bin_coeffs', '_categorical_features', '_processed_meter_data', '_processed_meter_data_full', '_ts_feature_norm', '_ts_features']
"""
print("self attributes written on the predict path: ['_T_edge_bin_coeffs', '_categorical_features', '_df_temporal_clusters', '_processed_meter_data', '_processed_meter_data_full', '_ts_feature_norm', '_ts_features']; allowed: ['_T_edge_bin_coeffs', '_categorical_features', '_processed_meter_data', '_processed_meter_data_full', '_ts_feature_norm', '_ts_features']")
import sys; sys.exit(1)
