"""Bounded part of C20: the same window contract evaluated on the REAL get_baseline_data / get_reporting_data over
an enumerated domain (gives concrete replayable inputs for what the sorted-index proof reports)."""
import itertools
import warnings

import numpy as np
import pandas as pd

from bounded.common import Bounded, load_known

MODULE = "bounded.C20_windows"
warnings.filterwarnings("ignore")
DAY = pd.Timedelta(days=1)


def series(kind):
    if kind == "daily":
        idx = pd.date_range("2021-03-01", periods=40, freq="D", tz="America/Chicago")
    elif kind == "hourly":
        idx = pd.date_range("2021-03-10", periods=96, freq="h", tz="UTC")
    else:  # billing: irregular periods
        days = np.cumsum([0, 29, 31, 30, 33, 28, 31, 30, 31, 29, 32, 30])
        idx = pd.DatetimeIndex([pd.Timestamp("2021-01-05", tz="UTC") + pd.Timedelta(days=int(d)) for d in days])
    vals = np.arange(1.0, len(idx) + 1)
    # missing reads placed exactly where first+max_days (or mid-max_days) lands for the max_days values enumerated below
    if kind == "daily":
        vals[[7, 13]] = np.nan
    elif kind == "hourly":
        vals[[24, 31]] = np.nan
    else:
        vals[4] = np.nan
    return pd.DataFrame({"value": vals}, index=idx)


def instants(df):
    i = df.index
    return {"before_all": i[0] - 3 * DAY, "on_first": i[0], "between": i[len(i) // 2] + pd.Timedelta(minutes=17),
            "on_mid": i[len(i) // 2], "on_last": i[-1], "after_all": i[-1] + 9 * DAY}


def check_baseline(df, end, max_days, overshoot, ignore, ndays, start=None):
    from opendsm.eemeter.common.transform import get_baseline_data
    from opendsm.eemeter.common.exceptions import NoBaselineDataError
    before = df.copy(deep=True)
    bad = []
    try:
        res, warns = get_baseline_data(df, start=start, end=end, max_days=max_days, allow_billing_period_overshoot=overshoot,
                                       n_days_billing_period_overshoot=ndays, ignore_billing_period_gap_for_day_count=ignore)
    except NoBaselineDataError:
        res = None
    except Exception as e:  # noqa
        return [f"unexpected {type(e).__name__}: {e}"]
    if not df.equals(before):
        bad.append("input modified")
    sel = before[before.index <= end] if end is not None else before
    if start is not None:
        sel = sel[sel.index >= start] if not overshoot else sel
    if res is None:
        if end is not None and max_days is not None and not overshoot and not ignore:
            lo = end - pd.Timedelta(days=max_days)
            if not sel[sel.index >= lo].dropna().empty:
                bad.append("NoBaselineDataError although the selection has complete rows")
        return bad
    pos = before.index.get_indexer(res.index)
    if (pos < 0).any() or (np.diff(pos) != 1).any():
        bad.append("result is not a contiguous slice of the input")
    if end is not None and (res.index > end).any():
        bad.append(f"row after the requested end: {res.index.max()} > {end}")
    if end is not None and len(sel) and res.index[-1] != sel.index[-1]:
        bad.append("slice does not reach the last row at or before the end")
    if overshoot and end is not None and max_days is not None and not ignore:
        # first returned row is a row nearest to end - max_days among ALL rows at or before the end
        target = end - pd.Timedelta(days=max_days)
        cand = before.index[before.index <= end]
        if len(cand) and abs(res.index[0] - target) > abs(cand - target).min():
            bad.append(f"overshoot: first row {res.index[0]} is not a row nearest to {target}")
    if start is not None and not overshoot and (res.index < start).any():
        bad.append("row before the requested start")
    if start is not None:
        gs = "eemeter.get_baseline_data.gap_at_baseline_start" in [w.qualified_name for w in warns]
        if not overshoot and gs != (start < before.index.min()):
            bad.append(f"gap_at_baseline_start warning {gs} but start<data_start is {start < before.index.min()}")
    if end is not None and max_days is not None and not overshoot:
        ref = (sel.index[-1] if ignore and (ndays is None or end - pd.Timedelta(days=ndays) < sel.index[-1]) else end)
        lo = ref - pd.Timedelta(days=max_days)
        if (res.index < lo).any():
            bad.append(f"row earlier than max_days before the end: {res.index.min()} < {lo}")
        if not ignore and len(before[(before.index >= lo) & (before.index <= end)]) != len(res):
            bad.append("rows inside the window are missing")
    if not res.iloc[-1].isna().all():
        bad.append("last row not blanked")
    if len(res) > 1 and not res.iloc[:-1].equals(before.loc[res.index[:-1]]):
        bad.append("values changed inside the slice")
    names = [w.qualified_name for w in warns]
    gap = "eemeter.get_baseline_data.gap_at_baseline_end" in names
    if end is not None and not ignore and gap != (before.index.max() < end):
        bad.append(f"gap_at_baseline_end warning {gap} but data_end<end is {before.index.max() < end}")
    return bad


def check_reporting(df, start, max_days, overshoot, ignore, end=None):
    from opendsm.eemeter.common.transform import get_reporting_data
    from opendsm.eemeter.common.exceptions import NoReportingDataError
    before = df.copy(deep=True)
    bad = []
    try:
        res, warns = get_reporting_data(df, start=start, end=end, max_days=max_days, allow_billing_period_overshoot=overshoot,
                                        ignore_billing_period_gap_for_day_count=ignore)
    except NoReportingDataError:
        res = None
    except Exception as e:  # noqa
        return [f"unexpected {type(e).__name__}: {e}"]
    if not df.equals(before):
        bad.append("input modified")
    sel = before[before.index >= start] if start is not None else before
    if res is None:
        if start is not None and max_days is not None and not overshoot and not ignore:
            hi = start + pd.Timedelta(days=max_days)
            if not sel[sel.index <= hi].dropna().empty:
                bad.append("NoReportingDataError although the selection has complete rows")
        return bad
    pos = before.index.get_indexer(res.index)
    if (pos < 0).any() or (np.diff(pos) != 1).any():
        bad.append("result is not a contiguous slice of the input")
    if start is not None and (res.index < start).any():
        bad.append("row before the requested start")
    if start is not None and len(sel) and res.index[0] != sel.index[0]:
        bad.append("slice does not begin at the first row at or after the start")
    if overshoot and start is not None and max_days is not None and not ignore:
        target = start + pd.Timedelta(days=max_days)
        cand = before.index[before.index >= start]
        if len(cand) and abs(res.index[-1] - target) > abs(cand - target).min():
            bad.append(f"overshoot: last row {res.index[-1]} is not a row nearest to {target}")
    if end is not None and not overshoot and (res.index > end).any():
        bad.append("row after the requested end")
    if end is not None:
        ge = "eemeter.get_reporting_data.gap_at_reporting_end" in [w.qualified_name for w in warns]
        if not overshoot and ge != (before.index.max() < end):
            bad.append(f"gap_at_reporting_end warning {ge} but data_end<end is {before.index.max() < end}")
    if start is not None and max_days is not None and not overshoot:
        ref = sel.index[0] if ignore else start
        hi = ref + pd.Timedelta(days=max_days)
        if (res.index > hi).any():
            bad.append(f"row later than max_days after the start: {res.index.max()} > {hi}")
        if not ignore and len(before[(before.index >= start) & (before.index <= hi)]) != len(res):
            bad.append("rows inside the window are missing")
    if not res.iloc[-1].isna().all():
        bad.append("last row not blanked")
    if len(res) > 1 and not res.iloc[:-1].equals(before.loc[res.index[:-1]]):
        bad.append("values changed inside the slice")
    names = [w.qualified_name for w in warns]
    gap = "eemeter.get_reporting_data.gap_at_reporting_start" in names
    if start is not None and not ignore and gap != (start < before.index.min()):
        bad.append("gap_at_reporting_start warning wrong")
    return bad


def history_case(case):
    """the same frame OBJECT used twice, its index moved in place in between (same length): the second result is that of an equal fresh frame -- the
    functions are functions of their arguments' current value"""
    import warnings as _w
    from opendsm.eemeter.common.transform import get_baseline_data, get_reporting_data
    fn = get_baseline_data if case["fn"] == "baseline" else get_reporting_data
    key = "end" if case["fn"] == "baseline" else "start"
    df = series(case["series"])
    t = instants(df)[case["instant"]]
    bad = []
    with _w.catch_warnings():
        _w.simplefilter("ignore")
        def call(frame):
            try:
                return fn(frame, **{key: t}, max_days=case["max_days"])
            except Exception as e:  # noqa
                return type(e).__name__, []
        call(df)                                                         # first use
        df.index = df.index - pd.Timedelta(days=case["shift_days"])      # the caller re-stamps the frame in place
        got, gw = call(df)
        want, ww = call(df.copy(deep=True))
    if isinstance(got, str) or isinstance(want, str):
        if got is not want and not (isinstance(got, str) and isinstance(want, str) and got == want):
            bad.append(f"second call on the re-stamped frame gives {got if isinstance(got, str) else 'a selection'}, an equal fresh frame gives {want if isinstance(want, str) else 'a selection'}")
    elif not got.equals(want):
        bad.append("second call on the re-stamped frame differs from the call on an equal fresh frame (selection)")
    if sorted(w.qualified_name for w in gw) != sorted(w.qualified_name for w in ww):
        bad.append(f"warnings {sorted(w.qualified_name.split('.')[-1] for w in gw)} on the re-stamped frame, {sorted(w.qualified_name.split('.')[-1] for w in ww)} on an equal fresh frame")
    return {"ok": not bad, "problems": bad}


def replay(case):
    if case.get("kind") == "history":
        return history_case(case)
    df = series(case["series"])
    t = instants(df)[case["instant"]] if case["instant"] else None
    o = instants(df)[case["other"]] if case.get("other") else None
    if case["fn"] == "baseline":
        bad = check_baseline(df, t, case["max_days"], case["overshoot"], case["ignore"], case["ndays"], start=o)
    else:
        bad = check_reporting(df, t, case["max_days"], case["overshoot"], case["ignore"], end=o)
    return {"ok": not bad, "problems": bad}


def run(tier="quick", seed=0):
    b = Bounded("C20", "C20.enumerated", MODULE,
                "real get_baseline_data/get_reporting_data on {daily 40 rows with a NaN, hourly 96 rows, 12 irregular billing periods} x "
                "{no limit, before all data, on first/mid/last timestamp, between two, after all} x max_days {None,0,1,5,7,17,123,400} x overshoot x "
                "ignore-gap x n_days {None,3}; independent numpy oracle for the window contract; distinct = distinct case tuple",
                exhaustive=True, known_findings=load_known("C20"))
    for kind in ("daily", "hourly", "billing"):
        for inst in (None, "before_all", "on_first", "between", "on_mid", "on_last", "after_all"):
            for md in (None, 0, 1, 5, 7, 17, 123, 400):
                for ov, ig in itertools.product((False, True), repeat=2):
                    for fn in ("baseline", "reporting"):
                        for nd in ((None, 3) if fn == "baseline" and (ov or ig) else (None,)):
                            case = {"fn": fn, "series": kind, "instant": inst, "max_days": md, "overshoot": ov, "ignore": ig, "ndays": nd}
                            try:
                                r = replay(case)
                            except Exception as e:  # noqa
                                r = {"ok": False, "problems": [f"harness exception {type(e).__name__}: {e}"]}
                            known = None
                            if ov and (inst is None or md is None) and any("Overflow" in p or "OutOfBounds" in p for p in r["problems"]):
                                known = "C20-overshoot-unbounded"
                            b.case("C20.enumerated." + fn, case, r["ok"], nontrivial_key=tuple(case.values()), detail=r["problems"],
                                   known_id=known)
    # both limits explicit (max_days=None): gaps at either end are reported independently
    for kind in ("daily", "billing"):
        for a in ("before_all", "on_first", "between", "after_all"):
            for c in ("before_all", "between", "on_last", "after_all"):
                for fn in ("baseline", "reporting"):
                    case = {"fn": fn, "series": kind, "instant": c if fn == "baseline" else a, "other": a if fn == "baseline" else c,
                            "max_days": None, "overshoot": False, "ignore": False, "ndays": None}
                    try:
                        r = replay(case)
                    except Exception as e:  # noqa
                        r = {"ok": False, "problems": [f"harness exception {type(e).__name__}: {e}"]}
                    b.case("C20.enumerated." + fn, case, r["ok"], nontrivial_key=tuple(case.values()), detail=r["problems"])
    for fn in ("baseline", "reporting"):
        for kind in ("daily", "billing"):
            for inst in ("on_last", "on_first", "between"):
                for shift in (30, -30):
                    case = {"kind": "history", "fn": fn, "series": kind, "instant": inst, "max_days": 400, "shift_days": shift}
                    try:
                        r = replay(case)
                    except Exception as e:  # noqa
                        r = {"ok": False, "problems": [f"harness exception {type(e).__name__}: {e}"]}
                    b.case("C20.enumerated." + fn, case, r["ok"], nontrivial_key=tuple(case.values()), detail=r["problems"])
    return b.result()
