"""Engine B (DESIGN §3.7): flow contracts -- `assigns` (what a function may write) checked by a flow-sensitive
abstract interpretation of the real AST.

Abstract values are sets of tags: "param:<name>" (the object the caller passed), "self.<attr>" (an object stored on
self), "self" and "fresh".  Rebinding (`df = df.copy()`, `x = x.loc[a:b]`, any call result) makes the name fresh:
under pandas Copy-on-Write a write through a derived object never reaches its parent.  Mutation events are
subscript / .loc / attribute stores, `del`, `inplace=True`, augmented assignment on a target, and the mutator
methods of list/dict/set/DataFrame.  Calls to functions of the repository use the callee's summary
(which parameters / self attributes it mutates), computed recursively.
"""
from __future__ import annotations

import ast
import os

REPO = os.environ.get("VERIF_REPO", "/repo")

MUTATORS = {"append", "extend", "insert", "pop", "remove", "clear", "sort", "reverse", "update", "setdefault", "popitem", "add", "discard",
            "fill", "put", "itemset", "resize", "setflags", "partition", "byteswap"}
INPLACE_ONLY = {"set_index", "reset_index", "drop", "dropna", "fillna", "rename", "sort_index", "sort_values", "ffill", "bfill", "interpolate",
                "replace", "drop_duplicates", "clip", "where", "mask", "set_axis", "rename_axis", "eval", "query"}
VIEW_ATTRS = {"index", "columns", "values", "loc", "iloc", "at", "iat", "T", "dt", "str"}  # sub-objects / accessors of the same object
# attributes that hand out a fresh copy (proved separately by the obligation C02.df.copy: every `return` of these
# properties is a new object)
FRESH_ATTRS = {"df", "billing_df"}
FRESH_METHODS_OF_VIEW = set()


class Module:
    def __init__(self, relpath):
        self.relpath = relpath
        self.path = os.path.join(REPO, relpath)
        self.tree = ast.parse(open(self.path).read())
        self.funcs = {}
        self.classes = {}
        self.imports = {}
        for st in self.tree.body:
            if isinstance(st, ast.FunctionDef):
                self.funcs[st.name] = st
            elif isinstance(st, ast.ClassDef):
                self.classes[st.name] = st
            elif isinstance(st, ast.ImportFrom) and st.module and st.module.startswith("opendsm"):
                for a in st.names:
                    self.imports[a.asname or a.name] = (st.module.replace(".", "/") + ".py", a.name)


_MODULES = {}


def module(relpath):
    if relpath not in _MODULES:
        _MODULES[relpath] = Module(relpath)
    return _MODULES[relpath]


def find_method(mod, clsname, name, seen=None):
    """(module, classname, FunctionDef) following base classes by name across the repo files imported"""
    cls = mod.classes.get(clsname)
    if cls is None:
        imp = mod.imports.get(clsname)
        if imp and os.path.exists(os.path.join(REPO, imp[0])):
            return find_method(module(imp[0]), imp[1], name, seen)
        return None
    for st in cls.body:
        if isinstance(st, ast.FunctionDef) and st.name == name:
            return mod, clsname, st
    for b in cls.bases:
        bn = b.id if isinstance(b, ast.Name) else b.attr if isinstance(b, ast.Attribute) else None
        if bn:
            r = find_method(mod, bn, name, seen)
            if r:
                return r
    return None


class Event:
    def __init__(self, tags, kind, lineno, where):
        self.tags = frozenset(tags)
        self.kind = kind
        self.lineno = lineno
        self.where = where

    def __repr__(self):
        return f"{self.kind}@{self.where}:{self.lineno} on {sorted(self.tags)}"


class Summary:
    def __init__(self):
        self.events = []       # mutation events on param:/self. tags
        self.self_assigned = {}  # attr -> [(where, lineno)]
        self.returns = set()   # tags of returned values
        self.calls = set()


class Analyzer:
    def __init__(self, specialise=None):
        self.cache = {}
        self.stack = []
        self.specialise = specialise or {}  # e.g. {"self.is_fitted": True}

    # ------------------------------------------------------------------ per function
    def summarise(self, mod, clsname, fnode, recv=None):
        recv = recv or (mod, clsname)
        key = (mod.relpath, clsname, fnode.name, fnode.lineno, recv[0].relpath, recv[1])
        if key in self.cache:
            return self.cache[key]
        if key in self.stack:
            return Summary()
        self.stack.append(key)
        s = Summary()
        env = {}
        params = [a.arg for a in fnode.args.posonlyargs + fnode.args.args + fnode.args.kwonlyargs]
        decos = [d.id if isinstance(d, ast.Name) else getattr(d, "attr", "") for d in fnode.decorator_list]
        for i, p in enumerate(params):
            if i == 0 and clsname and "staticmethod" not in decos:
                env[p] = {"self"} if "classmethod" not in decos else {"cls"}
            else:
                env[p] = {f"param:{p}"}
        ctx = {"mod": mod, "cls": clsname, "recv": recv, "where": f"{mod.relpath}::{(clsname + '.') if clsname else ''}{fnode.name}", "sum": s,
               "nested": {}}
        self.block(fnode.body, env, ctx)
        self.stack.pop()
        self.cache[key] = s
        return s

    def block(self, stmts, env, ctx):
        for st in stmts:
            self.stmt(st, env, ctx)

    def tags(self, node, env, ctx):
        """abstract value of an expression"""
        if isinstance(node, ast.Name):
            return set(env.get(node.id, {"fresh"}))
        if isinstance(node, ast.Attribute):
            base = self.tags(node.value, env, ctx)
            out = set()
            for t in base:
                if t == "self":
                    out.add(f"self.{node.attr}")
                elif (t.startswith("param:") or t.startswith("self.")) and node.attr in FRESH_ATTRS:
                    out.add("fresh")
                elif t.startswith("param:") or t.startswith("self."):
                    if node.attr in VIEW_ATTRS:
                        out.add(t)
                    else:
                        out.add(t + "." + node.attr if t.startswith("param:") else t)
                else:
                    out.add("fresh")
            return out or {"fresh"}
        if isinstance(node, ast.Subscript):
            base = self.tags(node.value, env, ctx)
            # element of a python container stored on self / a parameter may alias; pandas/numpy selections are new objects
            # (Copy-on-Write).  Accessor subscripts (.loc[...]) of frames are new objects as well.
            if isinstance(node.value, ast.Attribute) and node.value.attr in ("loc", "iloc", "at", "iat"):
                return {"fresh"}
            return {t + "[]" if (t.startswith("param:") or t.startswith("self.")) else "fresh" for t in base} | set()
        if isinstance(node, ast.Call):
            self.call(node, env, ctx)
            return {"fresh"}
        if isinstance(node, ast.IfExp):
            return self.tags(node.body, env, ctx) | self.tags(node.orelse, env, ctx)
        if isinstance(node, ast.BoolOp):
            out = set()
            for v in node.values:
                out |= self.tags(v, env, ctx)
            return out
        if isinstance(node, (ast.Tuple, ast.List)):
            out = set()
            for e in node.elts:
                out |= {t for t in self.tags(e, env, ctx)}
            return {"fresh"} | {t + "@elem" for t in out if t != "fresh"}
        if isinstance(node, ast.NamedExpr):
            v = self.tags(node.value, env, ctx)
            self.bind(node.target, v, env, ctx)
            return v
        for child in ast.iter_child_nodes(node):
            if isinstance(child, ast.expr):
                self.tags(child, env, ctx)
        return {"fresh"}

    def mutate(self, target_tags, kind, node, ctx):
        real = {t.split("@elem")[0] for t in target_tags if t != "fresh" and not t.endswith("[]")}
        sub = {t for t in target_tags if t.endswith("[]")}
        real |= {t[:-2] for t in sub if t.startswith("self.") or t.startswith("param:")} if kind in ("method", "inplace") else set()
        real = {t for t in real if t.startswith("param:") or t.startswith("self.") or t == "self"}
        if real:
            ctx["sum"].events.append(Event(real, kind, getattr(node, "lineno", 0), ctx["where"]))

    def bind(self, target, val, env, ctx):
        if isinstance(target, ast.Name):
            env[target.id] = set(val)
        elif isinstance(target, (ast.Tuple, ast.List)):
            for e in target.elts:
                self.bind(e, {t.split("@elem")[0] for t in val} or {"fresh"}, env, ctx)
        elif isinstance(target, ast.Attribute):
            base = self.tags(target.value, env, ctx)
            if "self" in base:
                ctx["sum"].self_assigned.setdefault(target.attr, []).append((ctx["where"], target.lineno))
                # aliasing: the stored object is the assigned one
                aliases = {t for t in val if t.startswith("param:")}
                if aliases:
                    ctx["sum"].events.append(Event({f"alias:self.{target.attr}={a}" for a in aliases}, "alias", target.lineno, ctx["where"]))
            self.mutate(base - {"self"}, "attr-store", target, ctx)
        elif isinstance(target, ast.Subscript):
            base = self.tags(target.value, env, ctx)
            self.mutate(base, "item-store", target, ctx)
        elif isinstance(target, ast.Starred):
            self.bind(target.value, val, env, ctx)

    def stmt(self, st, env, ctx):
        if isinstance(st, ast.Assign):
            v = self.tags(st.value, env, ctx)
            for t in st.targets:
                self.bind(t, v, env, ctx)
        elif isinstance(st, ast.AnnAssign):
            if st.value is not None:
                self.bind(st.target, self.tags(st.value, env, ctx), env, ctx)
        elif isinstance(st, ast.AugAssign):
            v = self.tags(st.value, env, ctx)
            if isinstance(st.target, ast.Name):
                # `x += y` mutates lists in place; for frames/arrays it may as well
                self.mutate(env.get(st.target.id, {"fresh"}), "augassign", st, ctx)
            elif isinstance(st.target, ast.Attribute):
                base = self.tags(st.target.value, env, ctx)
                if "self" in base:
                    ctx["sum"].self_assigned.setdefault(st.target.attr, []).append((ctx["where"], st.lineno))
                    self.mutate({f"self.{st.target.attr}"}, "augassign", st, ctx)
                self.mutate(base - {"self"}, "attr-store", st, ctx)
            else:
                self.bind(st.target, v, env, ctx)
        elif isinstance(st, ast.Delete):
            for t in st.targets:
                if isinstance(t, ast.Subscript):
                    self.mutate(self.tags(t.value, env, ctx), "del-item", t, ctx)
                elif isinstance(t, ast.Attribute):
                    self.mutate(self.tags(t.value, env, ctx), "del-attr", t, ctx)
        elif isinstance(st, ast.Expr):
            self.tags(st.value, env, ctx)
        elif isinstance(st, ast.Return):
            if st.value is not None:
                ctx["sum"].returns |= self.tags(st.value, env, ctx)
        elif isinstance(st, ast.If):
            spec = self.const_test(st.test)
            if spec is True:
                self.block(st.body, env, ctx)
            elif spec is False:
                self.block(st.orelse, env, ctx)
            else:
                self.tags(st.test, env, ctx)
                e1, e2 = {k: set(v) for k, v in env.items()}, {k: set(v) for k, v in env.items()}
                self.block(st.body, e1, ctx)
                self.block(st.orelse, e2, ctx)
                for k in set(e1) | set(e2):
                    env[k] = e1.get(k, set()) | e2.get(k, set())
        elif isinstance(st, (ast.For, ast.While)):
            if isinstance(st, ast.For):
                it = self.tags(st.iter, env, ctx)
                self.bind(st.target, {t + "[]" if t != "fresh" and not t.endswith("[]") else t for t in it}, env, ctx)
            for _ in range(2):
                self.block(st.body, env, ctx)
            self.block(st.orelse, env, ctx)
        elif isinstance(st, ast.Try):
            self.block(st.body, env, ctx)
            for h in st.handlers:
                self.block(h.body, env, ctx)
            self.block(st.orelse, env, ctx)
            self.block(st.finalbody, env, ctx)
        elif isinstance(st, ast.With):
            for it in st.items:
                self.tags(it.context_expr, env, ctx)
            self.block(st.body, env, ctx)
        elif isinstance(st, ast.FunctionDef):
            ctx["nested"][st.name] = (st, env)
        elif isinstance(st, (ast.Raise, ast.Assert)):
            for child in ast.iter_child_nodes(st):
                if isinstance(child, ast.expr):
                    self.tags(child, env, ctx)

    def const_test(self, test):
        """constant specialisation (predict path: self.is_fitted is True)"""
        neg = False
        t = test
        if isinstance(t, ast.UnaryOp) and isinstance(t.op, ast.Not):
            neg, t = True, t.operand
        if isinstance(t, ast.Attribute) and isinstance(t.value, ast.Name) and t.value.id == "self":
            key = f"self.{t.attr}"
            if key in self.specialise:
                v = self.specialise[key]
                return (not v) if neg else v
        return None

    # ------------------------------------------------------------------ calls
    def call(self, node, env, ctx):
        f = node.func
        arg_tags = [self.tags(a.value if isinstance(a, ast.Starred) else a, env, ctx) for a in node.args]
        kw_tags = {k.arg: self.tags(k.value, env, ctx) for k in node.keywords}
        inplace = any(k.arg == "inplace" and isinstance(k.value, ast.Constant) and k.value.value is True for k in node.keywords)
        if isinstance(f, ast.Attribute):
            recv = self.tags(f.value, env, ctx)
            name = f.attr
            if inplace and name in INPLACE_ONLY:
                self.mutate(recv, "inplace", node, ctx)
            if name in MUTATORS:
                self.mutate(recv, "method", node, ctx)
            # method of self defined in the repo
            if "self" in recv and ctx["cls"]:
                r = find_method(ctx["recv"][0], ctx["recv"][1], name)
                if r:
                    self.apply_summary(r, node, arg_tags, kw_tags, ctx, self_call=True)
                    return
            if isinstance(f.value, ast.Call) and isinstance(f.value.func, ast.Name) and f.value.func.id == "super" and ctx["cls"]:
                cls = ctx["mod"].classes.get(ctx["cls"])
                for b in (cls.bases if cls else []):
                    bn = b.id if isinstance(b, ast.Name) else getattr(b, "attr", None)
                    r = find_method(ctx["mod"], bn, name) if bn else None
                    if r:
                        self.apply_summary(r, node, arg_tags, kw_tags, ctx, self_call=True)
                        return
        elif isinstance(f, ast.Name):
            name = f.id
            if name in ctx["nested"]:
                fn, fenv = ctx["nested"][name]
                inner_env = dict(fenv)
                ps = [a.arg for a in fn.args.args]
                for p, t in zip(ps, arg_tags):
                    inner_env[p] = set(t)
                for p in ps[len(arg_tags):]:
                    inner_env[p] = set(kw_tags.get(p, {"fresh"}))
                self.block(fn.body, inner_env, ctx)
                return
            mod = ctx["mod"]
            target = None
            if name in mod.funcs:
                target = (mod, None, mod.funcs[name])
            elif name in mod.imports:
                rel, nm = mod.imports[name]
                if os.path.exists(os.path.join(REPO, rel)):
                    m2 = module(rel)
                    if nm in m2.funcs:
                        target = (m2, None, m2.funcs[nm])
                    elif nm in m2.classes:
                        r = find_method(m2, nm, "__init__")
                        if r:
                            self.apply_summary(r, node, arg_tags, kw_tags, ctx, ctor=True)
                        return
            elif name in mod.classes:
                r = find_method(mod, name, "__init__")
                if r:
                    self.apply_summary(r, node, arg_tags, kw_tags, ctx, ctor=True)
                return
            if target:
                self.apply_summary(target, node, arg_tags, kw_tags, ctx)

    def apply_summary(self, target, node, arg_tags, kw_tags, ctx, self_call=False, ctor=False):
        mod, clsname, fnode = target
        s = self.summarise(mod, clsname, fnode, recv=ctx["recv"] if self_call else None)
        ctx["sum"].calls.add(f"{mod.relpath}::{(clsname + '.') if clsname else ''}{fnode.name}")
        params = [a.arg for a in fnode.args.posonlyargs + fnode.args.args + fnode.args.kwonlyargs]
        if clsname:
            params = params[1:]
        binding = {}
        for p, t in zip(params, arg_tags):
            binding[p] = t
        for p in params:
            if p in kw_tags:
                binding[p] = kw_tags[p]
        for ev in s.events:
            mapped = set()
            for t in ev.tags:
                if t.startswith("param:"):
                    root = t[len("param:"):].split(".")[0].split("[")[0]
                    mapped |= {x for x in binding.get(root, set()) if x != "fresh"}
                elif t.startswith("self") and self_call:
                    mapped.add(t)
                elif t.startswith("alias:") and self_call:
                    mapped.add(t)
            mapped = {m for m in mapped if m.startswith("param:") or m.startswith("self") or m.startswith("alias:")}
            if mapped:
                ctx["sum"].events.append(Event(mapped, ev.kind, ev.lineno, ev.where))
        if self_call:
            for a, locs in s.self_assigned.items():
                ctx["sum"].self_assigned.setdefault(a, []).extend(locs)


def analyse(relpath, qualname, specialise=None):
    mod = module(relpath)
    an = Analyzer(specialise)
    if "." in qualname:
        cls, name = qualname.split(".", 1)
        r = find_method(mod, cls, name)
        if r is None:
            raise KeyError(f"{relpath}::{qualname} not found")
        m2, c2, fn = r
        return an.summarise(m2, c2, fn, recv=(mod, cls)), an
    return an.summarise(mod, None, mod.funcs[qualname]), an
