"""C03 (proof part) -- the seed of the hourly model is honoured for EVERY seed value the settings accept: when a seed is given,
BaseHourlySettings._check_seed copies exactly it to _seed, to the ElasticNet settings and to the clustering settings, and draws
nothing from the global generator; only a missing seed (None) is drawn.  (Symbolic execution of the real validator method on a
settings object whose seed is a symbolic integer >= 0.)"""
from pyvc.api import *  # noqa

BHS = repo("opendsm/eemeter/models/hourly/settings.py::BaseHourlySettings")


@harness("C03.seed.given", prop="C03")
def seed_given(seed: Int):
    assume(seed >= 0)                       # the field is declared ge=0
    en = new_object(None, _seed=-1)
    tc = new_object(None, _seed=-1)
    s = new_object(BHS, seed=seed, _seed=-1, elasticnet=en, temporal_cluster=tc)
    out = outcome(s._check_seed)
    check("C03.seed.returns_self", And(out.returned, is_same(out.value, s)))
    check("C03.seed.honoured", s._seed == seed)
    check("C03.seed.propagated", And(en._seed == seed, tc._seed == seed))
    check("C03.seed.no_global_draw", global_rng_draws() == 0)


@harness("C03.seed.missing", prop="C03")
def seed_missing():
    en = new_object(None, _seed=-1)
    tc = new_object(None, _seed=-1)
    s = new_object(BHS, seed=None, _seed=-1, elasticnet=en, temporal_cluster=tc)
    out = outcome(s._check_seed)
    # the drawn seed is recorded and the SAME value reaches both consumers (so the stored settings reproduce the fit)
    check("C03.seed.drawn_once", And(out.returned, en._seed == s._seed, tc._seed == s._seed, global_rng_draws() == 1))
