"""C09 (proof part) -- the half rule of _compute_temperature_features (daily and billing data classes) on the row-wise model: for
ONE ARBITRARY DAY of the aggregated frame,
   hourly feed     : the day's temperature is the aggregated mean unless half or fewer of its readings are present, in which case
                     it is missing; the present / absent counts are handed on unchanged;
   sub-hourly feed : the day's temperature is the resampled mean when its coverage exceeds one half and missing otherwise -- and
                     is NOT divided by the coverage (a mean is not a sum).
compute_temperature_features / as_freq (pandas group-bys) enter as opaque frames; that their means and counts are the per-day
ones is the bounded part."""
from pyvc.api import *  # noqa

DAILY = repo("opendsm/eemeter/models/daily/data.py::_DailyData")
BILLING = repo("opendsm/eemeter/models/billing/data.py::_BillingData")
OPAQUE = {"opendsm/eemeter/common/features.py::compute_temperature_features": "features_frame",
          "opendsm/eemeter/common/data_processor_utilities.py::as_freq": "as_freq_frame",
          "opendsm/eemeter/common/warnings.py::EEMeterWarning": None}
OPAQUE_CLASS_MODULES = []

NUM = 0
NAN = 1
PINF = 2
FEATURES = ["temperature_mean", "temperature_null", "temperature_not_null", "n_days_kept", "n_days_dropped"]


def features_frame(meter_data_index, temperature_data, data_quality=False):
    return row_frame(FEATURES, label="features")


def as_freq_frame(data_series, freq, series_type="cumulative", include_coverage=False):
    return row_frame(["value", "coverage"], label="daily")


CASES = [{"billing": False}, {"billing": True}]


@harness("C09.half_rule.hourly", prop="C09", cases=CASES, permissive=True)
def half_rule_hourly(billing):
    if billing:
        obj = new_object(BILLING, warnings=fresh_seq("warnings"), disqualification=fresh_seq("disqualification"))
    else:
        obj = new_object(DAILY, warnings=fresh_seq("warnings"), disqualification=fresh_seq("disqualification"))
    df = row_frame(["temperature", "observed"], label="input")
    set_inferred_freq(df, "h")
    meter = row_frame(["observed"], label="meter")
    res = obj._compute_temperature_features(df, meter.index)
    temp = res[0]
    feats = res[1]
    src = row_frame(FEATURES, label="features")
    km = cell_kind(src, "temperature_mean")
    vm = cell_val(src, "temperature_mean")
    nn = cell_val(src, "temperature_not_null")
    nu = cell_val(src, "temperature_null")
    counted = And(cell_kind(src, "temperature_not_null") == NUM, cell_kind(src, "temperature_null") == NUM)
    assume(implies(counted, And(nn >= 0, nu >= 0)))
    last = is_last_row(src)
    med = median_of(src, "temperature_not_null")
    half_or_less = And(counted, nn + nu > 0, 2 * nn <= nn + nu)
    more_than_half = And(counted, 2 * nn > nn + nu)
    kt = series_kind(temp)
    vt = series_val(temp)
    check("C09.half_rule.name", temp.name == "temperature")
    # (the pre-aggregated one-reading-per-day case, median <= 1, applies no rule: the mean is the reading itself)
    check("C09.half_rule.blank", implies(And(Not(last), med > 1, half_or_less), kt == NAN))
    if billing:
        check("C09.half_rule.billing", implies(And(Not(last), more_than_half, km == NUM), And(kt == NUM, vt == vm)),
              finding="C09-billing-23h-half", unless=And(more_than_half, nn <= med * 0.5))
    else:
        check("C09.half_rule.keep", implies(And(Not(last), more_than_half, km == NUM), And(kt == NUM, vt == vm)))
    check("C09.half_rule.no_invention", implies(km == NAN, kt == NAN))
    check("C09.counts.passed_on", implies(Not(last), And(cell_kind(feats, "temperature_not_null") == cell_kind(src, "temperature_not_null"),
                                                          cell_val(feats, "temperature_not_null") == nn, cell_val(feats, "temperature_null") == nu,
                                                          cell_kind(feats, "temperature_null") == cell_kind(src, "temperature_null"))))
    cover("C09.cover.blank", And(Not(last), med > 1, half_or_less, km == NUM))
    cover("C09.cover.keep", And(Not(last), med > 1, more_than_half, km == NUM))


@harness("C09.half_rule.subhourly", prop="C09", cases=CASES, permissive=True)
def half_rule_subhourly(billing):
    if billing:
        obj = new_object(BILLING, warnings=fresh_seq("warnings"), disqualification=fresh_seq("disqualification"))
    else:
        obj = new_object(DAILY, warnings=fresh_seq("warnings"), disqualification=fresh_seq("disqualification"))
    df = row_frame(["temperature", "observed"], label="input")
    set_inferred_freq(df, "30min")
    meter = row_frame(["observed"], label="meter")
    res = obj._compute_temperature_features(df, meter.index)
    temp = res[0]
    src = row_frame(["value", "coverage"], label="daily")
    kv = cell_kind(src, "value")
    v = cell_val(src, "value")
    kc = cell_kind(src, "coverage")
    c = cell_val(src, "coverage")
    kt = series_kind(temp)
    vt = series_val(temp)
    check("C09.subhourly.name", temp.name == "temperature")
    check("C09.subhourly.blank", implies(Not(Or(And(kc == NUM, c > 0.5), kc == PINF)), kt == NAN))
    check("C09.subhourly.mean_not_scaled", implies(And(kc == NUM, c > 0.5, kv == NUM), And(kt == NUM, vt == v)))
    cover("C09.cover.subhourly.partial", And(kc == NUM, c > 0.5, c < 1, kv == NUM))
