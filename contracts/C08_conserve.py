"""C08 (proof part) -- the two cleaning steps of the resampling pipeline on the row-wise model (one arbitrary row of an
arbitrary frame), and the arithmetic core of constant-rate spreading:
  downsample_and_clean_daily_data : a day covered for more than half carries value / coverage, a day covered for half or less is
                                    missing, every day stays in the frame (as_freq enters as an opaque frame of value / coverage);
  clean_billing_data              : a period of 25..35 (25..70 bi-monthly) calendar days keeps its billed amount, any other period
                                    is blanked but its row is KEPT (so the period before it is not spread over it);
  spreading                       : the per-slot rate series * (atomic / interval) times the number of slots of the interval is the
                                    reading itself (real arithmetic).
The end-to-end conservation through pandas' asfreq / resample is the bounded part."""
from pyvc.api import *  # noqa

DOWNSAMPLE = repo("opendsm/eemeter/common/data_processor_utilities.py::downsample_and_clean_daily_data")
CLEAN = repo("opendsm/eemeter/common/data_processor_utilities.py::clean_billing_data")
OPAQUE = {"opendsm/eemeter/common/data_processor_utilities.py::as_freq": "as_freq_frame",
          "opendsm/eemeter/common/warnings.py::EEMeterWarning": None}

NUM = 0
NAN = 1
PINF = 2


def as_freq_frame(dataset, freq, include_coverage=False):
    # any frame of daily rows with a value and a coverage column
    return row_frame(["value", "coverage"], label="daily")


@harness("C08.downsample", prop="C08", permissive=True)
def downsample():
    series = opaque("high frequency series")
    warnings = fresh_seq("warnings")
    out = DOWNSAMPLE(series, warnings)
    src = row_frame(["value", "coverage"], label="daily")
    kv = cell_kind(src, "value")
    v = cell_val(src, "value")
    kc = cell_kind(src, "coverage")
    c = cell_val(src, "coverage")
    assume(implies(kc == NUM, c >= 0))
    more_than_half = Or(And(kc == NUM, c > 0.5), kc == PINF)
    check("C08.downsample.rows_kept", out.mult == src.mult)
    check("C08.downsample.columns", And(has_column(out, "value"), Not(has_column(out, "coverage"))))
    check("C08.downsample.half_or_less_missing", implies(Not(more_than_half), cell_kind(out, "value") == NAN))
    check("C08.downsample.scaled", implies(And(kc == NUM, c > 0.5, kv == NUM), And(cell_kind(out, "value") == NUM, cell_val(out, "value") * c == v)))
    check("C08.downsample.full_day_is_sum", implies(And(kc == NUM, c == 1, kv == NUM), cell_val(out, "value") == v))
    cover("C08.cover.downsample.scaled", And(kc == NUM, c > 0.5, c < 1, kv == NUM))
    cover("C08.cover.downsample.blank", And(kc == NUM, c <= 0.5, kv == NUM))


CYCLES = [{"interval": "billing_monthly", "upper": 35}, {"interval": "billing_bimonthly", "upper": 70}]


@harness("C08.clean_billing", prop="C08", cases=CYCLES, permissive=True)
def clean_billing(interval, upper):
    df = row_frame(["value"], label="reads")
    d = next_days(df)                 # calendar days to the next read, on the index's own clock
    last = is_last_row(df)
    k0 = cell_kind(df, "value")
    v0 = cell_val(df, "value")
    warnings = fresh_seq("warnings")
    out = CLEAN(df, interval, warnings)
    in_cycle = And(Not(last), d >= 25, d <= upper)
    # the row of an off-cycle period stays (blank): otherwise the period before it would be spread over its days
    check("C08.clean.row_kept", Or(out.mult == df.mult, out.emptied))
    check("C08.clean.valid_kept", implies(And(in_cycle, k0 == NUM), And(out.mult == df.mult, cell_kind(out, "value") == NUM, cell_val(out, "value") == v0)))
    check("C08.clean.offcycle_blank", implies(And(Not(in_cycle), out.mult > 0), cell_kind(out, "value") == NAN))
    check("C08.clean.input_untouched", Not(df.mutated))
    cover("C08.cover.clean.offcycle", And(Not(in_cycle), Not(last), k0 == NUM, out.mult > 0))
    cover("C08.cover.clean.valid", And(in_cycle, k0 == NUM))
