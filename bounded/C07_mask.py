"""Bounded part of C07: the real DailyModel._predict / BillingModel.predict on frames with every pattern of missing /
non-finite temperature and missing usage (small exhaustive patterns + random), checked row by row."""
import itertools
import logging
import warnings

import numpy as np
import pandas as pd

from bounded.common import Bounded, load_known
from bounded.C01_roundtrip import param_doc

MODULE = "bounded.C07_mask"
logging.disable(logging.CRITICAL)
warnings.filterwarnings("ignore")
VALUES_T = {"ok": 61.5, "nan": np.nan, "inf": np.inf, "ninf": -np.inf}
VALUES_O = {"ok": 12.25, "nan": np.nan, "inf": np.inf, "zero": 0.0}


def build(case):
    from opendsm.eemeter.models.daily.model import DailyModel
    from opendsm.eemeter.models.billing.model import BillingModel
    cls = BillingModel if case["family"] == "billing" else DailyModel
    m = cls.from_dict(param_doc(case["family"], case["shape"], case["split"], False))
    n = len(case["T"])
    idx = pd.date_range(case.get("start", "2023-01-29"), periods=n, freq="D", tz=case.get("tz", "America/Chicago"))
    d = {"temperature": [VALUES_T[k] + i for i, k in enumerate(case["T"])]}
    if case["O"] is not None:
        d["observed"] = [VALUES_O[k] + (i if k == "ok" else 0) for i, k in enumerate(case["O"])]
    return m, pd.DataFrame(d, index=idx)


def replay(case):
    if "aggregation" in case:
        return replay_agg(case)
    if case.get("public"):
        return replay_public(case)
    m, df = build(case)
    before = df.copy(deep=True)
    res = m._predict(df.copy())
    bad = []
    if not res.index.equals(before.index):
        bad.append("output index differs from input index")
    if "observed" in before.columns:
        both = np.isfinite(res["predicted"].astype(float)) == np.isfinite(res["observed"].astype(float))
        if not both.all():
            bad.append(f"rows with exactly one of predicted/observed: {list(res.index[~both].strftime('%Y-%m-%d'))[:5]}")
        tmiss = ~np.isfinite(before["temperature"].astype(float))
        if np.isfinite(res.loc[tmiss.values, "observed"].astype(float)).any():
            bad.append("a day with missing temperature kept its observed value")
        kept = np.isfinite(res["observed"].astype(float))
        if not np.array_equal(res.loc[kept, "observed"].values, before.loc[kept.values, "observed"].values):
            bad.append("reported observed values differ from the supplied ones")
        exp_fin = np.isfinite(before["temperature"].astype(float)).values & np.isfinite(before["observed"].astype(float)).values
        if not np.array_equal(np.isfinite(res["predicted"].astype(float)).values, exp_fin):
            bad.append("predicted is not finite exactly on rows with a finite temperature and a finite usage value")
        omiss = ~np.isfinite(before["observed"].astype(float))
        if np.isfinite(res.loc[omiss.values, "predicted"].astype(float)).any():
            bad.append("a day with missing usage got a prediction")
        s_obs, s_pred = np.nansum(res["observed"].astype(float)), np.nansum(res["predicted"].astype(float))
        rowwise = np.nansum((res["predicted"].astype(float) - res["observed"].astype(float)))
        # (usage of +-inf is outside the statement's quantifier: "missing/non-finite temperature and missing usage")
        if not np.isinf(before["observed"].astype(float)).any() and not np.isclose(s_pred - s_obs, rowwise, rtol=1e-9, atol=1e-9):
            bad.append(f"column sums ({s_pred - s_obs}) differ from row-wise savings ({rowwise})")
    else:
        tok = np.isfinite(before["temperature"].astype(float)).values
        if not np.array_equal(np.isfinite(res["predicted"].astype(float)).values, tok):
            bad.append("predicted is not finite exactly on rows with a finite temperature")
    return {"ok": not bad, "problems": bad}


def replay_agg(case):
    """BillingModel.predict through the data class with monthly / bi-monthly aggregation: in every period the aggregated observed is the sum of the
    usage of exactly the days that got a prediction, so that (sum predicted - sum observed) equals the row-wise savings of the daily result"""
    import opendsm.eemeter as em
    from opendsm.eemeter.models.billing.model import BillingModel
    m = BillingModel.from_dict(param_doc("billing", case["shape"], case["split"], False))
    rng = np.random.default_rng(case["seed"])
    n = case["n_days"]
    idx = pd.date_range(case["start"], periods=n, freq="D", tz="America/Chicago")
    T = 55 + 25 * np.sin(np.arange(n) / 58.0) + rng.normal(0, 3, n)
    obs = 20 + 0.9 * np.maximum(50 - T, 0) + 0.6 * np.maximum(T - 68, 0) + rng.normal(0, 1, n)
    df = pd.DataFrame({"temperature": T, "observed": obs}, index=idx)
    for a, k in case["t_gaps"]:
        df.iloc[a:a + k, 0] = np.nan
    for a, k in case["o_gaps"]:
        df.iloc[a:a + k, 1] = np.nan
    data = em.BillingReportingData(df, is_electricity_data=True)
    daily = m.predict(data, ignore_disqualification=True)
    agg = m.predict(data, aggregation=case["aggregation"], ignore_disqualification=True)
    bad = []
    rule = "MS" if case["aggregation"] == "monthly" else "2MS"
    both = np.isfinite(daily["predicted"].astype(float)) & np.isfinite(daily["observed"].astype(float))
    ref_obs = daily["observed"].astype(float).where(both).resample(rule).sum(min_count=1)
    ref_pred = daily["predicted"].astype(float).where(both).resample(rule).sum(min_count=1)
    for col, ref in (("observed", ref_obs), ("predicted", ref_pred)):
        got = agg[col].astype(float).reindex(ref.index)
        ok = np.isclose(got.values, ref.values, rtol=1e-9, atol=1e-9, equal_nan=True) | (np.isnan(ref.values) & (got.values == 0))
        if not ok.all():
            i = int(np.argmin(ok))
            bad.append(f"{case['aggregation']}: period {ref.index[i].date()} {col} = {got.values[i]!r} but the days of that period that have both values add up to {ref.values[i]!r}")
    s_rows = float(np.nansum((daily["predicted"].astype(float) - daily["observed"].astype(float)).where(both)))
    s_cols = float(np.nansum(agg["predicted"].astype(float)) - np.nansum(agg["observed"].astype(float)))
    if not np.isclose(s_rows, s_cols, rtol=1e-9, atol=1e-7):
        bad.append(f"{case['aggregation']}: sum(predicted) - sum(observed) over the periods = {s_cols!r}, row-wise savings of the daily result = {s_rows!r}")
    return {"ok": not bad, "problems": bad}


def replay_public(case):
    """the PUBLIC predict() of a daily / billing model on a comparison period wrapped in each of the data classes (reporting AND baseline objects: a
    second baseline year, or the baseline itself, is scored the same way): both-or-neither on every row, usage masked where temperature is missing"""
    import opendsm.eemeter as em
    from opendsm.eemeter.models.daily.model import DailyModel
    from opendsm.eemeter.models.billing.model import BillingModel
    cls = BillingModel if case["family"] == "billing" else DailyModel
    m = cls.from_dict(param_doc(case["family"], case["shape"], case["split"], False))
    rng = np.random.default_rng(case["seed"])
    n = case["n_days"]
    idx = pd.date_range(case["start"], periods=n, freq="D", tz="UTC")          # parameter-built models carry the UTC baseline clock
    T = 55 + 25 * np.sin(np.arange(n) / 58.0) + rng.normal(0, 3, n)
    obs = 20 + 0.9 * np.maximum(50 - T, 0) + 0.6 * np.maximum(T - 68, 0) + rng.normal(0, 1, n)
    df = pd.DataFrame({"temperature": T, "observed": obs}, index=idx)
    for a, k in case["t_gaps"]:
        df.iloc[a:a + k, 0] = np.nan
    for a, k in case["o_gaps"]:
        df.iloc[a:a + k, 1] = np.nan
    data = getattr(em, case["data_class"])(df, is_electricity_data=True)
    m.baseline_timezone = data.tz
    res = m.predict(data, ignore_disqualification=True)
    bad = []
    p, o = np.isfinite(res["predicted"].astype(float)), np.isfinite(res["observed"].astype(float))
    if not (p == o).all():
        bad.append(f"{case['data_class']}: {int((p != o).sum())} rows with exactly one of predicted / observed, e.g. {[str(t.date()) for t in res.index[p != o][:3]]}")
    t_missing = ~np.isfinite(res["temperature"].astype(float)) if "temperature" in res else ~np.isfinite(df["temperature"].reindex(res.index).astype(float))
    if (o & t_missing.values).any():
        bad.append(f"{case['data_class']}: {int((o & t_missing.values).sum())} days without temperature kept their usage")
    s_cols = float(np.nansum(res["predicted"].astype(float)) - np.nansum(res["observed"].astype(float)))
    s_rows = float(np.nansum(res["predicted"].astype(float) - res["observed"].astype(float)))
    if not np.isclose(s_cols, s_rows, rtol=1e-9, atol=1e-7):
        bad.append(f"{case['data_class']}: column sums give savings {s_cols!r}, row-wise savings are {s_rows!r}")
    return {"ok": not bad, "problems": bad}


def run(tier="quick", seed=0):
    b = Bounded("C07", "C07.rows", MODULE,
                "real _predict of parameter-built daily/billing models: exhaustive patterns over 3 consecutive days of temperature in "
                "{ok, NaN, +inf, -inf} x usage in {ok, NaN, +inf, 0, column absent} (4^3*(4^3+1) frames per model, reduced in the quick tier) "
                "for 2 shapes x 2 split layouts x 2 families; row-wise contract (both-or-neither, masking, values kept, sums); BillingModel.predict with monthly / bi-monthly "
                "aggregation on 95-365 day reporting frames with days lacking temperature and days lacking usage (period sums = sums over the days that have both values); "
                "distinct = distinct (family, shape, split, pattern)", known_findings=load_known("C07"))
    fams = ["daily", "billing"]
    layouts = [("hdd_tidd_cdd", "unsplit"), ("hdd_tidd_smooth", "season2")]
    tpat = list(itertools.product(VALUES_T, repeat=3))
    opat = list(itertools.product(VALUES_O, repeat=3)) + [None]
    rng = np.random.default_rng(seed)
    for fam in fams:
        for shape, split in layouts:
            combos = [(t, o) for t in tpat for o in opat]
            if tier == "quick":
                sel = rng.choice(len(combos), size=120, replace=False)
                combos = [combos[i] for i in sel]
            for t, o in combos:
                case = {"family": fam, "shape": shape, "split": split, "T": list(t), "O": None if o is None else list(o)}
                try:
                    r = replay(case)
                except Exception as e:  # noqa
                    r = {"ok": False, "problems": [f"exception {type(e).__name__}: {e}"]}
                b.case("C07.rows", case, r["ok"], nontrivial_key=(fam, shape, split, tuple(t), None if o is None else tuple(o)),
                       detail=r["problems"])
    # billing aggregation on reporting data with days lacking temperature and days lacking usage
    k = 0
    for agg in ("monthly", "bimonthly"):
        for shape, split in layouts:
            for start, n_days in (("2023-01-01", 120), ("2023-03-17", 95)) if tier == "quick" else (("2023-01-01", 365), ("2023-03-17", 95), ("2023-10-20", 150)):
                k += 1
                r0 = np.random.default_rng(100 * seed + k)
                case = {"aggregation": agg, "shape": shape, "split": split, "start": start, "n_days": n_days, "seed": int(100 * seed + k),
                        "t_gaps": [[int(r0.integers(3, n_days - 10)), int(r0.integers(1, 6))] for _ in range(3)],
                        "o_gaps": [[int(r0.integers(3, n_days - 10)), int(r0.integers(1, 4))] for _ in range(2)]}
                try:
                    r = replay_agg(case)
                except Exception as e:  # noqa
                    import traceback
                    r = {"ok": False, "problems": [f"exception {type(e).__name__}: {e}", traceback.format_exc()[-400:]]}
                b.case("C07.agg", case, r["ok"], nontrivial_key=str(case), detail=r["problems"])
    # the public predict() on every data class a comparison period can be wrapped in
    for fam, classes in (("daily", ("DailyReportingData", "DailyBaselineData")), ("billing", ("BillingReportingData", "BillingBaselineData"))):
        for dc in classes:
            case = {"public": True, "family": fam, "shape": "hdd_tidd_cdd", "split": "unsplit", "data_class": dc, "start": "2023-01-01", "n_days": 365 if fam == "daily" else 120,
                    "seed": seed + 5, "t_gaps": [[40, 5], [200 if fam == "daily" else 90, 3]], "o_gaps": [[70, 2]]}
            try:
                r = replay(case)
            except Exception as e:  # noqa
                import traceback
                r = {"ok": False, "problems": [f"exception {type(e).__name__}: {e}", traceback.format_exc()[-400:]]}
            b.case("C07.public", case, r["ok"], nontrivial_key=str(case), detail=r["problems"])
    b.exhaustive = tier == "thorough"
    return b.result()
