"""Abstract-aggregate model of pandas Series/DataFrames (DESIGN §3.3 'group-wise operations are abstract
aggregates', §4 C16): a column is known only through named aggregates (sum, sum of squares, var, median ...),
each a real symbol.  The only algebra assumed is listed in ASSUMED below."""
from __future__ import annotations

import ast

import z3

from . import libmodels
from .libmodels import assumed, use
from .values import SBoundLib, Unsupported, is_num, is_z3, to_real, to_z3

assumed("pd.agg", "pandas aggregates of a column (sum, var(ddof=0), median, skew, kurtosis, autocorr, corr, quantile) are "
                  "functions of that column's values only; mean() == sum()/len; var(ddof=0) >= 0; sum of squares / of absolute "
                  "values >= 0; quantile is monotone in q; autocorr(lag=1) is NaN or lies in (-1, 1]")


class SNaN:
    """IEEE NaN as an explicit tagged value (everything else in the engine is a real number, A1)."""

    def sym_binop(self, interp, op, l, r, node):
        return self

    def sym_compare(self, interp, op, l, r, node):
        return isinstance(op, ast.NotEq)

    def sym_isfinite(self, interp, node):
        return False

    def sym_isnan(self, interp, node):
        return True

    def __repr__(self):
        return "nan"


NAN = SNaN()


def _kstr(key):
    if isinstance(key, tuple):
        return "(" + ",".join(_kstr(k) for k in key) + ")"
    if is_z3(key):
        return str(z3.simplify(key))
    return str(key)


class AggFrame:
    pandas_kind = "DataFrame"

    def __init__(self, n, label="df", columns=()):
        self.n = n
        self.label = label
        self.columns = list(columns)
        self.alias = {}

    def sym_len(self, interp, node):
        return self.n

    def sym_getitem(self, interp, key, node):
        if isinstance(key, str):
            if key in self.alias:
                return self.alias[key]
            if key not in self.columns:
                from .values import SymRaise
                raise SymRaise("KeyError", key, node, ("KeyError", "LookupError", "Exception"))
            return AggSeries(self, ("col", self.label, key))
        if isinstance(key, list) and all(isinstance(k, str) for k in key):
            return self
        raise Unsupported("frame subscript other than column name(s)", node)

    def sym_setitem(self, interp, key, value, node):
        if isinstance(key, str) and isinstance(value, AggSeries):
            self.alias[key] = value
            if key not in self.columns:
                self.columns.append(key)
            return
        raise Unsupported("frame column store of a non-series", node)

    def sym_getattr(self, interp, name, node):
        if name == "copy":
            return _Callable(lambda *a, **k: self)
        if name == "corr":
            return _Callable(lambda *a, **k: _Corr(self))
        if name == "columns":
            return list(self.columns)
        if name == "empty":
            return self.n == 0
        if name == "index":
            if not hasattr(self, "_index"):
                from .values import SOpaque
                self._index = SOpaque(f"{self.label}.index")
            return self._index
        raise Unsupported(f"DataFrame.{name} (aggregate model)", node)


class _Callable:
    def __init__(self, f):
        self.f = f

    def sym_call(self, interp, args, kwargs, node, frame):
        return self.f(*args, **kwargs)


class _Corr:
    def __init__(self, frame):
        self.frame = frame

    def sym_getattr(self, interp, name, node):
        if name == "iloc":
            return self
        raise Unsupported(f"corr().{name}", node)

    def sym_getitem(self, interp, key, node):
        if key in ((0, 1), (1, 0)):
            r = z3.Real(f"corr[{self.frame.label}:predicted,observed]")
            interp.run.inputs[str(r)] = r
            interp.run._add(z3.And(r >= -1, r <= 1))
            use(interp, "pd.agg")
            return r
        raise Unsupported("corr().iloc[...] other than the off-diagonal", node)


def agg(interp, op, key, constraint=None):
    use(interp, "pd.agg")
    name = f"{op}[{_kstr(key)}]"
    c = z3.Real(name)
    if name not in interp.run.inputs:
        interp.run.inputs[name] = c
        if constraint is not None:
            interp.run._add(constraint(c))
    return c


class AggSeries:
    pandas_kind = "Series"

    def __init__(self, frame, key):
        self.frame = frame
        self.key = key

    def sym_len(self, interp, node):
        return self.frame.n

    def sym_binop(self, interp, op, l, r, node):
        lk = l.key if isinstance(l, AggSeries) else l
        rk = r.key if isinstance(r, AggSeries) else r
        if isinstance(op, ast.Pow) and is_num(r) and r == 2:
            return AggSeries(self.frame, ("sq", lk))
        opn = type(op).__name__
        return AggSeries(self.frame, (opn, lk, rk))

    def sym_getattr(self, interp, name, node):
        f = self.frame
        k = self.key
        n = to_real(f.n)
        if name == "sum":
            nonneg = k[0] in ("sq", "abs")
            return _Callable(lambda *a, **kw: agg(interp, "sum", k, (lambda c: c >= 0) if nonneg else None))
        if name == "mean":
            def mean(*a, **kw):
                interp.safety_nonzero(to_z3(f.n), node, None)
                nonneg = k[0] in ("sq", "abs")
                return agg(interp, "sum", k, (lambda c: c >= 0) if nonneg else None) / n
            return _Callable(mean)
        if name == "var":
            def var(*a, **kw):
                if kw.get("ddof", 1) != 0:
                    return agg(interp, "var1", k, lambda c: c >= 0)
                return agg(interp, "var0", k, lambda c: c >= 0)
            return _Callable(var)
        if name in ("median", "skew", "kurtosis", "min", "max"):
            return _Callable(lambda *a, **kw: agg(interp, name, k))
        if name == "abs":
            return _Callable(lambda *a, **kw: AggSeries(f, ("abs", k)))
        if name == "autocorr":
            def autocorr(*a, **kw):
                lag = kw.get("lag", a[0] if a else 1)
                isnan = z3.Bool(f"autocorr{lag}_is_nan[{_kstr(k)}]")
                interp.run.inputs[str(isnan)] = isnan
                if interp.run.branch(isnan):
                    return NAN
                return agg(interp, f"autocorr{lag}", k, lambda c: z3.And(c > -1, c <= 1))
            return _Callable(autocorr)
        if name == "index":
            from .values import SOpaque
            return SOpaque("index")
        raise Unsupported(f"Series.{name} (aggregate model)", node)


def np_quantile(interp, args, kwargs, node, frame):
    v, qs = args[0], args[1]
    if isinstance(v, AggSeries):
        qs_list = list(qs) if isinstance(qs, (list, tuple)) else [qs]
        out = [agg(interp, f"quantile{q}", v.key) for q in qs_list]
        for a, b, qa, qb in zip(out, out[1:], qs_list, qs_list[1:]):
            interp.run._add(a <= b if qa <= qb else b <= a)
        from .values import SArr
        return SArr(out) if isinstance(qs, (list, tuple)) else out[0]
    return NotImplemented


def np_diff(interp, args, kwargs, node, frame):
    v = args[0]
    if isinstance(v, list):
        from .values import SArr
        return SArr(interp.binop(ast.Sub(), b, a, node, frame) for a, b in zip(v, v[1:]))
    return NotImplemented


def np_median(interp, args, kwargs, node, frame):
    v = args[0]
    if isinstance(v, AggSeries):
        return agg(interp, "median", v.key)
    return NotImplemented


def np_abs(interp, args, kwargs, node, frame):
    v = args[0]
    if isinstance(v, AggSeries):
        return AggSeries(v.frame, ("abs", v.key))
    return NotImplemented


def np_hstack(interp, args, kwargs, node, frame):
    """np.hstack of ONE aggregate series is that series (the single-component case of a concatenation; several series of different
    frames have no aggregate model)"""
    v = args[0]
    if isinstance(v, (list, tuple)) and len(v) == 1 and isinstance(v[0], AggSeries):
        return v[0]
    if isinstance(v, (list, tuple)) and any(isinstance(x, AggSeries) for x in v):
        raise Unsupported("concatenation of several aggregate series", node)
    return NotImplemented


def np_mean_sum(fname):
    def f(interp, args, kwargs, node, frame):
        v = args[0]
        if isinstance(v, AggSeries) and len(args) == 1 and not kwargs:
            nonneg = v.key[0] in ("sq", "abs")
            tot = agg(interp, "sum", v.key, (lambda c: c >= 0) if nonneg else None)
            if fname == "sum":
                return tot
            interp.safety_nonzero(to_z3(v.frame.n), node, frame)
            return tot / to_real(v.frame.n)
        return NotImplemented
    return f


def install():
    libmodels.LIB["numpy.hstack"] = _wrap(np_hstack, libmodels.LIB.get("numpy.hstack"), "numpy.hstack")
    libmodels.LIB["numpy.mean"] = _wrap(np_mean_sum("mean"), libmodels.LIB.get("numpy.mean"), "numpy.mean")
    libmodels.LIB["numpy.sum"] = _wrap(np_mean_sum("sum"), libmodels.LIB.get("numpy.sum"), "numpy.sum")
    prev_q = libmodels.LIB.get("numpy.quantile")
    libmodels.LIB["numpy.quantile"] = _wrap(np_quantile, prev_q, "numpy.quantile")
    libmodels.LIB["numpy.diff"] = _wrap(np_diff, libmodels.LIB.get("numpy.diff"), "numpy.diff")
    libmodels.LIB["numpy.median"] = _wrap(np_median, libmodels.LIB.get("numpy.median"), "numpy.median")
    for nm in ("numpy.abs", "numpy.absolute"):
        libmodels.LIB[nm] = _wrap(np_abs, libmodels.LIB.get(nm), nm)

    @libmodels.api("nan_value")
    def _nan_value(interp, args, kwargs, node, frame):
        return NAN

    @libmodels.api("agg_frame")
    def _agg_frame(interp, args, kwargs, node, frame):
        return AggFrame(kwargs.get("n", args[0] if args else None), kwargs.get("label", "df"), kwargs.get("columns", ()))


def _wrap(f, prev, name):
    def g(interp, args, kwargs, node, frame):
        r = f(interp, args, kwargs, node, frame)
        if r is NotImplemented:
            if prev is None:
                raise Unsupported(f"library function {name} has no model for these arguments", node)
            return prev(interp, args, kwargs, node, frame)
        return r
    return g


install()
