"""C18 -- CalTRACK hourly: each hour belongs to its own month; bin features sum to T.

The real segment-weight functions and compute_temperature_bin_features are executed on the row-wise model: ONE
arbitrary hour with a symbolic calendar month / weekday / hour and a symbolic temperature cell.  Because every
weight is an element-wise function of index.month (assumed pandas contract), the claims hold for every hour of
every year in every timezone.
"""
from pyvc.api import *  # noqa

SEG = "opendsm/eemeter/models/hourly_caltrack/segmentation.py::"
W_ONE = repo(SEG + "_segment_weights_one_month")
W_THREE = repo(SEG + "_segment_weights_three_month")
W_WEIGHTED = repo(SEG + "_segment_weights_three_month_weighted")
W_SINGLE = repo(SEG + "_segment_weights_single")
PSI = repo("opendsm/eemeter/models/hourly_caltrack/model.py::_PredictionSegmentInfo")
MONTH_DICT = repo("opendsm/eemeter/models/hourly_caltrack/wrapper.py::month_dict")
BINS = repo("opendsm/eemeter/common/features.py::compute_temperature_bin_features")

NAMES = ["jan", "feb", "mar", "apr", "may", "jun", "jul", "aug", "sep", "oct", "nov", "dec"]
NUM = 0
NAN = 1


def three(k):
    """name of the three-month segment centred on month k (1..12)"""
    return NAMES[(k - 2) % 12] + "-" + NAMES[k - 1] + "-" + NAMES[k % 12]


@harness("C18.weights.one_month", prop="C18")
def one_month():
    df = row_frame([])
    m = cell_val_month(df)
    w = W_ONE(df.index)
    check("C18.weights.one_month.columns", list(w.columns) == NAMES)
    for k in range(1, 13):
        check("C18.weights.one_month." + NAMES[k - 1], cell_val(w, NAMES[k - 1]) == ite(m == k, 1, 0))


@harness("C18.weights.three_month_weighted", prop="C18")
def weighted():
    df = row_frame([])
    m = cell_val_month(df)
    w = W_WEIGHTED(df.index)
    check("C18.weights.weighted.columns", list(w.columns) == [three(k) + "-weighted" for k in [1, 2, 3, 4, 5, 6, 7, 8, 9, 10, 11, 12]])
    for k in range(1, 13):
        prev = (k - 2) % 12 + 1
        nxt = k % 12 + 1
        # full weight in the segment centred on the hour's month, one half in the two neighbours' segments, 0 elsewhere
        expected = ite(m == k, 1, ite(Or(m == prev, m == nxt), 0.5, 0))
        check("C18.weights.weighted." + three(k), cell_val(w, three(k) + "-weighted") == expected)


@harness("C18.weights.three_month", prop="C18")
def three_month():
    df = row_frame([])
    m = cell_val_month(df)
    w = W_THREE(df.index)
    check("C18.weights.three_month.columns", list(w.columns) == [three(k) for k in [1, 2, 3, 4, 5, 6, 7, 8, 9, 10, 11, 12]])
    for k in range(1, 13):
        prev = (k - 2) % 12 + 1
        nxt = k % 12 + 1
        check("C18.weights.three_month." + three(k), cell_val(w, three(k)) == ite(Or(m == k, m == prev, m == nxt), 1, 0))


@harness("C18.weights.single", prop="C18")
def single():
    df = row_frame([])
    w = W_SINGLE(df.index)
    check("C18.weights.single", cell_val(w, "all") == 1)


@harness("C18.predict.map", prop="C18")
def predict_map():
    """prediction uses one_month segments, and month k is predicted by the FITTED segment centred on k"""
    info = new_object(PSI)
    PSI.__init__(info, "three_month_weighted")
    check("C18.predict.map.type", info.prediction_segment_type == "one_month")
    mapping = info.prediction_segment_name_mapping
    check("C18.predict.map.keys", sorted(mapping.keys()) == sorted(NAMES))
    for k in range(1, 13):
        check("C18.predict.map." + NAMES[k - 1], mapping[NAMES[k - 1]] == three(k) + "-weighted")
        check("C18.month_dict." + NAMES[k - 1], MONTH_DICT[NAMES[k - 1]] == k)
    single_info = new_object(PSI)
    PSI.__init__(single_info, "single")
    check("C18.predict.map.single", single_info.prediction_segment_type == "single" and single_info.prediction_segment_name_mapping is None)
    out = outcome(PSI.__init__, new_object(PSI), "one_month")
    check("C18.predict.map.rejects_other", out.raises("ValueError"))


BIN_CASES = [{"n": n} for n in [0, 1, 2, 3, 4, 5, 6]]


@harness("C18.bins", prop="C18", cases=BIN_CASES)
def bins(n, e0: Real, e1: Real, e2: Real, e3: Real, e4: Real, e5: Real):
    """for n strictly increasing symbolic endpoints and any temperature: the bins sum to T, each bin is filled in
    order up to its width, a temperature exactly on an endpoint falls in the lower bin, a missing T gives all missing"""
    ends = [e0, e1, e2, e3, e4, e5][:n]
    for i in range(n - 1):
        assume(ends[i] < ends[i + 1])
    df = row_frame(["temperature"])
    t = cell_val(df, "temperature")
    tk = cell_kind(df, "temperature")
    assume(Or(tk == NUM, tk == NAN))
    res = BINS(df["temperature"], list(ends))
    names = ["bin_" + str(i) for i in range(n + 1)]
    check("C18.bins.columns", list(res.columns) == names)
    check("C18.bins.one_row", res.mult == 1)
    for nm in names:
        check("C18.bins.missing." + nm, iff(cell_kind(res, nm) == NAN, tk == NAN))
    if n == 0:
        check("C18.bins.sum", implies(tk == NUM, cell_val(res, "bin_0") == t))
    else:
        total = 0
        for nm in names:
            total = total + cell_val(res, nm)
        check("C18.bins.sum", implies(tk == NUM, total == t))
        check("C18.bins.first", implies(tk == NUM, cell_val(res, "bin_0") == ite(t <= ends[0], t, ends[0])))
        for i in range(1, n + 1):
            b = cell_val(res, names[i])
            lo = ends[i - 1]
            if i < n:
                width = ends[i] - lo
                check("C18.bins.range." + names[i], implies(tk == NUM, And(b >= 0, b <= width)))
                check("C18.bins.value." + names[i], implies(tk == NUM, b == ite(t <= lo, 0, ite(t <= ends[i], t - lo, width))))
            else:
                check("C18.bins.value." + names[i], implies(tk == NUM, b == ite(t <= lo, 0, t - lo)))
            # filled in order: a bin is non-zero only when the previous one is full
            prev = cell_val(res, names[i - 1])
            prev_full = prev == ends[0] if i == 1 else prev == ends[i - 1] - ends[i - 2]
            check("C18.bins.in_order." + names[i], implies(And(tk == NUM, b > 0), prev_full))
