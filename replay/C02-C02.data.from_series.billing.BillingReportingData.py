#!/venv/bin/python
"""Flow obligation C02.data.from_series.billing.BillingReportingData (engine B) failed; a static may-analysis gives no input.
write to the caller's object: [attr-store@opendsm/eemeter/models/daily/data.py::_DailyData.from_series:109 on ['param:temperature_data'], attr-store@opendsm/eemeter/common/data_processor_utilities.py::compute_minimum_granularity:356 on ['param:meter_data']]
"""
print("write to the caller's object: [attr-store@opendsm/eemeter/models/daily/data.py::_DailyData.from_series:109 on ['param:temperature_data'], attr-store@opendsm/eemeter/common/data_processor_utilities.py::compute_minimum_granularity:356 on ['param:meter_data']]")
import sys; sys.exit(1)
