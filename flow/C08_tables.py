"""Call-site obligations of as_freq (C08 / C09), re-read from /repo's AST every run.  The proof of as_freq (contracts/C08_asfreq.py)
has the precondition 'the atomic step divides every reading interval'; under the property's quantifier (15/30/60-minute readings,
reads at local midnight, whole-hour DST) every interval is a multiple of 15 minutes, so the obligation on every caller is that the
atomic step it passes (or the default) divides 900 s.  The callers must also pick the right kind of series: usage is cumulative
(spread and summed), temperature is instantaneous (copied and averaged)."""
import ast
import os
import re
import time

REPO = os.environ.get("VERIF_REPO", "/repo")
DPU = "opendsm/eemeter/common/data_processor_utilities.py"
UNITS = {"ns": 1e-9, "us": 1e-6, "ms": 1e-3, "s": 1, "sec": 1, "min": 60, "t": 60, "h": 3600, "d": 86400, "day": 86400}
SITES = {
    # (file, enclosing function) -> expected kind of series
    ("opendsm/eemeter/common/data_processor_utilities.py", "downsample_and_clean_daily_data"): "cumulative",
    ("opendsm/eemeter/models/billing/data.py", "_compute_meter_value_df"): "cumulative",
    ("opendsm/eemeter/models/billing/data.py", "_compute_temperature_features"): "instantaneous",
    ("opendsm/eemeter/models/daily/data.py", "_compute_temperature_features"): "instantaneous",
}


def seconds(text):
    m = re.fullmatch(r"\s*(\d+(?:\.\d+)?)?\s*([A-Za-z]+)\s*", text)
    if not m or m.group(2).lower() not in UNITS:
        return None
    return (float(m.group(1)) if m.group(1) else 1.0) * UNITS[m.group(2).lower()]


def obligations():
    obs = []
    tree = ast.parse(open(os.path.join(REPO, DPU)).read())
    fn = next((f for f in tree.body if isinstance(f, ast.FunctionDef) and f.name == "as_freq"), None)
    if fn is None:
        return [{"name": "C08.callsite.default_atomic", "ok": None, "detail": "as_freq not found"}]
    params = [a.arg for a in fn.args.args]
    defaults = dict(zip(params[::-1], fn.args.defaults[::-1]))
    d = defaults.get("atomic_freq")
    sec = seconds(d.value) if isinstance(d, ast.Constant) and isinstance(d.value, str) else None
    obs.append({"name": "C08.callsite.default_atomic", "ok": sec is not None and sec > 0 and abs(900 / sec - round(900 / sec)) < 1e-9,
                "detail": f"default atomic_freq = {ast.unparse(d) if d is not None else None} ({sec} s); must divide 900 s"})
    st = defaults.get("series_type")
    obs.append({"name": "C08.callsite.default_series_type", "ok": isinstance(st, ast.Constant) and st.value == "cumulative", "detail": f"default series_type = {ast.unparse(st) if st else None}"})
    found = {}
    for (rel, fname), kind in SITES.items():
        t = ast.parse(open(os.path.join(REPO, rel)).read())
        for f in [n for n in ast.walk(t) if isinstance(n, ast.FunctionDef) and n.name == fname]:
            for c in [n for n in ast.walk(f) if isinstance(n, ast.Call) and isinstance(n.func, ast.Name) and n.func.id == "as_freq"]:
                found.setdefault((rel, fname), []).append(c)
    for (rel, fname), kind in SITES.items():
        calls = found.get((rel, fname), [])
        short = f"{rel.split('/')[-2]}/{rel.split('/')[-1][:-3]}.{fname}"
        if not calls:
            obs.append({"name": f"C08.callsite.{short}", "ok": None, "detail": "no as_freq call found here any more"})
            continue
        problems = []
        for c in calls:
            kw = {k.arg: k.value for k in c.keywords}
            pos = list(c.args)
            freq = pos[1] if len(pos) > 1 else kw.get("freq")
            atomic = pos[2] if len(pos) > 2 else kw.get("atomic_freq")
            stype = pos[3] if len(pos) > 3 else kw.get("series_type")
            if not (isinstance(freq, ast.Constant) and freq.value == "D"):
                problems.append(f"line {c.lineno}: target frequency {ast.unparse(freq) if freq else None}, expected 'D'")
            if atomic is not None:
                s = seconds(atomic.value) if isinstance(atomic, ast.Constant) and isinstance(atomic.value, str) else None
                if s is None or abs(900 / s - round(900 / s)) > 1e-9:
                    problems.append(f"line {c.lineno}: atomic_freq={ast.unparse(atomic)} does not divide the reading intervals (900 s)")
            got = stype.value if isinstance(stype, ast.Constant) else ("cumulative" if stype is None else ast.unparse(stype))
            if got != kind:
                problems.append(f"line {c.lineno}: series_type {got!r}, expected {kind!r} ({'usage is summed' if kind == 'cumulative' else 'temperature is averaged'})")
        obs.append({"name": f"C08.callsite.{short}", "ok": not problems, "detail": "; ".join(problems) or f"{len(calls)} call(s): 'D', atomic step default, {kind}"})
    return obs


def run(tier="quick", seed=0, prop="C08"):
    t0 = time.time()
    verif = os.path.dirname(os.path.dirname(os.path.abspath(__file__)))
    obs = obligations()
    if prop == "C09":
        obs = [dict(o, name=o["name"].replace("C08.", "C09.")) for o in obs if "temperature" in o["name"] or "default" in o["name"]]
    viol, und = [], []
    for o in obs:
        if o["ok"]:
            continue
        if o["ok"] is None:
            und.append({"obligation": o["name"], "reason": o["detail"]})
            continue
        path = os.path.join(verif, "replay", f"{prop}-{o['name'].replace('/', '_')}.py")
        os.makedirs(os.path.dirname(path), exist_ok=True)
        with open(path, "w") as f:
            f.write(f'#!/venv/bin/python\n"""Call-site obligation {o["name"]} failed (structural: no failing input).\n{o["detail"]}\n"""\nprint({o["detail"]!r})\nimport sys; sys.exit(1)\n')
        viol.append({"obligation": o["name"], "replay": path, "reproduced": False, "detail": o["detail"]})
    return {"name": f"{prop}.callsites", "kind": "table", "n_obligations": len(obs), "n_discharged": sum(bool(o["ok"]) for o in obs),
            "obligations": {o["name"]: ("discharged" if o["ok"] else "failed" if o["ok"] is False else "undecided") for o in obs}, "violations": viol, "known": [],
            "undecided": und, "details": {o["name"]: o["detail"] for o in obs}, "wall_s": round(time.time() - t0, 2)}


if __name__ == "__main__":
    for o in obligations():
        print(o)
