"""Symbolic values of the pyvc engine (see DESIGN.md §3.1).

Concrete Python values (int, float, bool, str, None, list, tuple, dict) are kept as
such while they are concrete; everything that depends on a symbolic input is a z3
expression or one of the wrapper classes below.
"""
from __future__ import annotations

import itertools
from fractions import Fraction

import z3

_ids = itertools.count(1)


class Unsupported(Exception):
    """The code left the supported subset: the obligation is UNDECIDED, never a violation."""

    def __init__(self, msg, node=None, where=None):
        super().__init__(msg)
        self.msg = msg
        self.node = node
        self.where = where

    def __str__(self):
        loc = ""
        if self.where:
            loc = f" at {self.where}"
        elif self.node is not None and hasattr(self.node, "lineno"):
            loc = f" at line {self.node.lineno}"
        return f"{self.msg}{loc}"


class SymRaise(Exception):
    """A Python exception raised by the interpreted program on the current path."""

    def __init__(self, exc_name, msg="", node=None, bases=()):
        super().__init__(exc_name)
        self.exc_name = exc_name
        self.msg = msg
        self.node = node
        self.bases = tuple(bases)  # names of base classes, most specific first


class SLogger:
    """a logging.Logger (or the logging / warnings module used as a sink): every method is a no-op that returns None; logging never
    changes what the program computes (assumed: no handler raises, warnings are not turned into errors)"""

    def __init__(self, label="logger"):
        self.label = label


class SLoggerMethod:
    def __init__(self, name):
        self.name = name


class PathDead(Exception):
    """An `assume` made the current path infeasible."""


class Undefined:
    """Value of an array element that has not been written (np.empty_like)."""

    def __repr__(self):
        return "<undefined>"


UNDEF = Undefined()


class MaybeUnbound:
    """A local that is assigned inside a loop body and whose value at this point comes from an
    unknown earlier iteration (or from no iteration at all).  Reading it is a safety failure."""

    def __init__(self, name):
        self.name = name


class SVec:
    """numpy vector of unknown length, represented by its value at ONE arbitrary index (DESIGN §3.1)."""

    def __init__(self, elem, length=None, label=None):
        self.elem = elem  # z3 expr / python number / UNDEF
        self.length = length
        self.label = label

    def __repr__(self):
        return f"SVec({self.elem})"


class SArr(list):
    """numpy array of statically known length: a list whose arithmetic is element-wise (np.array([...]))."""


class SIdx:
    """np.argwhere(mask).flatten(): an index set = a mask vector."""

    def __init__(self, mask: SVec):
        self.mask = mask


class SSel:
    """vec[idx] for an SIdx: the sub-vector selected by a mask."""

    def __init__(self, vec: SVec, idx: SIdx):
        self.vec = vec
        self.idx = idx


class SObj:
    """A heap object with reference semantics."""

    def __init__(self, cls, attrs=None, label=None):
        self.cls = cls  # SClass or None
        self.attrs = dict(attrs or {})
        self.id = next(_ids)
        self.label = label
        self.written = set()  # attribute names written after construction (frame conditions)
        self.frozen_ctor = False

    def __repr__(self):
        n = getattr(self.cls, "qualname", None) or "object"
        return f"<{n}#{self.id}>"


class SSeq:
    """A list whose length is symbolic: `base_len` unknown elements followed by the concrete
    `appended` items.  `mutated` is the ghost bit of DESIGN §3.1."""

    def __init__(self, base_len, label=None):
        self.base_len = base_len
        self.appended = []
        self.label = label
        self.mutated = False
        self.id = next(_ids)

    def length(self):
        return self.base_len + len(self.appended)

    def __repr__(self):
        return f"<seq {self.label} len={self.base_len}+{len(self.appended)}>"


class SOpaque:
    """A value the engine knows nothing about (a DataFrame it does not model, a tz object ...).
    Attribute reads give stable children; everything else on it is unsupported unless a library
    model says otherwise."""

    def __init__(self, label, attrs=None):
        self.label = label
        self.attrs = dict(attrs or {})
        self.id = next(_ids)
        self.written = set()

    def __repr__(self):
        return f"<opaque {self.label}>"


class SStr:
    """A symbolic string; only (dis)equality and a few uninterpreted operations are supported."""

    def __init__(self, expr):
        self.expr = expr

    def __repr__(self):
        return f"SStr({self.expr})"


class SEnumMember:
    def __init__(self, cls, name, value):
        self.cls = cls
        self.name = name
        self.value = value

    def __eq__(self, other):
        if isinstance(other, SEnumMember):
            return self.cls is other.cls and self.name == other.name
        if isinstance(other, str) and getattr(self.cls, "str_enum", False):
            return self.value == other
        return NotImplemented

    def __hash__(self):
        return hash((id(self.cls), self.name))

    def __repr__(self):
        return f"{self.cls.qualname}.{self.name}"


class SClass:
    def __init__(self, module, node, qualname):
        self.module = module
        self.node = node
        self.qualname = qualname
        self.str_enum = False
        self._members = None

    def __repr__(self):
        return f"<class {self.qualname}>"


class SFunc:
    def __init__(self, module, node, qualname, closure=None, bound_self=None, owner=None):
        self.module = module
        self.node = node
        self.qualname = qualname
        self.closure = closure  # enclosing Frame for nested functions / lambdas
        self.bound_self = bound_self
        self.owner = owner  # SClass for methods

    def bind(self, obj):
        return SFunc(self.module, self.node, self.qualname, self.closure, obj, self.owner)

    @property
    def target(self):
        return f"{self.module.relpath}::{self.qualname}"

    def __repr__(self):
        return f"<func {self.target}>"


class SLib:
    """A name from a library the engine does not read (numpy, pandas, builtins ...)."""

    def __init__(self, dotted):
        self.dotted = dotted

    def __repr__(self):
        return f"<lib {self.dotted}>"


class SBoundLib:
    """A library method bound to a receiver value, e.g. `T.astype`."""

    def __init__(self, recv, name):
        self.recv = recv
        self.name = name


class SExcClass:
    def __init__(self, name, bases=()):
        self.name = name
        self.bases = tuple(bases)

    def __repr__(self):
        return f"<exc {self.name}>"


# ----------------------------------------------------------------------------- numbers

def is_z3(v):
    return isinstance(v, z3.ExprRef)


def is_num(v):
    return isinstance(v, (int, float, Fraction)) and not isinstance(v, bool)


def is_concrete_scalar(v):
    return v is None or isinstance(v, (bool, int, float, str, Fraction))


def to_fraction(v):
    if isinstance(v, bool):
        return Fraction(int(v))
    if isinstance(v, int):
        return Fraction(v)
    if isinstance(v, Fraction):
        return v
    if isinstance(v, float):
        if v != v or v in (float("inf"), float("-inf")):
            raise Unsupported(f"non-finite float constant {v!r} in arithmetic")
        # decimal reading of the literal (A1: floats are reals); exact for literals like 0.01
        return Fraction(repr(v))
    raise Unsupported(f"not a number: {v!r}")


def to_z3(v):
    """Lift a concrete number/bool to z3; pass z3 expressions through."""
    if is_z3(v):
        return v
    if isinstance(v, bool):
        return z3.BoolVal(v)
    if isinstance(v, int):
        return z3.IntVal(v)
    if isinstance(v, (float, Fraction)):
        f = to_fraction(v)
        return z3.RealVal(f"{f.numerator}/{f.denominator}")
    raise Unsupported(f"cannot lift {type(v).__name__} value {v!r} to a solver term")


def to_real(v):
    e = to_z3(v)
    if z3.is_int(e):
        return z3.ToReal(e)
    return e
