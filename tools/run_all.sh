#!/bin/sh
# tools/run_all.sh [tier] [ids...]  -- run the registered checks one after another, print one summary line each
cd "$(dirname "$0")/.."
TIER="${1:-quick}"; [ $# -gt 0 ] && shift
IDS="${*:-C01 C02 C03 C04 C05 C06 C07 C08 C09 C10 C11 C12 C13 C14 C16 C17 C18 C19 C20}"
for c in $IDS; do
  out=$(./check $c --tier $TIER 2>&1); code=$?
  echo "$c exit=$code $(echo "$out" | grep -c '^VIOLATION') violations; $(echo "$out" | grep "^$c \[" | tail -1)"
  [ $code -ne 0 ] && echo "$out" | grep -v "^KNOWN-FINDING\|conda" | tail -15
done
