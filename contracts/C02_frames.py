"""C02 (engine A part) -- fit() leaves the data object's warnings / disqualification lists unmodified and does not
alias them (symbolic execution of the real fit of the daily, billing and hourly models)."""
from pyvc.api import *  # noqa
from contracts.C04_gate import data_object, model_class, HM  # noqa

USES = ["contracts.C04_gate"]

FIT_CASES = [{"family": f} for f in ["daily", "billing", "hourly"]]


@harness("C02.fit.frames", prop="C02", cases=FIT_CASES, permissive=True)
def fit_frames(family, ignore: Bool, thr: Real, pthr: Real, adaptive: Bool):
    data = data_object(family, "baseline")
    if family == "hourly":
        st = new_object(None, cvrmse_threshold=thr, pnrmse_threshold=pthr, elasticnet=new_object(None, adaptive_weights=adaptive))
        m = new_object(HM, settings=st, _ts_features=["temperature"])
    else:
        m = new_object(model_class(family), settings=opaque("settings", cvrmse_threshold=thr))
    out = outcome(m.fit, data, ignore_disqualification=ignore)
    check("C02.fit.data_lists_untouched", And(Not(mutated(data.disqualification)), Not(mutated(data.warnings))))
    check("C02.fit.data_attrs_untouched", written(data) == [])
    if out.returned:
        check("C02.fit.no_alias", And(Not(is_same(m.disqualification, data.disqualification)), Not(is_same(m.warnings, data.warnings))))
