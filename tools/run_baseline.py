#!/venv/bin/python
"""Run the repository's pinned test suite in <root> (default /repo) and compare with /root/.vp/BASELINE.json.
usage: tools/run_baseline.py [root] [-k expr]   exit 0 iff every stable_pass test still passes."""
import json, subprocess, sys, os, tempfile, xml.etree.ElementTree as ET
root = sys.argv[1] if len(sys.argv) > 1 and not sys.argv[1].startswith("-") else "/repo"
extra = [a for a in sys.argv[1:] if a != root]
base = json.load(open("/root/.vp/BASELINE.json"))
stable = set(base["stable_pass"])
out = tempfile.mktemp(suffix=".xml", dir="/var/tmp")
env = dict(os.environ, NUMBA_CACHE_DIR=os.path.join("/var/tmp", "numba_" + os.path.basename(root.rstrip("/"))))
cmd = ["/venv/bin/python", "-m", "pytest", "-q", "-p", "no:cacheprovider", "--timeout=900", "--continue-on-collection-errors",
       "-x" if False else "-q", "--no-cov", f"--junitxml={out}"] + extra
p = subprocess.run(cmd, cwd=root, env=env, capture_output=True, text=True)
if not os.path.exists(out):
    cmd.remove("--no-cov")
    p = subprocess.run(cmd, cwd=root, env=env, capture_output=True, text=True)
passed, failed = set(), set()
for tc in ET.parse(out).getroot().iter("testcase"):
    tid = f"{tc.get('classname')}::{tc.get('name')}"
    bad = any(ch.tag in ("failure", "error", "skipped") for ch in tc)
    (failed if bad else passed).add(tid)
os.unlink(out)
lost = sorted(stable - passed) if not extra else sorted((stable & (passed | failed)) - passed)
gained = sorted(passed - stable)
print(f"passed={len(passed)} failed={len(failed)} stable_lost={len(lost)} newly_passing={len(gained)}")
for t in lost[:40]:
    print("  LOST", t)
if "-v" in extra:
    for t in gained: print("  GAINED", t)
print(p.stdout[-600:] if lost else "")
sys.exit(1 if lost else 0)
