"""Bounded part of C17: the REAL HourlyBaselineData / HourlyReportingData on hourly frames with every kind of defect the
property quantifies over (NaN cells, absent rows, duplicated rows, zeros; with and without irradiance; electric / gas; several
zones, spans beginning / ending on daylight-saving days and at any hour), compared CELL BY CELL with the input:
  skeleton : the index is gap-free, hourly, from 00:00 of the first supplied local day to 23:00 of the last one;
  keep     : every supplied finite value (after first-duplicate selection; zero electric usage = missing) is unchanged;
  flag     : interpolated_<col> is True exactly on cells that were missing and are now present;
  total    : nothing is missing unless the whole column was empty;
  input    : the caller's frame is not modified."""
import logging
import warnings

import numpy as np
import pandas as pd

from bounded.common import Bounded, load_known

MODULE = "bounded.C17_keep"
logging.disable(logging.CRITICAL)
warnings.filterwarnings("ignore")

ZONES = ["America/Chicago", "UTC", "Europe/Berlin", "Australia/Sydney", "Asia/Kolkata", "America/St_Johns", "Pacific/Auckland"]
# first local day of a span so that day `k` of the span is a DST day (spring / autumn) of the zone
DST_DAYS = {"America/Chicago": ["2023-03-12", "2023-11-05"], "Europe/Berlin": ["2023-03-26", "2023-10-29"], "Australia/Sydney": ["2023-10-01", "2023-04-02"],
            "America/St_Johns": ["2023-03-12", "2023-11-05"], "Pacific/Auckland": ["2023-09-24", "2023-04-02"]}


def build(case):
    rng = np.random.default_rng(case["seed"])
    tz = case["tz"]
    n_days = case["n_days"]
    first_day = pd.Timestamp(case["first_day"])
    local = pd.date_range(first_day, periods=n_days * 24, freq="h")        # naive wall-clock hours
    idx = local.tz_localize(tz, ambiguous="NaT", nonexistent="NaT")
    idx = idx[~idx.isna()]
    # ambiguous hours: add both occurrences through absolute time instead
    idx = pd.date_range(idx[0], idx[-1], freq="h")
    # trim to the requested start / end hour
    idx = idx[(idx >= idx[0] + pd.Timedelta(hours=case["start_hour"])) & (idx <= idx[-1] - pd.Timedelta(hours=23 - case["end_hour"]))]
    n = len(idx)
    h = np.arange(n)
    df = pd.DataFrame({"temperature": np.round(55 + 12 * np.sin(h / 24 * 2 * np.pi) + rng.normal(0, 2, n), 3),
                       "observed": np.round(1.5 + 0.8 * np.sin(h / 24 * 2 * np.pi + 1) + rng.uniform(0.05, 0.4, n), 4)}, index=idx)
    if case["ghi"]:
        df["ghi"] = np.round(np.clip(650 * np.sin((idx.hour.values - 6) / 12 * np.pi), 0, None) + rng.uniform(0.5, 5, n), 2)
    cols = list(df.columns)
    # NaN cells: scattered and blocks
    for c in cols:
        k = int(case["nan_frac"] * n)
        if k:
            df.iloc[rng.choice(n, size=k, replace=False), df.columns.get_loc(c)] = np.nan
        for _ in range(case["blocks"]):
            a = int(rng.integers(0, max(1, n - 1)))
            ln = int(rng.integers(2, max(3, case["block_len"])))
            df.iloc[a:a + ln, df.columns.get_loc(c)] = np.nan
    if case.get("tiny") and "observed" in df.columns:
        # usage readings that are tiny but NOT zero: they are measurements and must be kept (only an exact zero is a missing electricity reading)
        pos = rng.choice(n, size=min(n, 6), replace=False)
        df.iloc[pos, df.columns.get_loc("observed")] = [1e-9, -3e-10, 5e-324, 1e-12, 2.5e-9, -1e-300][: len(pos)]
    if case.get("edge_nan"):
        c = cols[case["edge_nan"] % len(cols)]
        df.iloc[:case.get("edge_len", 20), df.columns.get_loc(c)] = np.nan
        c2 = cols[(case["edge_nan"] + 1) % len(cols)]
        df.iloc[n - case.get("edge_len", 20):, df.columns.get_loc(c2)] = np.nan
    if case.get("empty_col"):
        df[case["empty_col"]] = np.nan
    if case.get("no_observed"):
        df = df.drop(columns=["observed"])
    elif case["zeros"]:
        z = rng.choice(n, size=min(n, case["zeros"]), replace=False)
        df.iloc[z, df.columns.get_loc("observed")] = 0.0
    # absent rows (never the first or the last row: they define the span)
    if case["absent_frac"] and n > 4:
        drop = rng.choice(np.arange(1, n - 1), size=int(case["absent_frac"] * n), replace=False)
        df = df.drop(df.index[drop])
    # duplicated rows: copies with other values (some with a blank in the FIRST occurrence and a number in the later one)
    if case["dups"]:
        pos = rng.choice(len(df), size=min(len(df), case["dups"]), replace=False)
        extra = df.iloc[pos].copy()
        for c in extra.columns:
            extra[c] = np.round(extra[c].fillna(7.0) * 1.5 + 3.0, 3)
        first_blank = pos[: max(1, len(pos) // 2)]
        bc = df.columns[case["seed"] % len(df.columns)]
        df.iloc[first_blank, df.columns.get_loc(bc)] = np.nan if bc != "observed" or not case["electric"] or case["seed"] % 2 else 0.0
        df = pd.concat([df, extra])
        if case["dup_order"] == "sorted":
            df = df.sort_index(kind="stable")
    return df


def expected_grid(df, tz):
    first = df.index.min()
    last = df.index.max()
    d0 = pd.Timestamp(first.tz_convert(tz).date())
    d1 = pd.Timestamp(last.tz_convert(tz).date())
    start = d0.tz_localize(tz)
    end = (d1 + pd.Timedelta(hours=23)).tz_localize(tz, ambiguous=False)     # 23:00 is never ambiguous in these zones
    n = int(round((end - start) / pd.Timedelta(hours=1))) + 1
    return pd.DatetimeIndex([start + pd.Timedelta(hours=i) for i in range(n)])


def replay(case):
    import opendsm.eemeter as em
    df = build(case)
    before = df.copy(deep=True)
    cls = em.HourlyReportingData if case["reporting"] else em.HourlyBaselineData
    bad = []
    try:
        d = cls(df, is_electricity_data=case["electric"])
    except Exception as e:  # noqa
        return {"ok": False, "problems": [f"well-formed input rejected: {type(e).__name__}: {e}"]}
    if not (df.equals(before) and df.index.equals(before.index)):
        bad.append("the caller's frame was modified")
    out = d.df
    tz = case["tz"]
    grid = expected_grid(before, tz)
    if not (len(out.index) == len(grid) and (out.index == grid).all()):
        extra = out.index.difference(grid)
        missing = grid.difference(out.index)
        bad.append(f"index is not the whole-local-day hourly grid: {len(out.index)} rows, expected {len(grid)}; missing {list(map(str, missing[:3]))}, "
                   f"extra {list(map(str, extra[:3]))}, duplicates {int(out.index.duplicated().sum())}")
        return {"ok": False, "problems": bad}
    # the supplied values: first occurrence of each timestamp, zero electric usage = missing
    sup = before[~before.index.duplicated(keep="first")]
    cols = [c for c in ("temperature", "observed", "ghi") if c in before.columns]
    if "observed" in sup.columns and case["electric"]:
        sup = sup.copy()
        sup.loc[sup["observed"] == 0, "observed"] = np.nan
    sup = sup.reindex(grid)
    for c in cols:
        s = sup[c].astype(float)
        o = out[c].astype(float)
        flag_col = f"interpolated_{c}"
        if flag_col not in out.columns:
            bad.append(f"{flag_col} column absent")
            continue
        f = out[flag_col]
        if f.dtype != bool:
            bad.append(f"{flag_col} is not boolean (dtype {f.dtype})")
            f = f.astype(bool)
        present = s.notna().values
        changed = present & ~(o.values == s.values)
        if changed.any():
            t = grid[changed][0]
            bad.append(f"{c}: supplied value changed at {t}: {s[t]!r} -> {o[t]!r} ({int(changed.sum())} cells)")
        filled = ~present & o.notna().values
        wrong = f.values != filled
        if wrong.any():
            t = grid[wrong][0]
            bad.append(f"{c}: flag at {t} is {bool(f[t])} but the cell was {'missing' if not present[list(grid).index(t)] else 'supplied'} and is "
                       f"{'present' if pd.notna(o[t]) else 'missing'} ({int(wrong.sum())} cells)")
        if present.any() and o.isna().any():
            bad.append(f"{c}: {int(o.isna().sum())} cells remain missing although the column has supplied values")
    if case.get("no_observed") and "observed" in out.columns and out["observed"].notna().any():
        bad.append("observed invented for reporting data without usage")
    return {"ok": not bad, "problems": bad}


def cases(tier, seed):
    out = []
    k = 0
    days_list = [4, 5, 7, 10, 14] if tier == "quick" else [4, 5, 6, 7, 9, 10, 14, 21, 40]
    for tz in ZONES:
        firsts = ["2023-06-05", "2023-01-30"]
        for dst in DST_DAYS.get(tz, []):
            t = pd.Timestamp(dst)
            firsts += [str(t.date()), str((t - pd.Timedelta(days=2)).date())]
        for first in firsts:
            for n_days in days_list:
                # spans ending on the DST day: first + n_days - 1 == dst day
                variants = [first]
                for dst in DST_DAYS.get(tz, []):
                    variants.append(str((pd.Timestamp(dst) - pd.Timedelta(days=n_days - 1)).date()))
                for fd in dict.fromkeys(variants):
                    k += 1
                    if tier == "quick" and k % 4 != seed % 4:
                        continue
                    r = np.random.default_rng(1000 * seed + k)
                    out.append({"tz": tz, "first_day": fd, "n_days": n_days, "seed": int(1000 * seed + k),
                                "start_hour": int(r.choice([0, 0, 1, 6, 13, 21, 23])), "end_hour": int(r.choice([23, 23, 22, 12, 5, 0])),
                                "ghi": bool(r.integers(0, 2)), "electric": bool(r.integers(0, 2)), "reporting": bool(r.integers(0, 2)),
                                "nan_frac": float(r.choice([0.0, 0.02, 0.1, 0.3])), "blocks": int(r.integers(0, 3)), "block_len": int(r.choice([4, 12, 30])),
                                "zeros": int(r.choice([0, 0, 3, 10])), "absent_frac": float(r.choice([0.0, 0.05, 0.2])),
                                "dups": int(r.choice([0, 0, 2, 6])), "dup_order": str(r.choice(["sorted", "appended"])),
                                "edge_nan": int(r.choice([0, 0, 1, 2, 3])), "edge_len": int(r.choice([3, 14, 30]))})
    # structured corner cases
    base = {"tz": "America/Chicago", "first_day": "2023-06-05", "n_days": 7, "seed": 5, "start_hour": 0, "end_hour": 23, "ghi": True, "electric": True,
            "reporting": False, "nan_frac": 0.0, "blocks": 0, "block_len": 4, "zeros": 0, "absent_frac": 0.0, "dups": 0, "dup_order": "sorted", "edge_nan": 0}
    out.append(dict(base))
    out.append(dict(base, empty_col="ghi"))
    out.append(dict(base, empty_col="temperature", nan_frac=0.1))
    out.append(dict(base, reporting=True, no_observed=True, nan_frac=0.05))
    out.append(dict(base, zeros=168 * 2))                     # every usage value zero: the whole column is empty for electric
    out.append(dict(base, zeros=168 * 2, electric=False))     # ... and kept for gas
    out.append(dict(base, dups=8, dup_order="appended"))
    out.append(dict(base, dups=8, dup_order="sorted", electric=False))
    out.append(dict(base, start_hour=21, edge_nan=1, edge_len=30, n_days=10))
    out.append(dict(base, tiny=True, nan_frac=0.02))
    out.append(dict(base, tiny=True, electric=False, ghi=False))
    out.append(dict(base, n_days=3, nan_frac=0.1))            # at most 72 rows: the autocorrelation fill is skipped
    out.append(dict(base, n_days=2, nan_frac=0.1, start_hour=5))
    if tier == "thorough":
        out.append(dict(base, n_days=60, nan_frac=0.05, blocks=2, block_len=30, absent_frac=0.05, dups=4))
        out.append(dict(base, n_days=400, nan_frac=0.02, blocks=2, block_len=30, absent_frac=0.02, dups=4, first_day="2022-01-01"))
        out.append(dict(base, n_days=730, nan_frac=0.01, first_day="2021-01-01", tz="Europe/Berlin"))
    return out


def run(tier="quick", seed=0):
    b = Bounded("C17", "C17.keep", MODULE,
                "real HourlyBaselineData / HourlyReportingData on hourly frames: zones " + ", ".join(ZONES) + "; first local day in summer, winter, on and two days "
                "before each 2023 DST change of the zone, and placed so that the LAST day is the DST day; spans of 4-14 days (thorough: up to 40, plus 60, 400 and 730 "
                "days); start hour in {0,1,6,13,21,23}, end hour in {23,22,12,5,0}; 0-30 % scattered NaN cells, 0-2 NaN blocks of up to 30 hours per column, NaN runs at "
                "the frame edges, 0-20 % absent rows, 0-6 duplicated timestamps (first occurrence blank or zero in half of them, sorted or appended), 0-10 zero readings, tiny non-zero readings (1e-9 .. 5e-324), "
                "electric / gas, with / without irradiance, baseline / reporting (also without usage), an empty column. Cell-by-cell comparison with the input. "
                "distinct = case", known_findings=load_known("C17"))
    for case in cases(tier, seed):
        try:
            r = replay(case)
        except Exception as e:  # noqa
            import traceback
            r = {"ok": False, "problems": [f"harness exception {type(e).__name__}: {e}", traceback.format_exc()[-600:]]}
        b.case("C17.keep", case, r["ok"], nontrivial_key=str(case), detail=r["problems"])
    return b.result()
