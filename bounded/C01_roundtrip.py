"""Bounded part of C01: REAL to_json/from_json round trips (pydantic / json / pandas are outside the verifier's
reach).  Quick: parameter-built daily & billing models of all 7 shapes (unsplit and split) + one real daily
fit.  Thorough: + legacy profile, real billing / hourly / CalTRACK-hourly fits.  Never counted as proved."""
import json
import logging
import warnings

import numpy as np
import pandas as pd

from bounded.common import Bounded, load_known

MODULE = "bounded.C01_roundtrip"
logging.disable(logging.CRITICAL)
warnings.filterwarnings("ignore")

SHAPES = {
    "tidd": dict(intercept=20.0),
    "hdd_tidd": dict(intercept=20.0, hdd_bp=55.0, hdd_beta=-1.25),
    "tidd_cdd": dict(intercept=20.0, cdd_bp=68.0, cdd_beta=2.5),
    "hdd_tidd_smooth": dict(intercept=20.0, hdd_bp=55.0, hdd_beta=-1.25, hdd_k=3.5),
    "tidd_cdd_smooth": dict(intercept=20.0, cdd_bp=68.0, cdd_beta=2.5, cdd_k=2.25),
    "hdd_tidd_cdd": dict(intercept=20.0, hdd_bp=52.0, hdd_beta=1.1, cdd_bp=70.0, cdd_beta=2.2),
    "hdd_tidd_cdd_smooth": dict(intercept=20.0, hdd_bp=52.0, hdd_beta=1.1, hdd_k=0.3, cdd_bp=70.0, cdd_beta=2.2, cdd_k=0.45),
}
SPLITS = {"unsplit": ["fw-su_sh_wi"], "season2": ["fw-su", "fw-sh_wi"], "six": ["wd-su", "wd-sh", "wd-wi", "we-su", "we-sh", "we-wi"]}


def submodel(shape, shift=0.0):
    c = {"model_type": shape, "intercept": None, "hdd_bp": None, "hdd_beta": None, "hdd_k": None, "cdd_bp": None,
         "cdd_beta": None, "cdd_k": None}
    c.update(SHAPES[shape])
    c["intercept"] += shift
    return {"coefficients": c, "temperature_constraints": {"T_min": 5.0, "T_max": 98.0, "T_min_seg": 12.0, "T_max_seg": 91.0},
            "f_unc": 3.25 + shift}


def param_doc(family, shape, split, warn):
    from opendsm.eemeter.models.daily.utilities.settings import DailySettings, DailyLegacySettings
    if family == "billing":
        settings = DailyLegacySettings().model_dump()
        settings["developer_mode"] = True
    else:
        settings = DailySettings().model_dump()
    w = [{"qualified_name": "eemeter.test.warning", "description": "w", "data": {"a": 1.5}}] if warn else []
    dq = [{"qualified_name": "eemeter.test.dq", "description": "d", "data": {"b": [1, 2]}}] if warn else []
    return {"submodels": {k: submodel(shape, 0.5 * i) for i, k in enumerate(SPLITS[split])},
            "info": {"error": {"wRMSE": 1.0, "RMSE": 1.0, "MAE": 1.0, "CVRMSE": 0.1, "PNRMSE": 0.1},
                     "baseline_timezone": "America/Chicago", "disqualification": dq, "warnings": w},
            "settings": settings}


def grid_frame(tz="America/Chicago"):
    idx = pd.date_range("2023-01-01", periods=402, freq="D", tz=tz)
    T = np.concatenate([np.linspace(-40, 140, 201), np.linspace(140, -40, 201)])
    return pd.DataFrame({"temperature": T}, index=idx)


def _names(ws):
    return [(w.qualified_name, w.description, json.dumps(w.data, sort_keys=True)) for w in ws]


def compare_models(m1, m2, predict):
    """list of differences between a model and its reloaded copy"""
    bad = []
    j1, j2 = m1.to_json(), m2.to_json()
    if j1 != j2:
        bad.append("to_json is not a fixpoint: " + _first_diff(j1, j2))
    for attr in ("warnings", "disqualification"):
        if not hasattr(m1, attr) and not hasattr(m2, attr):
            continue            # the CalTRACK hourly wrapper keeps its warnings inside the stored results, compared through to_json above
        if _names(getattr(m1, attr, [])) != _names(getattr(m2, attr, [])):
            bad.append(f"{attr} differ after reload")
    tz1, tz2 = getattr(m1, "baseline_timezone", None), getattr(m2, "baseline_timezone", None)
    if str(tz1) != str(tz2):
        bad.append(f"baseline_timezone {tz1!r} != {tz2!r}")
    p1, p2 = predict(m1), predict(m2)
    if list(p1.columns) != list(p2.columns) or not p1.index.equals(p2.index):
        bad.append("prediction frames differ in shape")
    else:
        for c in p1.columns:
            a, b = p1[c].values, p2[c].values
            if a.dtype.kind in "fi":
                if not np.array_equal(a.astype(float).view(np.int64), b.astype(float).view(np.int64)):
                    bad.append(f"column {c} not bit-identical (max abs diff {np.nanmax(np.abs(a.astype(float) - b.astype(float)))})")
            elif not (pd.Series(a).astype(str).values == pd.Series(b).astype(str).values).all():
                bad.append(f"column {c} differs")
    return bad


def formula_differences(m, pred):
    """the prediction of a (reloaded) daily model against the documented piecewise formula evaluated from its JSON parameters alone (unsmoothed and
    smoothed shapes; every row that has a prediction)"""
    import contracts.spec_curve as S
    doc = json.loads(m.to_json())
    bad = []
    p = pred.dropna(subset=["predicted"])
    for key, grp in p.groupby("model_split"):
        c = doc["submodels"][key]["coefficients"]
        g = lambda k: 0.0 if c.get(k) is None else float(c[k])  # noqa: E731
        want = np.array([float(S.documented(c["model_type"], g("hdd_bp"), g("hdd_beta"), g("hdd_k"), g("cdd_bp"), g("cdd_beta"), g("cdd_k"), c["intercept"], float(t)))
                         for t in grp["temperature"].astype(float).values])
        got = grp["predicted"].astype(float).values
        if not np.allclose(got, want, rtol=1e-9, atol=1e-9):
            i = int(np.argmax(np.abs(got - want)))
            bad.append(f"sub-model {key}: predicted {got[i]!r} at {float(grp['temperature'].values[i])!r} F, the formula from the stored parameters gives {want[i]!r} "
                       f"({int((~np.isclose(got, want, rtol=1e-9, atol=1e-9)).sum())} days differ)")
    return bad


def _first_diff(a, b):
    for i, (x, y) in enumerate(zip(a, b)):
        if x != y:
            return f"at char {i}: ...{a[max(0, i - 40):i + 40]!r} vs ...{b[max(0, i - 40):i + 40]!r}"
    return f"lengths {len(a)} vs {len(b)}"


def replay(case):
    kind = case["kind"]
    if kind == "params":
        from opendsm.eemeter.models.daily.model import DailyModel
        from opendsm.eemeter.models.billing.model import BillingModel
        cls = BillingModel if case["family"] == "billing" else DailyModel
        doc = param_doc(case["family"], case["shape"], case["split"], case["warn"])
        if case.get("settings_override"):
            from opendsm.eemeter.models.daily.utilities.settings import DailySettings, DailyLegacySettings
            cls_s = DailyLegacySettings if case["family"] == "billing" else DailySettings
            doc["settings"] = cls_s(**case["settings_override"]).model_dump()     # a profile the constructor accepts, as it is stored
        pristine = json.loads(json.dumps(doc))
        given = json.loads(json.dumps(doc))
        m1 = cls.from_dict(given)
        m2 = cls.from_json(m1.to_json())
        df = grid_frame()
        bad = compare_models(m1, m2, lambda m: m._predict(df.copy()))
        # the stored document itself is reproduced (first generation), and reading it does not rewrite it
        again = json.loads(m1.to_json())
        if again != pristine:
            keys = [k for k in pristine if again.get(k) != pristine[k]]
            bad.append(f"document read and written again differs from the stored document in {keys}: " +
                       _first_diff(json.dumps(pristine, sort_keys=True), json.dumps(again, sort_keys=True)))
        if given != pristine:
            bad.append("from_dict modified the document it was given")
        return {"ok": not bad, "differences": bad}
    if kind == "fit":
        m1, predict, cls = fitted(case["family"], case.get("profile", "current"))
        try:
            m2 = cls.from_json(m1.to_json())
        except Exception as e:  # noqa
            return {"ok": False, "differences": [f"from_json(to_json()) raised {type(e).__name__}: {str(e)[:300]}"]}
        bad = compare_models(m1, m2, predict)
        if case["family"].startswith("daily"):
            bad += formula_differences(m2, predict(m2))
        return {"ok": not bad, "differences": bad}
    raise ValueError(kind)


_CACHE = {}


def fitted(family, profile="current"):
    key = (family, profile)
    if key in _CACHE:
        return _CACHE[key]
    import opendsm.eemeter as em
    from opendsm.eemeter.samples import load_sample
    from opendsm.eemeter.common.transform import get_baseline_data
    if family in ("daily", "billing"):
        sample = "il-electricity-cdd-hdd-daily" if family == "daily" else "il-electricity-cdd-hdd-billing_monthly"
        meter, temp, meta = load_sample(sample)
        if family == "billing":
            # the sample is stamped in UTC (reads at 06:00 = local midnight); the billing data class needs the meter's own clock
            meter, temp = meter.tz_convert("America/Chicago"), temp.tz_convert("America/Chicago")
        bm, _ = get_baseline_data(meter, end=meta["blackout_start_date"], max_days=365)
        if family == "daily":
            data = em.DailyBaselineData.from_series(bm, temp, is_electricity_data=True)
            rep = em.DailyReportingData.from_series(meter, temp, is_electricity_data=True)
            m = em.DailyModel(model=profile).fit(data, ignore_disqualification=True)
            out = (m, lambda mm: mm.predict(rep, ignore_disqualification=True), em.DailyModel)
        else:
            data = em.BillingBaselineData.from_series(bm, temp, is_electricity_data=True)
            rep = em.BillingReportingData.from_series(meter, temp, is_electricity_data=True)
            m = em.BillingModel().fit(data, ignore_disqualification=True)
            out = (m, lambda mm: mm.predict(rep, ignore_disqualification=True), em.BillingModel)
    elif family in ("hourly", "hourly_solar", "hourly_solar_reordered"):
        meter, temp, meta = load_sample("il-electricity-cdd-hdd-hourly")
        df = pd.concat([meter.rename(columns={"value": "observed"}), temp.rename("temperature")], axis=1).dropna()
        if family in ("hourly_solar", "hourly_solar_reordered"):
            h = df.index.hour.values
            df["ghi"] = np.clip(np.sin((h - 12) / 12 * np.pi), 0, None) * 800 + 5.0
        base = em.HourlyBaselineData(df.iloc[: 24 * 120], is_electricity_data=True)
        rep = em.HourlyReportingData(df.iloc[24 * 120: 24 * 170], is_electricity_data=True)
        if family == "hourly_solar_reordered":
            # a solar profile whose feature list is NOT in the order fit works in (fit sorts its working list, the settings keep the caller's order)
            m = em.HourlyModel(settings=em.HourlySolarSettings(train_features=["ghi", "temperature"], seed=5)).fit(base, ignore_disqualification=True)
        else:
            m = em.HourlyModel().fit(base, ignore_disqualification=True)
        out = (m, lambda mm: mm.predict(rep, ignore_disqualification=True), em.HourlyModel)
    elif family in ("hourly_no_edge_bins", "hourly_no_intercept"):
        # profiles the constructor accepts whose stored form has a null / scalar where the default profile has a table / vector
        meter, temp, meta = load_sample("il-electricity-cdd-hdd-hourly")
        df = pd.concat([meter.rename(columns={"value": "observed"}), temp.rename("temperature")], axis=1).dropna()
        base = em.HourlyBaselineData(df.iloc[: 24 * 400], is_electricity_data=True)
        rep = em.HourlyReportingData(df.iloc[24 * 400: 24 * 440], is_electricity_data=True)
        st = {"seed": 3, "temperature_bin": {"include_edge_bins": False, "edge_bin_rate": None, "edge_bin_percent": None}} if family == "hourly_no_edge_bins" else \
            {"seed": 3, "elasticnet": {"fit_intercept": False}}
        m = em.HourlyModel(settings=st).fit(base, ignore_disqualification=True)
        out = (m, lambda mm: mm.predict(rep, ignore_disqualification=True), em.HourlyModel)
    elif family == "hourly_supplemental":
        # a profile with a supplemental time-series column whose NAME has upper-case letters (the settings keep names as given)
        meter, temp, meta = load_sample("il-electricity-cdd-hdd-hourly")
        df = pd.concat([meter.rename(columns={"value": "observed"}), temp.rename("temperature")], axis=1).dropna()
        df["Humidity"] = 40 + 25 * np.sin(np.arange(len(df)) / 37.0)
        base = em.HourlyBaselineData(df.iloc[: 24 * 120], is_electricity_data=True, **({}))
        rep = em.HourlyReportingData(df.iloc[24 * 120: 24 * 160], is_electricity_data=True)
        m = em.HourlyModel(settings={"supplemental_time_series_columns": ["Humidity"], "seed": 4}).fit(base, ignore_disqualification=True)
        out = (m, lambda mm: mm.predict(rep, ignore_disqualification=True), em.HourlyModel)
    elif family == "daily_netmetered":
        # a net-metered (rooftop solar) site: negative readings in the baseline, a fitted curve that goes below zero in the reporting period
        rng = np.random.default_rng(12)
        idx = pd.date_range("2021-01-01", periods=365 * 2, freq="D", tz="America/Chicago")
        T = 55 + 25 * np.sin((np.arange(len(idx)) - 105) / 365 * 2 * np.pi) + rng.normal(0, 3, len(idx))
        obs = 4.0 + 0.5 * np.maximum(48 - T, 0) - 0.7 * np.maximum(T - 60, 0) + rng.normal(0, 0.8, len(idx))     # exports grow with the summer sun
        df = pd.DataFrame({"temperature": T, "observed": obs}, index=idx)
        data = em.DailyBaselineData(df.iloc[:365], is_electricity_data=True)
        rep = em.DailyReportingData(df.iloc[365:], is_electricity_data=True)
        m = em.DailyModel().fit(data, ignore_disqualification=True)
        out = (m, lambda mm: mm.predict(rep, ignore_disqualification=True), em.DailyModel)
    elif family == "caltrack_hourly_partial":
        # a baseline that covers only some calendar months (January to early April), a reporting period WITH usage that reaches uncovered months
        from opendsm.eemeter.models.hourly_caltrack.wrapper import HourlyModel as CT
        from opendsm.eemeter.models.hourly_caltrack.data import HourlyBaselineData as CTB, HourlyReportingData as CTR
        meter, temp, meta = load_sample("il-electricity-cdd-hdd-hourly")
        df = pd.concat([meter.rename(columns={"value": "observed"}), temp.rename("temperature")], axis=1).dropna()
        df = df.loc["2016-01-01":]
        base = CTB(df.iloc[: 24 * 100].copy(), is_electricity_data=True)
        rep = CTR(df.iloc[24 * 100: 24 * 190].copy(), is_electricity_data=True)
        m = CT().fit(base)
        out = (m, lambda mm: mm.predict(rep), CT)
    elif family == "caltrack_hourly":
        from opendsm.eemeter.models.hourly_caltrack.wrapper import HourlyModel as CT
        from opendsm.eemeter.models.hourly_caltrack.data import HourlyBaselineData as CTB, HourlyReportingData as CTR
        meter, temp, meta = load_sample("il-electricity-cdd-hdd-hourly")
        df = pd.concat([meter.rename(columns={"value": "observed"}), temp.rename("temperature")], axis=1).dropna()
        base = CTB(df.iloc[: 24 * 365].copy(), is_electricity_data=True)
        rep = CTR(df.iloc[24 * 365: 24 * 430].copy(), is_electricity_data=True)
        m = CT().fit(base)
        out = (m, lambda mm: mm.predict(rep), CT)
    else:
        raise ValueError(family)
    _CACHE[key] = out
    return out


def run(tier="quick", seed=0):
    b = Bounded("C01", "C01.rt", MODULE,
                "real from_json(to_json()) round trips: to_json fixpoint, warnings/disqualification/timezone kept, predictions "
                "bit-identical (402-day grid from -40F to 140F for parameter-built models; the sample's reporting period for fitted "
                "ones). Domain: {daily, billing} x 7 shapes x {unsplit, 2-season, 6-way} x {with, without stored warnings} parameter-built "
                "models + real fits (daily current and legacy profile, billing, hourly, hourly solar, CalTRACK hourly). "
                "distinct = distinct (family, shape, split, warn) or (family, profile)", known_findings=load_known("C01"))
    for family in ("daily", "billing"):
        for shape in SHAPES:
            for split in SPLITS:
                for warn in (False, True):
                    if tier == "quick" and split == "six" and not warn:
                        continue
                    case = {"kind": "params", "family": family, "shape": shape, "split": split, "warn": warn}
                    _one(b, case, (family, shape, split, warn))
    fits = [("daily", "current"), ("hourly", "current"), ("hourly_solar", "current"), ("hourly_solar_reordered", "current"), ("daily", "legacy"), ("billing", "current"),
            ("caltrack_hourly", "current"), ("hourly_supplemental", "current"), ("daily_netmetered", "current"), ("caltrack_hourly_partial", "current"),
            ("hourly_no_edge_bins", "current"), ("hourly_no_intercept", "current")]
    # developer-mode profiles whose overrides include options set to None (stored as null)
    for family in ("daily", "billing"):
        case = {"kind": "params", "family": family, "shape": "hdd_tidd_cdd_smooth", "split": "season2", "warn": False,
                "settings_override": {"developer_mode": True, "alpha_final_type": None, "final_bounds_scalar": None, "alpha_final": None}}
        _one(b, case, (family, "developer_none_overrides"))
    for family, profile in fits:
        case = {"kind": "fit", "family": family, "profile": profile}
        known = "C01-legacy-profile-reload" if (family, profile) == ("daily", "legacy") else None
        _one(b, case, (family, profile), known)
    return b.result()


def _one(b, case, key, known=None):
    try:
        res = replay(case)
    except Exception as e:  # noqa
        import traceback
        res = {"ok": False, "differences": [f"exception {type(e).__name__}: {e}", traceback.format_exc()[-800:]]}
    b.case("C01.rt", case, res["ok"], nontrivial_key=key, detail=res.get("differences"), known_id=known)
