"""C04 -- the disqualification gate is fail-closed and survives storage.

Exceptional postconditions ("raises X iff ...") of the fit / predict guards of the daily, billing and hourly
models, and restoration of the disqualification list by from_dict.  The model-fitting and predicting bodies
(_fit, _adaptive_fit, _predict) are opaque: only their frame (`assigns self.*`) is assumed.
"""
from pyvc.api import *  # noqa

DM = repo("opendsm/eemeter/models/daily/model.py::DailyModel")
BLM = repo("opendsm/eemeter/models/billing/model.py::BillingModel")
HM = repo("opendsm/eemeter/models/hourly/model.py::HourlyModel")
DBD = repo("opendsm/eemeter/models/daily/data.py::DailyBaselineData")
DRD = repo("opendsm/eemeter/models/daily/data.py::DailyReportingData")
BBD = repo("opendsm/eemeter/models/billing/data.py::BillingBaselineData")
BRD = repo("opendsm/eemeter/models/billing/data.py::BillingReportingData")
HBD = repo("opendsm/eemeter/models/hourly/data.py::HourlyBaselineData")
HRD = repo("opendsm/eemeter/models/hourly/data.py::HourlyReportingData")

OPAQUE = {
    "opendsm/eemeter/models/daily/data.py::_DailyData.log_warnings": None,
    "opendsm/eemeter/models/hourly/data.py::_HourlyData.log_warnings": None,
    "opendsm/eemeter/common/warnings.py::EEMeterWarning.warn": None,
    "opendsm/eemeter/models/daily/model.py::DailyModel._fit": "daily_fit_effect",
    "opendsm/eemeter/models/daily/model.py::DailyModel._predict": "predict_effect",
    "opendsm/eemeter/models/hourly/model.py::HourlyModel._fit": "hourly_fit_effect",
    "opendsm/eemeter/models/hourly/model.py::HourlyModel._adaptive_fit": "hourly_fit_effect",
    "opendsm/eemeter/models/hourly/model.py::HourlyModel._predict": "hourly_predict_effect",
    "opendsm/eemeter/models/daily/model.py::DailyModel.__init__": "init_effect",
    "opendsm/eemeter/models/hourly/model.py::HourlyModel.__init__": "hourly_init_effect",
    "opendsm/common/metrics.py::BaselineMetricsFromDict": None,
}
OPAQUE_CLASS_MODULES = ["opendsm/eemeter/models/daily/utilities/settings.py"]
# settings objects are irrelevant to the gate; ModelInfo (same file) is NOT opaque: it is a pydantic record whose
# assumed contract is that list fields keep their length
OPAQUE_CLASSES = ["opendsm/eemeter/models/hourly/settings.py::HourlySolarSettings",
                  "opendsm/eemeter/models/hourly/settings.py::HourlyNonSolarSettings"]


def daily_fit_effect(self, meter_data):
    self.error = {"wRMSE": fresh_real("e"), "RMSE": fresh_real("e"), "MAE": fresh_real("e"),
                  "CVRMSE": fresh_real("cvrmse"), "PNRMSE": fresh_real("e")}
    self.model = {}
    # the last step of the real _fit: the stored parameters are built from the model's state AT THIS POINT
    self.params = self._create_params_from_fit_model()
    self.is_fitted = True
    return self


def predict_effect(self, df_eval, mask_observed_with_missing_temperature=True):
    # ghost record of the call: which frame was predicted and whether the CalTRACK 3.5.1.1 masking was requested
    self.ghost_predict_calls = self.ghost_predict_calls + [(df_eval, mask_observed_with_missing_temperature)]
    return opaque("prediction frame")


def hourly_fit_effect(self, meter_data):
    self.is_fitted = True
    self.baseline_metrics = new_object(None, cvrmse_adj=fresh_real("cv"), pnrmse_adj=fresh_real("pn"))
    self.baseline_timezone = meter_data.tz
    return self


def hourly_predict_effect(self, eval_data, X=None):
    return opaque("prediction frame")


def init_effect(self, model="current", settings=None, verbose=False):
    self.settings = opaque("settings")


def hourly_init_effect(self, settings=None):
    self.settings = opaque("settings")
    self._feature_scaler = opaque("scaler")
    self._y_scaler = opaque("yscaler")
    self._model = opaque("elasticnet")
    self._temporal_cluster_cols = ["month", "day_of_week"]
    self._ts_features = []
    self._categorical_features = []


def data_object(family, kind):
    cls = None
    if family == "daily":
        cls = DBD if kind == "baseline" else DRD if kind == "reporting" else None
    if family == "billing":
        cls = BBD if kind == "baseline" else BRD if kind == "reporting" else None
    if family == "hourly":
        cls = HBD if kind == "baseline" else HRD if kind == "reporting" else None
    df = opaque("data.df", columns=["temperature", "observed"])
    return new_object(cls, disqualification=fresh_seq("data.disqualification"), warnings=fresh_seq("data.warnings"),
                      tz=opaque("data.tz"), df=df)


def model_class(family):
    if family == "daily":
        return DM
    if family == "billing":
        return BLM
    return HM


FIT_CASES = [{"family": f, "kind": k} for f in ["daily", "billing", "hourly"] for k in ["baseline", "reporting", "foreign"]]


@harness("C04.fit", prop="C04", cases=FIT_CASES, permissive=True)
def fit_gate(family, kind, ignore: Bool, thr: Real, pthr: Real, adaptive: Bool):
    data = data_object(family, kind)
    n_dq = length(data.disqualification)
    if family == "hourly":
        st = new_object(None, cvrmse_threshold=thr, pnrmse_threshold=pthr,
                        elasticnet=new_object(None, adaptive_weights=adaptive))
        m = new_object(HM, settings=st, _ts_features=["temperature"])
    else:
        m = new_object(model_class(family), settings=opaque("settings", cvrmse_threshold=thr))
    out = outcome(m.fit, data, ignore_disqualification=ignore)
    ok_type = kind == "baseline"
    check("C04.fit.type", iff(out.raises("TypeError"), not ok_type))
    check("C04.fit.sufficiency", iff(out.raises("DataSufficiencyError"), And(ok_type, n_dq > 0, Not(ignore))))
    check("C04.fit.returns", iff(out.returned, And(ok_type, Or(n_dq == 0, ignore))))
    if out.returned:
        check("C04.fit.returns_self", is_same(out.value, m))
        check("C04.fit.fitted", m.is_fitted == True)  # noqa: E712
        added = appended(m.disqualification)
        # the disqualification inherited from the baseline is carried by the model
        check("C04.fit.inherits", length(m.disqualification) == n_dq + len(added))
        if family == "hourly":
            bm = m.baseline_metrics
            poor = And(bm.cvrmse_adj >= thr, bm.pnrmse_adj >= pthr)
            check("C04.fit.poorfit", iff(len(added) == 1, poor))
            check("C04.fit.poorfit.atmost1", len(added) <= 1)
            if len(added) == 1:
                check("C04.fit.poorfit.name", added[0].qualified_name == "eemeter.model_fit_metrics")
        else:
            poor = m.error["CVRMSE"] > thr
            # what to_dict()/to_json() will write is what the model carries (so the gate survives storage)
            check("C04.fit.stored", length(m.params.info["disqualification"]) == length(m.disqualification))
            check("C04.fit.stored.warnings", length(m.params.info["warnings"]) == length(m.warnings))
            check("C04.fit.poorfit", iff(len(added) == 1, poor))
            check("C04.fit.poorfit.atmost1", len(added) <= 1)
            if len(added) == 1:
                check("C04.fit.poorfit.name", added[0].qualified_name == "eemeter.model_fit_metrics.cvrmse")


PREDICT_CASES = [{"family": f, "kind": k, "fitted": ft}
                 for f in ["daily", "billing", "hourly"] for k in ["baseline", "reporting", "foreign"]
                 for ft in ["yes", "no", "unset"]]


@harness("C04.predict", prop="C04", cases=PREDICT_CASES, permissive=True)
def predict_gate(family, kind, fitted, ignore: Bool):
    data = data_object(family, kind)
    cls = model_class(family)
    m = new_object(cls, disqualification=fresh_seq("model.disqualification"), baseline_timezone=opaque("model.tz"),
                   warnings=fresh_seq("model.warnings"), _ts_features=["temperature"], ghost_predict_calls=[])
    if fitted == "yes":
        m.is_fitted = True
    if fitted == "no":
        m.is_fitted = False
    if fitted == "unset" and family == "hourly":
        m.is_fitted = False         # the hourly constructor always sets the flag (the daily / billing ones leave it unset until fit)
    n_dq = length(m.disqualification)
    tz_same = str(m.baseline_timezone) == str(data.tz)
    if family == "billing":
        out = outcome(m.predict, data, None, ignore)
    else:
        out = outcome(m.predict, data, ignore)
    ok_type = kind != "foreign"
    ok = And(fitted == "yes", ok_type, tz_same)
    # fail closed: a prediction is returned only when every guard passes
    check("C04.predict.fail_closed", implies(out.returned, And(ok, Or(n_dq == 0, ignore))))
    # and when the other guards pass, DisqualifiedModelError is raised exactly for a disqualified model w/o override
    check("C04.predict.dq_iff", implies(ok, iff(out.raises("DisqualifiedModelError"), And(n_dq > 0, Not(ignore)))))
    check("C04.predict.returns", implies(And(ok, Or(n_dq == 0, ignore)), out.returned))
    check("C04.predict.model_untouched", Not(mutated(m.disqualification)))


RESTORE_CASES = [{"family": "daily"}, {"family": "billing"}, {"family": "hourly"}]


@harness("C04.restore", prop="C04", cases=RESTORE_CASES, permissive=True)
def restore(family):
    """from_dict gives the model exactly as many disqualifications (and warnings) as the stored document has,
    so the predict gate behaves the same after storage."""
    dq = fresh_seq("stored.disqualification")
    ws = fresh_seq("stored.warnings")
    info = {"error": {}, "baseline_timezone": "UTC", "disqualification": dq, "warnings": ws, "version": "x"}
    if family == "hourly":
        doc = {"settings": {"train_features": ["temperature"]}, "temporal_clusters": [], "temperature_bin_edges": [],
               "temperature_edge_bin_coefficients": {}, "ts_features": ["temperature"], "categorical_features": [],
               "feature_scaler": {}, "y_scaler": [0, 1], "coefficients": [], "intercept": [],
               "baseline_metrics": {"observed": {}, "predicted": {}, "residuals": {}}, "info": info}
        m = HM.from_dict(doc)
    else:
        doc = {"settings": None, "submodels": {}, "info": info}
        m = model_class(family).from_dict(doc)
    check("C04.restore.disqualification", length(m.disqualification) == length(dq))
    check("C04.restore.warnings", length(m.warnings) == length(ws))
    check("C04.restore.fitted", m.is_fitted == True)  # noqa: E712
    check("C04.restore.timezone", m.baseline_timezone == "UTC")


# ----------------------------------------------------------------------------------------------------------------------------------
# C07 at the PUBLIC entry point: whatever data class the comparison period is wrapped in, predict() hands the data object's own frame to _predict exactly
# once and asks for the masking of usage on days without temperature (the row-wise proof of _predict, contracts/C07_mask.py, assumes that flag)

MASK_CASES = [{"family": f, "kind": k} for f in ["daily", "billing"] for k in ["baseline", "reporting"]]


@harness("C07.public", prop="C07", cases=MASK_CASES, permissive=True)
def public_predict_masks(family, kind, ignore: Bool):
    data = data_object(family, kind)
    cls = model_class(family)
    m = new_object(cls, disqualification=fresh_seq("model.disqualification"), baseline_timezone=opaque("model.tz"),
                   warnings=fresh_seq("model.warnings"), is_fitted=True, ghost_predict_calls=[])
    if family == "billing":
        out = outcome(m.predict, data, None, ignore)
    else:
        out = outcome(m.predict, data, ignore)
    calls = m.ghost_predict_calls
    if out.returned:
        check("C07.public.predicted_once", len(calls) == 1)
        if len(calls) == 1:
            check("C07.public.masking_requested", calls[0][1] is True)
            check("C07.public.own_frame", calls[0][0] is data.df)
    else:
        check("C07.public.nothing_predicted_when_raising", len(calls) == 0)
