"""Flow obligations of C02 (engine B): frame conditions of predict / fit / data-class constructors, decided by the
abstract interpretation in flow/engine_b.py on /repo's current source.  Counted as discharged obligations of a
static analysis ('other' level), not as z3 proofs."""
import os
import time

from flow.engine_b import analyse, module, find_method, _MODULES

PROP = "C02"
M_DAILY = "opendsm/eemeter/models/daily/model.py"
M_BILL = "opendsm/eemeter/models/billing/model.py"
M_HOUR = "opendsm/eemeter/models/hourly/model.py"
M_CT = "opendsm/eemeter/models/hourly_caltrack/wrapper.py"
D_DAILY = "opendsm/eemeter/models/daily/data.py"
D_BILL = "opendsm/eemeter/models/billing/data.py"
D_HOUR = "opendsm/eemeter/models/hourly/data.py"
D_CT = "opendsm/eemeter/models/hourly_caltrack/data.py"

# self attributes the hourly predict path may write, each with the reason it cannot change a later prediction or
# the serialised model (value preservation is exercised by the bounded part bounded/C02_history.py)
HOURLY_PREDICT_WRITES = {
    "_ts_features": "re-sorted with _sort_features (idempotent on its own output); supplemental columns are appended at fit time",
    "_categorical_features": "rebuilt from the fitted cluster/bin count, same value on every call",
    "_ts_feature_norm": "rebuilt from _ts_features, same value on every call",
    "_processed_meter_data_full": "inspection cache of the last call, not read by predict or to_dict",
    "_processed_meter_data": "inspection cache of the last call, not read by predict or to_dict",
    "_T_edge_bin_coeffs": "assigned only inside `if not self.is_fitted` (the analysis keeps the enclosing function)",
}

DATA_CLASSES = [
    (D_DAILY, "DailyBaselineData"), (D_DAILY, "DailyReportingData"), (D_BILL, "BillingBaselineData"), (D_BILL, "BillingReportingData"),
    (D_HOUR, "HourlyBaselineData"), (D_HOUR, "HourlyReportingData"), (D_CT, "HourlyBaselineData"), (D_CT, "HourlyReportingData"),
]


def _param_events(s, params=None):
    out = []
    for e in s.events:
        for t in e.tags:
            if t.startswith("param:") and e.kind != "alias":
                root = t[len("param:"):].split(".")[0].split("[")[0]
                if params is None or root in params:
                    out.append(e)
    return out


def _self_written(s):
    w = set(s.self_assigned)
    for e in s.events:
        for t in e.tags:
            if t.startswith("self.") and e.kind != "alias":
                w.add(t[len("self."):].split(".")[0].split("[")[0])
    return w


def _aliased_and_mutated(s):
    """self.X = <object reachable from a parameter> and self.X mutated later: the parameter's object changes"""
    out = []
    aliased = {}
    for e in s.events:
        if e.kind == "alias":
            for t in e.tags:
                a, _, src = t[len("alias:"):].partition("=")
                aliased[a] = (src, e)
    for e in s.events:
        if e.kind == "alias":
            continue
        for t in e.tags:
            base = t.split("[")[0]
            if base in aliased:
                out.append((aliased[base][1], e))
    return out


def obligations():
    obs = []

    def ob(name, ok, detail):
        obs.append({"name": name, "ok": bool(ok), "detail": detail})

    for fam, rel, q in (("daily", M_DAILY, "DailyModel.predict"), ("billing", M_BILL, "BillingModel.predict"),
                        ("hourly", M_HOUR, "HourlyModel.predict"), ("caltrack_hourly", M_CT, "HourlyModel.predict")):
        s, _ = analyse(rel, q, {"self.is_fitted": True, "self.is_fit": True})
        w = _self_written(s)
        allowed = set(HOURLY_PREDICT_WRITES) if fam == "hourly" else set()
        ob(f"C02.predict.writes.{fam}", w <= allowed, f"self attributes written on the predict path: {sorted(w)}; allowed: {sorted(allowed)}")
        pe = _param_events(s)
        ob(f"C02.predict.data.{fam}", not pe, f"mutation of an object reachable from the reporting data: {pe[:4]}")
    for fam, rel, q in (("daily", M_DAILY, "DailyModel.fit"), ("billing", M_BILL, "BillingModel.fit"), ("hourly", M_HOUR, "HourlyModel.fit"),
                        ("caltrack_hourly", M_CT, "HourlyModel.fit")):
        s, _ = analyse(rel, q)
        pe = _param_events(s)
        ob(f"C02.fit.data.{fam}", not pe, f"mutation of an object reachable from the baseline data: {pe[:4]}")
        am = _aliased_and_mutated(s)
        ob(f"C02.fit.alias.{fam}", not am, f"self attribute aliases the data object's and is mutated: {am[:3]}")
    for rel, cls in DATA_CLASSES:
        tag = f"{rel.split('/')[-2]}.{cls}"
        for meth in ("__init__", "from_series"):
            try:
                s, _ = analyse(rel, f"{cls}.{meth}")
            except KeyError:
                continue
            pe = _param_events(s)
            ob(f"C02.data.{meth.strip('_')}.{tag}", not pe, f"write to the caller's object: {pe[:4]}")
        for prop in ("df", "billing_df"):
            r = find_method(module(rel), cls, prop)
            if r is None:
                continue
            s, _ = analyse(rel, f"{cls}.{prop}")
            ob(f"C02.df.copy.{tag}.{prop}", s.returns <= {"fresh"}, f"returns {sorted(s.returns)} (must be a new object on every path)")
    for fn in ("get_baseline_data", "get_reporting_data"):
        s, _ = analyse("opendsm/eemeter/common/transform.py", fn)
        pe = _param_events(s, {"data"})
        ob(f"C02.transform.{fn}", not pe, f"write to the caller's data: {pe[:4]}")
    # the call-site obligation of DailyModel._initialize_data (it adds helper columns to the frame it is given):
    # every in-repo caller passes a fresh object
    s, an = analyse(M_DAILY, "DailyModel._initialize_data")
    writes_param = bool(_param_events(s, {"meter_data"}))
    s1, _ = analyse(M_DAILY, "DailyModel.predict", {"self.is_fitted": True})
    s2, _ = analyse(M_DAILY, "DailyModel.fit")
    ob("C02.initialize_data.callers", (not writes_param) or (not _param_events(s1) and not _param_events(s2)),
       "_initialize_data writes its argument; predict/fit must hand it the data object's copy")
    return obs


def run(tier="quick", seed=0):
    t0 = time.time()
    _MODULES.clear()
    obs = obligations()
    viol = []
    for o in obs:
        if not o["ok"]:
            path = os.path.join(os.path.dirname(os.path.dirname(os.path.abspath(__file__))), "replay", f"{PROP}-{o['name']}.py")
            os.makedirs(os.path.dirname(path), exist_ok=True)
            with open(path, "w") as f:
                f.write(f'#!/venv/bin/python\n"""Flow obligation {o["name"]} (engine B) failed; a static may-analysis gives no input.\n{o["detail"]}\n"""\n'
                        f'print({o["detail"]!r})\nimport sys; sys.exit(1)\n')
            viol.append({"obligation": o["name"], "replay": path, "reproduced": False, "detail": o["detail"]})
    return {"name": "C02.flow", "kind": "flow", "n_obligations": len(obs), "n_discharged": sum(o["ok"] for o in obs),
            "obligations": {o["name"]: ("discharged" if o["ok"] else "failed") for o in obs}, "violations": viol, "undecided": [],
            "details": {o["name"]: o["detail"] for o in obs}, "wall_s": round(time.time() - t0, 2),
            "rule": "flow obligations generated from the AST of /repo on every run; discharged by abstract interpretation (engine B)"}
