"""C12 -- every fitted daily/billing model is physically admissible and well formed.

What a contract can carry here is the POST-PROCESSING of whatever point the optimiser returns
(assumed: the optimiser returns a point inside the box it was given, DESIGN §3.6).

Functions under contract: OptimizedResult._set_model_key / _refine_model / eval, get_full_model_x,
fix_full_model_x, reduce_model, get_k, get_smooth_coeffs, ModelCoefficients.from_np_arrays / to_np_array /
model_key, evaluate_hdd_tidd_cdd_smooth, _hdd_tidd_cdd, _c_hdd_tidd(_smooth), set_full_model_coeffs(_smooth),
full_model (modular, contract in C11_curve).
"""
from pyvc.api import *  # noqa
from contracts.spec_curve import *  # noqa

USES = ["contracts.C11_curve"]

OR = repo("opendsm/eemeter/models/daily/optimize_results.py::OptimizedResult")
MC = repo("opendsm/eemeter/models/daily/parameters.py::ModelCoefficients")
EVAL_SMOOTH = repo("opendsm/eemeter/models/daily/base_models/hdd_tidd_cdd.py::evaluate_hdd_tidd_cdd_smooth")
EVAL_HTC = repo("opendsm/eemeter/models/daily/base_models/hdd_tidd_cdd.py::_hdd_tidd_cdd")
EVAL_C_SMOOTH = repo("opendsm/eemeter/models/daily/base_models/c_hdd_tidd.py::_c_hdd_tidd_smooth")
EVAL_C = repo("opendsm/eemeter/models/daily/base_models/c_hdd_tidd.py::_c_hdd_tidd")
EVAL_TIDD = repo("opendsm/eemeter/models/daily/base_models/tidd.py::_tidd")

COEF_IDS = {
    "hdd_tidd_cdd_smooth": ["hdd_bp", "hdd_beta", "hdd_k", "cdd_bp", "cdd_beta", "cdd_k", "intercept"],
    "hdd_tidd_cdd": ["hdd_bp", "hdd_beta", "cdd_bp", "cdd_beta", "intercept"],
    "c_hdd_tidd_smooth": ["c_hdd_bp", "c_hdd_beta", "c_hdd_k", "intercept"],
    "c_hdd_tidd": ["c_hdd_bp", "c_hdd_beta", "intercept"],
    "tidd": ["intercept"],
}
KEYS = ["hdd_tidd_cdd_smooth", "hdd_tidd_cdd", "c_hdd_tidd_smooth", "c_hdd_tidd", "tidd"]
# (raw key, fit stage): the final fit is bounded by the segment limits, the initial fit by the full range
CASES = [{"key": k, "final": f} for k in KEYS for f in [True, False]]


def in_box(key, x, lo, hi, smax, edge_lo=None, edge_hi=None):
    """The box handed to the optimiser by fit_hdd_tidd_cdd / fit_c_hdd_tidd / fit_tidd (DESIGN Appendix A):
    one shared interval for both breakpoints, slopes in [0, smax] (two-sided) or [-smax, smax] (one-sided),
    fractions in [0, 1], absolute k in [0, 1000].  Nothing orders hdd_bp and cdd_bp."""
    if key == "hdd_tidd_cdd_smooth":
        return And(lo <= x[0], x[0] <= hi, lo <= x[3], x[3] <= hi, 0 <= x[1], x[1] <= smax, 0 <= x[4], x[4] <= smax,
                   0 <= x[2], x[2] <= 1, 0 <= x[5], x[5] <= 1)
    if key == "hdd_tidd_cdd":
        return And(lo <= x[0], x[0] <= hi, lo <= x[2], x[2] <= hi, 0 <= x[1], x[1] <= smax, 0 <= x[3], x[3] <= smax)
    if key == "c_hdd_tidd_smooth":
        return And(lo <= x[0], x[0] <= hi, 0 - smax <= x[1], x[1] <= smax, 0 <= x[2], x[2] <= 1000)
    if key == "c_hdd_tidd":
        if edge_lo is not None:
            # the FINAL fit of the unsmoothed one-sided shape pins the breakpoint on the edge of the range ([T_min, T_min] or [T_max, T_max]) when the
            # prior breakpoint sits in the segment buffer (fit_c_hdd_tidd): the box is then a point outside the segment limits
            return And(Or(And(lo <= x[0], x[0] <= hi), x[0] == edge_lo, x[0] == edge_hi), 0 - smax <= x[1], x[1] <= smax)
        return And(lo <= x[0], x[0] <= hi, 0 - smax <= x[1], x[1] <= smax)
    return True


def raw_vector(key, x0, x1, x2, x3, x4, x5, x6):
    n = len(COEF_IDS[key])
    return [x0, x1, x2, x3, x4, x5, x6][:n]


def refined(key, final, x, T_min, T_max, T_min_seg, T_max_seg):
    """An OptimizedResult in the state its constructor reaches just before `_set_model_key(); _refine_model()`,
    then those two real methods and the real from_np_arrays, exactly as composed in OptimizedResult.__init__."""
    res = new_object(OR, x=np_array(x), coef_id=list(COEF_IDS[key]), num_coeffs=len(x),
                     T_min=T_min, T_max=T_max, T_min_seg=T_min_seg, T_max_seg=T_max_seg)
    res._set_model_key()
    res._refine_model()
    res.named_coeffs = MC.from_np_arrays(res.x, res.coef_id)
    res.x = np_array(res.x)
    return res


def np_array(x):
    return repo("opendsm/eemeter/models/daily/parameters.py::np").array(x)


@harness("C12.admissible", prop="C12", cases=CASES)
def admissible(key, final, x0: Real, x1: Real, x2: Real, x3: Real, x4: Real, x5: Real, x6: Real,
               T_min: Real, T_max: Real, T_min_seg: Real, T_max_seg: Real, smax: Real):
    """x in box  =>  the named coefficients kept for the sub-model are admissible (adm(shape), DESIGN App. A)."""
    assume(And(T_min <= T_min_seg, T_min_seg <= T_max_seg, T_max_seg <= T_max, smax >= 0))
    x = raw_vector(key, x0, x1, x2, x3, x4, x5, x6)
    lo = T_min_seg if final else T_min
    hi = T_max_seg if final else T_max
    if final:
        assume(in_box(key, x, lo, hi, smax, T_min, T_max))
    else:
        assume(in_box(key, x, lo, hi, smax))
    res = refined(key, final, x, T_min, T_max, T_min_seg, T_max_seg)
    c = res.named_coeffs
    shape = c.model_type.value
    cover(shape)
    heat = shape in ["hdd_tidd", "hdd_tidd_smooth", "hdd_tidd_cdd", "hdd_tidd_cdd_smooth"]
    cool = shape in ["tidd_cdd", "tidd_cdd_smooth", "hdd_tidd_cdd", "hdd_tidd_cdd_smooth"]
    smooth = shape in SMOOTH
    # declared type <=> coefficients present
    check("C12.type_agrees.hdd", (c.hdd_bp is not None) == heat and (c.hdd_beta is not None) == heat
          and (c.hdd_k is not None) == (heat and smooth))
    check("C12.type_agrees.cdd", (c.cdd_bp is not None) == cool and (c.cdd_beta is not None) == cool
          and (c.cdd_k is not None) == (cool and smooth))
    check("C12.model_key_agrees", c.model_key == res.model_key)
    if heat:
        check("C12.hdd_bp.in_range", And(T_min <= c.hdd_bp, c.hdd_bp <= T_max))
        if cool:
            check("C12.hdd_beta.sign", c.hdd_beta > 0)
        else:
            check("C12.hdd_beta.sign", c.hdd_beta < 0)
    if cool:
        check("C12.cdd_bp.in_range", And(T_min <= c.cdd_bp, c.cdd_bp <= T_max))
        check("C12.cdd_beta.sign", c.cdd_beta > 0)
    if heat and cool:
        check("C12.bp_order", c.hdd_bp <= c.cdd_bp)
        check("C12.bp_not_on_edge", Or(c.hdd_bp == c.cdd_bp, And(T_min < c.hdd_bp, c.cdd_bp < T_max)))
    if smooth:
        if heat and cool:
            check("C12.k.range", And(0 <= c.hdd_k, c.hdd_k <= 1, 0 <= c.cdd_k, c.cdd_k <= 1, Or(c.hdd_k > 0, c.cdd_k > 0)))
        elif heat:
            check("C12.k.range", c.hdd_k > 0)
        else:
            check("C12.k.range", c.cdd_k > 0)
    # the stored vector is the named coefficients (what to_np_array gives back and predict rebuilds from)
    back = c.to_np_array()
    same = length(back) == length(res.x)
    check("C12.x_is_named.len", same)
    if length(back) == length(res.x):
        eqs = [back[i] == res.x[i] for i in range(length(back))]
        check("C12.x_is_named", And(*eqs))
    check("C12.intercept_kept", c.intercept == x[len(x) - 1])


def scored(key, x, T_min, T_max, T):
    """The curve the optimiser's objective evaluated for the raw vector x (model_fcn of the fit functions)."""
    bnds = np_array([T_min, T_max])
    if key == "hdd_tidd_cdd_smooth":
        return EVAL_SMOOTH(x[0], x[1], x[2], x[3], x[4], x[5], x[6], bnds, T)
    if key == "hdd_tidd_cdd":
        return EVAL_HTC(x[0], x[1], x[2], x[3], x[4], bnds, T)
    if key == "c_hdd_tidd_smooth":
        return EVAL_C_SMOOTH(x[0], x[1], x[2], x[3], bnds, T)
    if key == "c_hdd_tidd":
        return EVAL_C(x[0], x[1], x[2], bnds, T)
    return EVAL_TIDD(x[0], bnds, T)


def finding_H(key, x):
    """Witness class of known finding C12-H: breakpoints returned in the wrong order together with smoothing."""
    if key == "hdd_tidd_cdd_smooth":
        return And(x[0] > x[3], Or(x[2] >= 0.01, x[5] >= 0.01))
    return False


def finding_H2(key, x, T_min, T_max):
    """Witness class of known finding C12-H2 (two-sided smoothed fits): a side that ends up without a slope
    (slope 0, or removed because its breakpoint sits on the edge of the range) still carries a smoothing
    fraction.  The scored curve used that fraction (it shifts the joints and enters the normalisation of the
    other side's fraction); the read-back path drops it."""
    if key != "hdd_tidd_cdd_smooth":
        return False
    bl = x[0]
    sl = x[1]
    kl = x[2]
    br = x[3]
    sr = x[4]
    kr = x[5]
    if x[3] < x[0]:
        bl = x[3]
        sl = x[4]
        kl = x[5]
        br = x[0]
        sr = x[1]
        kr = x[2]
    right_removed = Or(sr == 0, And(bl != br, br >= T_max))
    left_removed = Or(sl == 0, And(bl != br, br < T_max, bl <= T_min))
    return Or(And(right_removed, kr != 0), And(left_removed, kl != 0))


def finding_H3(key, final, x, T_min, T_max, T_min_seg, T_max_seg):
    """Witness class of known finding C12-H3 (fits bounded by the full range, i.e. the initial fits kept in
    fit_components and, without a final refit, in the model; and the final fit of the unsmoothed one-sided shape when
    fit_c_hdd_tidd pins its breakpoint on the edge of the range): a one-sided unsmoothed result whose breakpoint
    lies beyond the segment limits is stored with the breakpoint moved onto the limit."""
    if key == "c_hdd_tidd":
        # (also in a final fit: its breakpoint box can be the edge of the range, see in_box)
        return Or(x[0] < T_min_seg, x[0] > T_max_seg)
    if final:
        return False
    if key == "tidd":
        return False
    # any other key can be reduced to a one-sided unsmoothed model: breakpoints beyond the segment limits
    if key == "c_hdd_tidd_smooth":
        return Or(x[0] < T_min_seg, x[0] > T_max_seg)
    b2 = x[3] if key == "hdd_tidd_cdd_smooth" else x[2]
    return Or(x[0] < T_min_seg, x[0] > T_max_seg, b2 < T_min_seg, b2 > T_max_seg)


@harness("C12.curve_preserved", prop="C12", cases=CASES)
def curve_preserved(key, final, x0: Real, x1: Real, x2: Real, x3: Real, x4: Real, x5: Real, x6: Real,
                    T_min: Real, T_max: Real, T_min_seg: Real, T_max_seg: Real, smax: Real, T: Vec):
    """The coefficients kept describe the curve the optimiser scored: for every x in the box and every
    temperature inside the fitted range, model_fcn(x)(T) == OptimizedResult.eval(T) after refinement."""
    assume(And(T_min <= T_min_seg, T_min_seg <= T_max_seg, T_max_seg <= T_max, smax >= 0))
    x = raw_vector(key, x0, x1, x2, x3, x4, x5, x6)
    lo = T_min_seg if final else T_min
    hi = T_max_seg if final else T_max
    if final:
        assume(in_box(key, x, lo, hi, smax, T_min, T_max))
    else:
        assume(in_box(key, x, lo, hi, smax))
    assume(And(T_min <= at(T), at(T) <= T_max))   # the component's own baseline temperatures
    before = at(scored(key, x, T_min, T_max, T))
    res = refined(key, final, x, T_min, T_max, T_min_seg, T_max_seg)
    res.f_unc = 0
    after = at(res.eval(T)[0])
    known = Or(finding_H(key, x), finding_H2(key, x, T_min, T_max),
               finding_H3(key, final, x, T_min, T_max, T_min_seg, T_max_seg))
    check("C12.curve_preserved", before == after, finding="C12-H", unless=known)


# ----------------------------------------------------------------------------- uncertainty

OPAQUE = {
    # lag-1 autocorrelation of the residuals: numpy internals (np.correlate / np.var) are out of reach.
    # Assumed contract: for a non-constant residual vector the biased estimator lies strictly inside (-1, 1).
    "opendsm/eemeter/models/daily/optimize_results.py::acf": "acf_effect",
}


def acf_effect(x, lag_n=None, moving_mean_std=False):
    r1 = fresh_real("lag1")
    assume(And(0 - 1 < r1, r1 < 1))
    return [1, r1]


@harness("C12.unc", prop="C12")
def unc(N: Int, num_coeffs: Int, alpha: Real, resid: Vec):
    """f_unc is a non-negative finite number: the degrees of freedom handed to the t-quantile are >= 1."""
    assume(And(N >= 1, 1 <= num_coeffs, num_coeffs <= 7, 0 < alpha, alpha < 1))
    res = new_object(OR, N=N, num_coeffs=num_coeffs, resid=resid, settings=new_object(None, uncertainty_alpha=alpha))
    res._prediction_uncertainty()
    check("C12.unc.dof", res.DoF >= 1)
    check("C12.unc.nonneg", res.f_unc >= 0)


# ----------------------------------------------------------------------------- the constructor composes them

OPAQUE["opendsm/eemeter/models/daily/utilities/base_model.py::get_T_bnds"] = "get_T_bnds_effect"


def get_T_bnds_effect(T, settings):
    """Assumed contract of get_T_bnds (np.min / np.max / np.partition are out of reach): it returns the limits of
    the vector it is GIVEN.  The ghost fields on `settings` carry those limits and the vector they belong to."""
    check("C12.limits.of_fitted_days", is_same(T, settings.ghost_T))
    return [[settings.ghost_T_min, settings.ghost_T_max], [settings.ghost_T_min_seg, settings.ghost_T_max_seg]]


@harness("C12.init", prop="C12", cases=[{"key": k} for k in KEYS])
def init_composes(key, x0: Real, x1: Real, x2: Real, x3: Real, x4: Real, x5: Real, x6: Real,
                  T_min: Real, T_max: Real, T_min_seg: Real, T_max_seg: Real, alpha: Real,
                  T: Vec, model: Vec, weight: Vec, resid: Vec, mean_loss: Real, TSS: Real, time_elapsed: Real):
    """The real constructor of OptimizedResult (a) records the temperature limits of the days it is given and
    (b) leaves x / coef_id / model_key / named_coeffs exactly as `refined` (used by the other obligations)."""
    assume(And(T_min <= T_min_seg, T_min_seg <= T_max_seg, T_max_seg <= T_max, 0 < alpha, alpha < 1))
    x = raw_vector(key, x0, x1, x2, x3, x4, x5, x6)
    settings = new_object(None, uncertainty_alpha=alpha, ghost_T=T, ghost_T_min=T_min, ghost_T_max=T_max,
                          ghost_T_min_seg=T_min_seg, ghost_T_max_seg=T_max_seg)
    real = OR(np_array(x), None, list(COEF_IDS[key]), 2.0, 1.0, T, model, weight, resid, None, mean_loss, TSS,
              True, "ok", 10, time_elapsed, settings)
    ref = refined(key, True, x, T_min, T_max, T_min_seg, T_max_seg)
    check("C12.limits.recorded", And(real.T_min == T_min, real.T_max == T_max, real.T_min_seg == T_min_seg,
                                     real.T_max_seg == T_max_seg))
    check("C12.init.coef_id", real.coef_id == ref.coef_id)
    check("C12.init.model_key", real.model_key == ref.model_key)
    same_len = length(real.x) == length(ref.x)
    check("C12.init.x.len", same_len)
    if same_len:
        check("C12.init.x", And(*[real.x[i] == ref.x[i] for i in range(length(ref.x))]))
    check("C12.init.named.type", real.named_coeffs.model_type == ref.named_coeffs.model_type)
    check("C12.init.f_unc", real.f_unc >= 0)


# ----------------------------------------------------------------------------- the box handed to the optimiser

UPDATE_BNDS = repo("opendsm/eemeter/models/daily/base_models/hdd_tidd_cdd.py::_hdd_tidd_cdd_smooth_update_bnds")
OPAQUE["opendsm/eemeter/models/daily/utilities/base_model.py::fix_identical_bnds"] = "fix_identical_effect"


def fix_identical_effect(bnds):
    """assumed contract of fix_identical_bnds (numba; 10 ** order of magnitude): a row whose two bounds coincide is widened by the same positive
    amount on both sides, every other row is returned as it is"""
    out = []
    for row in bnds:
        if row[0] == row[1]:
            d = fresh_real("widen")
            assume(d > 0)
            out.append([row[0] - d, row[1] + d])
        else:
            out.append([row[0], row[1]])
    return out


BND_CASES = [{"smooth": s, "given": g} for s in [True, False] for g in [False, True]]


@harness("C12.box", prop="C12", cases=BND_CASES)
def box(smooth, given, a0: Real, a1: Real, a2: Real, a3: Real, a4: Real, a5: Real, a6: Real, a7: Real, a8: Real, a9: Real, a10: Real, a11: Real, a12: Real, a13: Real,
        T_lo: Real, T_hi: Real, smax: Real, i_lo: Real, i_hi: Real):
    """_hdd_tidd_cdd_smooth_update_bnds: whatever bounds a caller passes in (and whatever coincides), the box handed to the optimiser has ordered rows,
    NON-NEGATIVE lower bounds for every slope and smoothing parameter, and the breakpoint / intercept rows of the freshly computed bounds."""
    assume(And(T_lo <= T_hi, smax >= 0, i_lo <= i_hi))
    if smooth:
        fresh = [[T_lo, T_hi], [0, smax], [0, 1], [T_lo, T_hi], [0, smax], [0, 1], [i_lo, i_hi]]
        old = [[a0, a1], [a2, a3], [a4, a5], [a6, a7], [a8, a9], [a10, a11], [a12, a13]]
        slope_k = [1, 2, 4, 5]
        bp = [0, 3]
        ic = 6
    else:
        fresh = [[T_lo, T_hi], [0, smax], [T_lo, T_hi], [0, smax], [i_lo, i_hi]]
        old = [[a0, a1], [a2, a3], [a4, a5], [a6, a7], [a8, a9]]
        slope_k = [1, 3]
        bp = [0, 2]
        ic = 4
    # precondition on bounds handed in by a caller (the final fit re-uses the scaled bounds of the prior fit): a slope / smoothing row is not
    # entirely negative
    for i in slope_k:
        assume(Or(old[i][0] >= 0, old[i][1] >= 0))
    out = UPDATE_BNDS(old if given else None, fresh, smooth)
    check("C12.box.rows", length(out) == len(fresh))
    for i in range(len(fresh)):
        check("C12.box.ordered", out[i][0] <= out[i][1])
    for i in slope_k:
        check("C12.box.nonneg_lower", out[i][0] >= 0)
    for i in bp:
        check("C12.box.breakpoints", And(out[i][0] <= T_lo, out[i][1] >= T_hi, implies(T_lo < T_hi, And(out[i][0] == T_lo, out[i][1] == T_hi))))
    check("C12.box.intercept", implies(i_lo < i_hi, And(out[ic][0] == i_lo, out[ic][1] == i_hi)))


C_UPDATE_BNDS = repo("opendsm/eemeter/models/daily/base_models/c_hdd_tidd.py::_c_hdd_tidd_update_bnds")
C_BND_CASES = [{"smooth": s, "given": g} for s in [True, False] for g in [False, True]]


@harness("C12.box_one_sided", prop="C12", cases=C_BND_CASES)
def box_one_sided(smooth, given, a0: Real, a1: Real, a2: Real, a3: Real, a4: Real, a5: Real, a6: Real, a7: Real, T_lo: Real, T_hi: Real, smax: Real,
                  i_lo: Real, i_hi: Real):
    """_c_hdd_tidd_update_bnds: ordered rows, a non-negative lower bound for the smoothing parameter, fresh breakpoint / intercept rows"""
    assume(And(T_lo <= T_hi, smax >= 0, i_lo <= i_hi))
    if smooth:
        fresh = [[T_lo, T_hi], [0 - smax, smax], [0, 1000], [i_lo, i_hi]]
        old = [[a0, a1], [a2, a3], [a4, a5], [a6, a7]]
        ic = 3
        assume(Or(old[2][0] >= 0, old[2][1] >= 0))
    else:
        fresh = [[T_lo, T_hi], [0 - smax, smax], [i_lo, i_hi]]
        old = [[a0, a1], [a2, a3], [a4, a5]]
        ic = 2
    out = C_UPDATE_BNDS(old if given else None, fresh, smooth)
    check("C12.box_one_sided.rows", length(out) == len(fresh))
    for i in range(len(fresh)):
        check("C12.box_one_sided.ordered", out[i][0] <= out[i][1])
    if smooth:
        check("C12.box_one_sided.k_nonneg_lower", out[2][0] >= 0)
    check("C12.box_one_sided.breakpoint", implies(T_lo < T_hi, And(out[0][0] == T_lo, out[0][1] == T_hi)))
    check("C12.box_one_sided.intercept", implies(i_lo < i_hi, And(out[ic][0] == i_lo, out[ic][1] == i_hi)))
