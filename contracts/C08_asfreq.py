"""C08 / C09 (proof part) -- as_freq on the row-wise model: ONE ARBITRARY READING of an arbitrary series whose intervals are whole
minutes (the property's quantifier: readings aligned to the reading interval / local midnight, whole-hour DST).
  cumulative    : every atomic slot of the reading's interval carries reading * atomic / interval, and the interval has interval / atomic
                  slots, so the reading puts exactly its own value into the daily sums (constant rate over the interval, conservation);
                  the aggregate is a sum per bin, blanked where the bin starts with a missing slot; coverage = present slots / all slots;
  instantaneous : every slot carries the reading itself (no spreading) and the aggregate is a mean per bin;
  grid          : the atomic step divides every interval (obligation at the asfreq call; refuted e.g. for a 1-day step across a DST change).
pandas' asfreq / resample enter as assumed contracts; the end-to-end numbers are the bounded part."""
from pyvc.api import *  # noqa

AS_FREQ = repo("opendsm/eemeter/common/data_processor_utilities.py::as_freq")

NUM = 0
NAN = 1


@harness("C08.as_freq.cumulative", prop="C08", permissive=True, cases=[{"coverage": False}, {"coverage": True}])
def as_freq_cumulative(coverage):
    series = row_series("value", label="readings")
    df = series.to_frame()
    k0 = series_kind(series)
    v0 = series_val(series)
    delta = next_seconds(df)
    last = is_last_row(df)
    minutes = fresh_int("minutes")
    assume(And(minutes >= 1, delta == minutes * 60))          # intervals are whole minutes
    out = AS_FREQ(series, "D", include_coverage=coverage)
    if coverage:
        agg = out.cols[0]
    else:
        agg = out
    c = agg_contrib(agg)
    # what the reading puts into the daily sums: slot value * number of slots
    check("C08.as_freq.slots", implies(Not(last), And(c[3] == 60, c[2] * 60 == delta)))
    check("C08.as_freq.conserved", implies(And(Not(last), k0 == NUM), And(c[0] == NUM, c[1] * c[2] == v0)))
    check("C08.as_freq.missing_stays_missing", implies(k0 == NAN, c[0] == NAN))
    check("C08.as_freq.last_open_ended", implies(last, c[0] == NAN))
    # aggregator and bins are semantic; the exact spelling of the blanking of bins that start with a missing slot is only recognised
    check("C08.as_freq.daily_sum", And(agg_rule(agg) == "D", agg_func(agg).startswith("sum")))
    recognise(agg_func(agg) == "sum[where first.notnull()[value]].reindex(bins)", "sum per bin, blanked where the bin's first slot is missing")
    if coverage:
        # coverage = slots with a value / all atomic slots of the bin (the last bin is clamped to 1: its final slot is open-ended)
        ratio = "(count[value]Divsum[where first.notnull()[value]].reindex(bins).resample('1 Min').count().resample('D').count()[value])"
        f = agg_func(out.cols[1])
        check("C08.as_freq.coverage", And(out.columns == ["value", "coverage"], f.startswith("(count[value]Div")))
        recognise(f == ratio or f == ratio + ".with_last_bin(1)", "coverage = present slots / all atomic slots of the bin")


@harness("C09.as_freq.instantaneous", prop="C09", permissive=True)
def as_freq_instantaneous():
    series = row_series("value", label="readings")
    df = series.to_frame()
    k0 = series_kind(series)
    v0 = series_val(series)
    delta = next_seconds(df)
    last = is_last_row(df)
    minutes = fresh_int("minutes")
    assume(And(minutes >= 1, delta == minutes * 60))
    out = AS_FREQ(series, "D", series_type="instantaneous", include_coverage=True)
    agg = out.cols[0]
    c = agg_contrib(agg)
    check("C09.as_freq.slot_is_reading", And(c[0] == k0, implies(k0 == NUM, c[1] == v0)))
    check("C09.as_freq.slots", implies(Not(last), c[2] * 60 == delta))
    check("C09.as_freq.daily_mean", And(agg_rule(agg) == "D", agg_func(agg) == "mean"))
