"""Table / flow obligations of C10 extracted from the AST of /repo on every run:
  C10.callset.<class>.<baseline|reporting>: the checks invoked are exactly the published list;
  C10.writers: the disqualification list of a criteria object is written only by its _check_* methods, and the data classes
               hand their own disqualification list to nothing but the criteria (billing off-cycle routing = known finding)."""
import ast
import os
import time

REPO = os.environ.get("VERIF_REPO", "/repo")
SUFF = "opendsm/eemeter/common/sufficiency_criteria.py"

BASE = ["_check_no_data", "_check_negative_meter_values", "_check_baseline_length_daily_billing_model", "_check_valid_days_percentage",
        "_check_valid_meter_readings_percentage", "_check_valid_temperature_values_percentage", "_check_monthly_temperature_values_percentage",
        "_check_extreme_values"]
REP = ["_check_no_data", "_check_valid_days_percentage", "_check_valid_temperature_values_percentage",
       "_check_monthly_temperature_values_percentage"]
PUBLISHED = {
    ("DailySufficiencyCriteria", "check_sufficiency_baseline"): BASE,
    ("DailySufficiencyCriteria", "check_sufficiency_reporting"): REP,
    ("BillingSufficiencyCriteria", "check_sufficiency_baseline"): BASE + ["_check_estimated_meter_values"],
    ("BillingSufficiencyCriteria", "check_sufficiency_reporting"): REP,
    ("HourlySufficiencyCriteria", "check_sufficiency_baseline"): BASE[:7] + ["_check_monthly_meter_readings_percentage", "_check_extreme_values",
                                                                              "_check_monthly_ghi_percentage"],
    ("HourlySufficiencyCriteria", "check_sufficiency_reporting"): REP + ["_check_monthly_ghi_percentage"],
}
# which list each check may append to (published: extreme values / UTC index / off-cycle reads / unverifiable coverage are WARNINGS)
WRITES = {"_check_extreme_values": "warnings", "_check_high_frequency_temperature_values": "warnings", "_check_high_frequency_meter_values": "warnings",
          "_check_estimated_meter_values": "warnings"}


def _calls(fn):
    out = []
    for st in fn.body:
        if isinstance(st, ast.Expr) and isinstance(st.value, ast.Call) and isinstance(st.value.func, ast.Attribute) and \
                isinstance(st.value.func.value, ast.Name) and st.value.func.value.id == "self":
            out.append(st.value.func.attr)
        elif not (isinstance(st, ast.Expr) and isinstance(st.value, ast.Constant)):
            out.append(f"<{type(st).__name__}>")
    return out


def _appends(fn):
    """which self.<list> attributes the function appends to"""
    out = set()
    for n in ast.walk(fn):
        if isinstance(n, ast.Call) and isinstance(n.func, ast.Attribute) and n.func.attr in ("append", "extend", "insert") and \
                isinstance(n.func.value, ast.Attribute) and isinstance(n.func.value.value, ast.Name) and n.func.value.value.id == "self":
            out.add(n.func.value.attr)
        if isinstance(n, ast.AugAssign) and isinstance(n.target, ast.Attribute) and isinstance(n.target.value, ast.Name) and n.target.value.id == "self":
            out.add(n.target.attr)
    return out


def obligations():
    obs = []
    tree = ast.parse(open(os.path.join(REPO, SUFF)).read())
    classes = {c.name: c for c in tree.body if isinstance(c, ast.ClassDef)}
    for (cls, meth), want in PUBLISHED.items():
        fn = next((f for f in classes[cls].body if isinstance(f, ast.FunctionDef) and f.name == meth), None) if cls in classes else None
        got = _calls(fn) if fn else None
        obs.append({"name": f"C10.callset.{cls}.{meth.split('_')[-1]}", "ok": got == want, "detail": f"calls {got}; published {want}"})
    for cls in classes.values():
        for fn in cls.body:
            if not isinstance(fn, ast.FunctionDef):
                continue
            app = _appends(fn) & {"disqualification", "warnings"}
            if not app:
                continue
            if fn.name.startswith("_check_"):
                allowed = {WRITES.get(fn.name, "disqualification")}
                obs.append({"name": f"C10.writes.{cls.name}.{fn.name}", "ok": app <= allowed, "detail": f"appends to {sorted(app)}; published target {sorted(allowed)}"})
            else:
                obs.append({"name": f"C10.writers.{cls.name}.{fn.name}", "ok": False, "detail": f"non-check method appends to {sorted(app)}"})
    # data classes: self.disqualification handed to other functions (they would write verdicts that are not criteria)
    for rel in ("opendsm/eemeter/models/daily/data.py", "opendsm/eemeter/models/billing/data.py", "opendsm/eemeter/models/hourly/data.py"):
        t = ast.parse(open(os.path.join(REPO, rel)).read())
        leaks = []
        for n in ast.walk(t):
            if isinstance(n, ast.Call):
                for a in list(n.args) + [k.value for k in n.keywords]:
                    if isinstance(a, ast.Attribute) and a.attr == "disqualification" and isinstance(a.value, ast.Name) and a.value.id == "self":
                        callee = ast.unparse(n.func)
                        leaks.append(f"{callee}@{n.lineno}")
        obs.append({"name": f"C10.writers.{rel.split('/')[-2]}.data", "ok": not leaks, "detail": f"self.disqualification passed to {leaks}",
                    "known": "C10-offcycle-disqualifies" if leaks and all("clean_billing_daily_data" in x for x in leaks) else None})
    return obs


def run(tier="quick", seed=0):
    import json
    t0 = time.time()
    verif = os.path.dirname(os.path.dirname(os.path.abspath(__file__)))
    kf = {f["id"]: f for f in json.load(open(os.path.join(verif, "known_findings.json")))["findings"] if f["property"] == "C10"}
    obs = obligations()
    viol, known = [], []
    for o in obs:
        if o["ok"]:
            continue
        if o.get("known") and o["known"] in kf:
            known.append({"id": o["known"], "what": kf[o["known"]]["what"]})
            o["ok"] = True
            o["detail"] += " (known finding)"
            continue
        path = os.path.join(verif, "replay", f"C10-{o['name']}.py")
        os.makedirs(os.path.dirname(path), exist_ok=True)
        with open(path, "w") as f:
            f.write(f'#!/venv/bin/python\n"""Table/flow obligation {o["name"]} failed.\n{o["detail"]}\n"""\nprint({o["detail"]!r})\nimport sys; sys.exit(1)\n')
        viol.append({"obligation": o["name"], "replay": path, "reproduced": False, "detail": o["detail"]})
    return {"name": "C10.tables", "kind": "table", "n_obligations": len(obs), "n_discharged": sum(o["ok"] for o in obs),
            "obligations": {o["name"]: ("discharged" if o["ok"] else "failed") for o in obs}, "violations": viol, "known": known, "undecided": [],
            "details": {o["name"]: o["detail"] for o in obs}, "wall_s": round(time.time() - t0, 2)}
