"""Row-wise model of pandas DataFrames (DESIGN §3.3): element-wise / row-filter code is executed on ONE arbitrary
row r of the input universe; a postcondition about that row holds for every row of every frame.

A frame is (mult, cells): `mult` = how many times the arbitrary row occurs in the frame (0 = not a member;
>1 = duplicated), `cells[c]` = a tagged cell (kind in {NUM, NAN, PINF, NINF}, val).  All frames of one run are
derived from one universe whose index labels are unique (precondition established by the data classes).
Group-wise operations (resample) are abstract aggregates recorded structurally.
"""
from __future__ import annotations

import ast
from collections import OrderedDict

import z3

from . import libmodels
from .libmodels import assumed, use
from .values import SArr, SOpaque, SVec, SymRaise, Unsupported, is_num, is_z3, to_real, to_z3

assumed("pd.rowwise", "pandas element-wise and row-filter operations act row by row: df[mask] keeps exactly the rows where mask holds "
                      "(a NEW object), dropna() drops rows with a NaN/None cell (not +-inf), np.isfinite is true exactly for ordinary numbers, "
                      ".loc[mask, col] = v writes in place, index.isin(other.index) is membership for unique labels, join is a left join on "
                      "the index, concat(axis=0) stacks rows, sort_index reorders rows only, Series.map(dict) maps values (missing key -> NaN)")
assumed("pd.fill", "Series.interpolate / ffill / bfill change only missing cells; a forward fill and a backward fill applied one after the other leave no cell missing when the column has at least one present value")
assumed("pd.resample", "Series.resample(rule).agg() groups by calendar period of the series' own index (its timezone as is) and applies the "
                       "named aggregate to the series' values; recorded structurally as (aggregate, column, frame, rule), not computed")

NUM, NAN, PINF, NINF = 0, 1, 2, 3


class Cell:
    def __init__(self, kind, val=None):
        self.kind = kind
        self.val = val

    def is_num(self):
        return _eq(self.kind, NUM)

    def is_nan(self):
        return _eq(self.kind, NAN)


def _eq(a, b):
    if isinstance(a, int) and isinstance(b, int):
        return a == b
    return to_z3(a) == to_z3(b)


def _and(*xs):
    xs = [x for x in xs if x is not True]
    if any(x is False for x in xs):
        return False
    return z3.And(*[to_z3(x) for x in xs]) if xs else True


def _or(*xs):
    xs = [x for x in xs if x is not False]
    if any(x is True for x in xs):
        return True
    return z3.Or(*[to_z3(x) for x in xs]) if xs else False


def _not(x):
    return (not x) if isinstance(x, bool) else z3.Not(x)


def _ite(c, a, b):
    if isinstance(c, bool):
        return a if c else b
    if a is b:
        return a
    if a is None or b is None:
        if a is None and b is None:
            return None
        # a missing value on one side: keep the defined one (only used under a kind guard)
        return a if b is None else b
    if isinstance(a, str):
        a = z3.StringVal(a)
    if isinstance(b, str):
        b = z3.StringVal(b)
    za, zb = to_z3(a), to_z3(b)
    if za.sort() != zb.sort():
        if z3.is_int(za) and z3.is_real(zb):
            za = z3.ToReal(za)
        elif z3.is_real(za) and z3.is_int(zb):
            zb = z3.ToReal(zb)
        else:
            raise Unsupported("conditional between cells of different types")
    return z3.If(c, za, zb)


def cell_ite(c, a: Cell, b: Cell):
    return Cell(_ite(c, a.kind, b.kind), _ite(c, a.val, b.val))


NAN_CELL = Cell(NAN, None)
_counter = [0]


class _Callable:
    def __init__(self, f):
        self.f = f

    def sym_call(self, interp, args, kwargs, node, frame):
        return self.f(*args, **kwargs)


class RFrame:
    pandas_kind = "DataFrame"

    def __init__(self, mult, cells, universe, sorted_=False, index_tag="local", label="df"):
        self.mult = mult
        self.cells = OrderedDict(cells)
        self.universe = universe
        self.sorted = sorted_
        self.index_tag = index_tag
        self.label = label
        self.mutated = False
        self.colflags = {}  # column -> set of {"ffill", "bfill"}: fills applied since the column was last written otherwise
        self.filters = []  # textual record of row filters applied (for aggregate provenance)
        _counter[0] += 1
        self.uid = _counter[0]
        self.root = self.uid  # provenance: copies / column subsets / filters of a frame keep its root

    def derive(self, mult=None, cells=None, sorted_=None, note=None, index_tag=None):
        f = RFrame(self.mult if mult is None else mult, self.cells if cells is None else cells, self.universe,
                   self.sorted if sorted_ is None else sorted_, self.index_tag if index_tag is None else index_tag, self.label)
        f.filters = list(self.filters) + ([note] if note else [])
        f.root = self.root
        # a derivation that keeps every row (copy, column subset, rename, sort) keeps the NUMBER of rows: the length ghost is shared
        f.len_uid = getattr(self, "len_uid", None) or self.uid if mult is None else None
        return f

    def member(self):
        return to_z3(self.mult) > 0

    # ---- pandas surface
    def sym_getattr(self, interp, name, node):
        use(interp, "pd.rowwise")
        if name == "columns":
            return _Columns(self)
        if name == "index":
            return RIndex(self)
        if name == "copy":
            return _Callable(lambda *a, **k: self.derive())
        if name == "sort_index":
            return _Callable(lambda *a, **k: self.derive(sorted_=True))
        if name == "dropna":
            def dropna(*a, subset=None, how="any", **k):
                if a or any(v is not None and v is not False for kk, v in k.items() if kk not in ("axis", "inplace", "ignore_index")) \
                        or k.get("axis", 0) not in (0, "index") or k.get("inplace") or how not in ("any", "all"):
                    raise Unsupported("DataFrame.dropna with these arguments (row-wise model)", node)
                cols = list(subset) if subset is not None else list(self.cells)
                present = [_not(self.cells[c].is_nan()) for c in cols]
                ok = _and(*present) if how == "any" else _or(*present)
                return self.derive(mult=_ite(ok, self.mult, 0), note=f"dropna({subset}, how={how})")
            return _Callable(dropna)
        if name == "replace":
            def replace(to_replace=None, value=None, *a, **k):
                import math
                lst = list(to_replace) if isinstance(to_replace, (list, tuple)) else [to_replace]
                c = as_cell(interp, value, node)
                if a or k or not all(isinstance(x, float) and math.isinf(x) for x in lst):
                    raise Unsupported("DataFrame.replace other than of infinities (row-wise model)", node)
                kinds = [PINF if x > 0 else NINF for x in lst]
                cells = OrderedDict()
                for col, cell in self.cells.items():
                    hit = _or(*[_eq(cell.kind, kk) for kk in kinds])
                    cells[col] = cell_ite(hit, c, cell)
                return self.derive(cells=cells)
            return _Callable(replace)
        if name in ("first_valid_index", "last_valid_index"):
            def valid_index(*a, **k):
                # the first / last label whose row has at least one present cell
                some = _or(*[_not(c.is_nan()) for c in self.cells.values()]) if self.cells else False
                f = self.derive(mult=_ite(some, self.mult, 0), note="rows with a present cell")
                return index_extreme(interp, f, "min" if name.startswith("first") else "max")
            return _Callable(valid_index)
        if name == "rename":
            def rename(*a, columns=None, **k):
                cells = OrderedDict((columns.get(c, c), v) for c, v in self.cells.items())
                return self.derive(cells=cells)
            return _Callable(rename)
        if name == "drop":
            def drop(*a, columns=None, axis=0, inplace=False, **k):
                cols = columns if columns is not None else (a[0] if a else [])
                if columns is None and axis not in (1, "columns"):
                    raise Unsupported("DataFrame.drop of rows", node)
                cols = [cols] if isinstance(cols, str) else list(cols)
                for c in cols:
                    if c not in self.cells:
                        raise SymRaise("KeyError", c, node, ("KeyError", "LookupError", "Exception"))
                cells = OrderedDict((c, v) for c, v in self.cells.items() if c not in cols)
                if inplace:
                    self.cells = cells
                    self.mutated = True
                    return None
                return self.derive(cells=cells)
            return _Callable(drop)
        if name == "set_index":
            raise Unsupported("set_index (frames with a 'datetime' column are outside the modelled precondition)", node)
        if name == "empty":
            return self.empty(interp)
        if name == "loc":
            return _Loc(self)
        if name == "iloc":
            return _ILoc(self)
        if name == "join":
            def join(other, *a, **k):
                if not isinstance(other, RFrame):
                    raise Unsupported("join with a non-frame", node)
                cells = OrderedDict(self.cells)
                present = other.member()
                for c, v in other.cells.items():
                    if c in cells:
                        raise SymRaise("ValueError", "columns overlap", node, ("ValueError", "Exception"))
                    cells[c] = cell_ite(present, v, NAN_CELL)
                m = to_z3(self.mult) * z3.If(present, to_z3(other.mult), 1)
                return self.derive(mult=z3.simplify(m), cells=cells, sorted_=False)
            return _Callable(join)
        if name == "to_frame":
            return _Callable(lambda *a, **k: self)
        if name == "astype":
            return _Callable(lambda *a, **k: self)
        if name == "assign":
            def assign(**kw):
                cells = OrderedDict(self.cells)
                for k, v in kw.items():
                    cells[k] = as_cell(interp, v, node)
                return self.derive(cells=cells)
            return _Callable(assign)
        if name in ("mask", "where"):
            def maskwhere(cond, other=None, **k):
                if not isinstance(cond, RMask) or k.get("inplace"):
                    raise Unsupported(f"DataFrame.{name} with this condition", node)
                blank = cond.cond if name == "mask" else _not(cond.cond)
                repl = NAN_CELL if other is None else as_cell(interp, other, node)
                return self.derive(cells=OrderedDict((c, cell_ite(blank, repl, v)) for c, v in self.cells.items()))
            return _Callable(maskwhere)
        if name in ("notna", "notnull", "isna", "isnull"):
            def fm(*a, **k):
                neg = name in ("isna", "isnull")
                return _MaskFrame(self, OrderedDict((c, (v.is_nan() if neg else _not(v.is_nan()))) for c, v in self.cells.items()))
            return _Callable(fm)
        if name in ("tz_convert", "tz_localize"):
            def tz(arg=None, *a, **k):
                return self.derive(index_tag=f"{name}({arg!r}) of {self.index_tag}")
            return _Callable(tz)
        if name in ("mult", "sorted", "mutated", "index_tag", "uid", "root", "emptied"):  # ghost state for contracts
            return getattr(self, name, False)
        if name == "reindex":
            def reindex(index=None, *a, **k):
                if a or k or not isinstance(index, RIndex):
                    raise Unsupported("DataFrame.reindex other than by an index of the same universe", node)
                # assumed pandas contract (unique labels): the result has the labels of `index`; a label this frame lacks gets NaN cells
                tgt = index.frame
                # pandas raises "cannot reindex on an axis with duplicate labels": the source must have unique labels
                interp.run.check(f"safety.reindex_unique[{interp.where(None)}]", to_z3(self.mult) <= 1, kind="safety", loc=f"line {getattr(node, 'lineno', '?')}")
                here = self.member()
                cells = OrderedDict((c, cell_ite(here, v, NAN_CELL)) for c, v in self.cells.items())
                out = self.derive(mult=tgt.mult, cells=cells, note=f"reindex(frame#{tgt.uid})")
                out.len_uid = getattr(tgt, "len_uid", None) or tgt.uid        # one row per label of `index` (unique labels)
                return out
            return _Callable(reindex)
        if name in self.cells:
            return self.sym_getitem(interp, name, node)
        raise Unsupported(f"DataFrame.{name} (row-wise model)", node)

    def empty(self, interp):
        e = z3.Bool(f"empty!{self.uid}")
        interp.run._add(z3.Implies(self.member(), z3.Not(e)))
        return e

    def sym_getitem(self, interp, key, node):
        use(interp, "pd.rowwise")
        if isinstance(key, str):
            if key not in self.cells:
                raise SymRaise("KeyError", key, node, ("KeyError", "LookupError", "Exception"))
            out = RSeries(self, self.cells[key], key)
            out.fills = set(self.colflags.get(key, ()))
            return out
        if isinstance(key, list) and all(isinstance(k, str) for k in key):
            for k in key:
                if k not in self.cells:
                    raise SymRaise("KeyError", k, node, ("KeyError", "LookupError", "Exception"))
            return self.derive(cells=OrderedDict((k, self.cells[k]) for k in key))
        if isinstance(key, RMask):
            mult = _ite(key.cond, self.mult, 0)
            if getattr(key, "dedup", False):
                mult = z3.If(to_z3(mult) > 0, 1, 0)
            return self.derive(mult=mult, note=f"filter[{key.note}]")
        if isinstance(key, slice) and key.start is None and key.step is None and isinstance(key.stop, int) and key.stop == -1:
            u = next_label_universe(interp, self)
            return self.derive(mult=z3.If(u["is_last"], 0, to_z3(self.mult)), note="[:-1]")
        if isinstance(key, slice) and key.start is None and key.step is None and isinstance(key.stop, int) and key.stop == 0:
            out = self.derive(mult=z3.IntVal(0), note="[:0]")
            out.emptied = True
            return out
        raise Unsupported(f"frame subscript by {type(key).__name__}", node)

    def sym_setitem(self, interp, key, value, node):
        use(interp, "pd.rowwise")
        if isinstance(key, RMask):
            # df[mask] = scalar: every column of the masked rows
            cell = aligned_cell(interp, self, value, node)
            for col in list(self.cells):
                self.cells[col] = cell_ite(key.cond, cell, self.cells[col])
                self.colflags.pop(col, None)
            self.mutated = True
            return
        if not isinstance(key, str):
            raise Unsupported("frame store with a non-string key", node)
        self.cells[key] = aligned_cell(interp, self, value, node)
        self.colflags[key] = set(getattr(value, "fills", ())) if isinstance(value, RSeries) else set()
        self.mutated = True

    def sym_setattr(self, interp, name, value, node):
        if name == "index":
            if isinstance(value, RIndex):
                self.index_tag = value.frame.index_tag
                self.mutated = True
                return
            raise Unsupported("index assignment of a non-index", node)
        raise Unsupported(f"attribute store DataFrame.{name}", node)

    def sym_len(self, interp, node):
        # the number of rows is a global quantity: an unknown integer, at least 1 when the arbitrary row is a member
        n = z3.Int(f"len!{getattr(self, 'len_uid', None) or self.uid}")
        interp.run._add(z3.And(n >= 0, z3.Implies(self.member(), n >= 1)))
        return n


class _MaskFrame:
    """frame of booleans (df.notna())"""

    def __init__(self, frame, conds):
        self.frame = frame
        self.conds = conds

    def sym_getattr(self, interp, name, node):
        if name in ("all", "any"):
            def agg(*a, axis=0, **k):
                if axis not in (1, "columns"):
                    raise Unsupported("column-wise all()/any() of a boolean frame", node)
                c = _and(*self.conds.values()) if name == "all" else _or(*self.conds.values())
                return RMask(self.frame, c, f"{name}(axis=1)")
            return _Callable(agg)
        raise Unsupported(f"boolean DataFrame.{name}", node)

    def sym_getitem(self, interp, key, node):
        if isinstance(key, str):
            return RMask(self.frame, self.conds[key], key)
        if isinstance(key, list):
            return _MaskFrame(self.frame, OrderedDict((k, self.conds[k]) for k in key))
        raise Unsupported("boolean frame subscript", node)


class _Columns(list):
    def __init__(self, frame):
        super().__init__(frame.cells.keys())

    def tolist(self):
        return list(self)


libmodels.METHODS[("_Columns", "tolist")] = lambda interp, recv, args, kwargs, node, frame: list(recv)


def aligned_cell(interp, frame, value, node):
    """cell stored into `frame` from `value`: a Series is aligned on the index, so a label that the series' own frame does not
    contain (it was filtered out) receives NaN"""
    cell = as_cell(interp, value, node)
    if isinstance(value, RSeries) and value.frame is not frame:
        m = value.frame.member()
        if not (z3.is_true(z3.simplify(z3.Implies(frame.member(), m)))):
            return cell_ite(m, cell, NAN_CELL)
    return cell


def as_cell(interp, value, node):
    if isinstance(value, RSeries):
        return value.cell
    if isinstance(value, Cell):
        return value
    if isinstance(value, SVec):
        return Cell(NUM, value.elem)
    if isinstance(value, float) and value != value:
        return NAN_CELL
    if isinstance(value, float) and value in (float("inf"), float("-inf")):
        return Cell(PINF if value > 0 else NINF, None)
    if isinstance(value, libmodels.SLib) and value.dotted.endswith(".nan"):
        return NAN_CELL
    if isinstance(value, str):
        return Cell(NUM, z3.StringVal(value))
    if is_num(value) or is_z3(value) or isinstance(value, bool):
        return Cell(NUM, to_z3(value))
    if value is None:
        return NAN_CELL
    if isinstance(value, RMask):
        return Cell(NUM, to_z3(value.cond) if not isinstance(value.cond, bool) else z3.BoolVal(value.cond))
    raise Unsupported(f"cell value of type {type(value).__name__}", node)


class _Loc:
    def __init__(self, frame):
        self.frame = frame

    def sym_getitem(self, interp, key, node):
        if isinstance(key, RMask):
            return self.frame.sym_getitem(interp, key, node)
        if isinstance(key, tuple) and len(key) == 2 and isinstance(key[0], RMask) and isinstance(key[1], str):
            return self.frame.sym_getitem(interp, key[0], node).sym_getitem(interp, key[1], node)
        raise Unsupported(".loc[] read other than by mask", node)

    def sym_setitem(self, interp, key, value, node):
        if isinstance(key, tuple) and len(key) == 2 and isinstance(key[0], RMask) and isinstance(key[1], str):
            mask, col = key
            f = self.frame
            if col not in f.cells:
                f.cells[col] = NAN_CELL
            f.cells[col] = cell_ite(mask.cond, aligned_cell(interp, f, value, node), f.cells[col])
            f.colflags.pop(col, None)
            f.mutated = True
            return
        if isinstance(key, RMask):
            # .loc[mask] = scalar: EVERY column of the masked rows
            f = self.frame
            cell = aligned_cell(interp, f, value, node)
            for col in list(f.cells):
                f.cells[col] = cell_ite(key.cond, cell, f.cells[col])
                f.colflags.pop(col, None)
            f.mutated = True
            return
        raise Unsupported(".loc[] write other than [mask, column] or [mask]", node)


class _ILoc:
    """positional selection of rows: only the slices that plain subscripts also take ([:-1], [:0]) and boolean masks"""

    def __init__(self, frame):
        self.frame = frame

    def sym_getitem(self, interp, key, node):
        if isinstance(key, slice) or isinstance(key, RMask):
            return self.frame.sym_getitem(interp, key, node)
        raise Unsupported("DataFrame.iloc with this key (row-wise model)", node)


class RMask:
    """boolean series"""

    def __init__(self, frame, cond, note=""):
        self.frame = frame
        self.cond = cond
        self.note = note

    def sym_invert(self, interp, node):
        m = RMask(self.frame, _not(self.cond), f"~({self.note})")
        m.dedup = getattr(self, "dedup", False)
        return m

    def sym_binop(self, interp, op, l, r, node):
        if isinstance(l, RMask) and isinstance(r, RMask):
            if isinstance(op, ast.BitAnd):
                return RMask(self.frame, _and(l.cond, r.cond), f"({l.note})&({r.note})")
            if isinstance(op, ast.BitOr):
                return RMask(self.frame, _or(l.cond, r.cond), f"({l.note})|({r.note})")
        if isinstance(op, ast.Mult) and ((isinstance(l, RMask) and isinstance(r, RSeries)) or (isinstance(l, RSeries) and isinstance(r, RMask))):
            m, ser = (l, r) if isinstance(l, RMask) else (r, l)
            c = ser.cell
            # True * v = v, False * v = 0 (and anything * NaN = NaN)
            val = _ite(m.cond, c.val if c.val is not None else 0, 0)
            return RSeries(ser.frame, Cell(c.kind, val), f"({m.note})*{ser.name}")
        raise Unsupported("mask arithmetic", node)

    def sym_getattr(self, interp, name, node):
        if name in ("all", "any"):
            def agg(*a, **k):
                b = z3.Bool(f"{name}!{self.frame.uid}!{abs(hash(self.note)) % 100000}")
                c = to_z3(self.cond) if not isinstance(self.cond, bool) else z3.BoolVal(self.cond)
                # decided for EVERY row by the filter conditions alone (no row can satisfy / violate the mask): a definite answer
                if name == "any" and _valid(z3.Not(z3.And(self.frame.member(), c))):
                    return False
                if name == "all" and _valid(z3.Implies(self.frame.member(), c)):
                    return True
                if name == "all":
                    interp.run._add(z3.Implies(z3.And(b, self.frame.member()), c))
                else:
                    interp.run._add(z3.Implies(z3.And(self.frame.member(), c), b))
                return b
            return _Callable(agg)
        if name == "values":
            return self
        if name == "index":
            return RIndex(self.frame)
        if name == "astype":
            return _Callable(lambda *a, **k: RSeries(self.frame, Cell(NUM, z3.If(to_z3(self.cond), 1, 0)), "mask"))
        raise Unsupported(f"boolean Series.{name} (row-wise model)", node)


class _OpaqueStamp(SOpaque):
    """an unknown Timestamp: arithmetic with durations gives another unknown Timestamp"""

    def sym_binop(self, interp, op, l, r, node):
        return _OpaqueStamp("timestamp arithmetic")

    def sym_getattr(self, interp, name, node):
        if name in ("replace", "normalize", "tz_convert", "tz_localize", "floor", "ceil"):
            return _Callable(lambda *a, **k: _OpaqueStamp(f"{self.label}.{name}(...)"))
        if name == "hour":
            return interp.run.fresh_int("hour_of_stamp")
        raise Unsupported(f"Timestamp.{name} of an unknown timestamp", node)


class RStamp(_OpaqueStamp):
    """a Timestamp whose INSTANT is known symbolically (seconds since the epoch, absolute time; its wall-clock fields stay unknown):
    differences of two such stamps are durations with floor-valued .days, time-zone conversions keep the instant"""
    pandas_kind = "Timestamp"

    def __init__(self, t, nat=False, label="timestamp"):
        _OpaqueStamp.__init__(self, label)
        self.t = t
        self.nat = nat

    def sym_binop(self, interp, op, l, r, node):
        if isinstance(op, ast.Sub) and isinstance(l, RStamp) and isinstance(r, RStamp):
            return RDelta(l.t - r.t, _or(l.nat, r.nat))
        if isinstance(op, (ast.Add, ast.Sub)) and l is self and isinstance(r, RDelta):
            return RStamp(self.t + r.sec if isinstance(op, ast.Add) else self.t - r.sec, _or(self.nat, r.nat), "timestamp arithmetic")
        return _OpaqueStamp("timestamp arithmetic")

    def sym_compare(self, interp, op, l, r, node):
        if isinstance(l, RStamp) and isinstance(r, RStamp):
            a, b = l.t, r.t
            table = {ast.Lt: a < b, ast.LtE: a <= b, ast.Gt: a > b, ast.GtE: a >= b, ast.Eq: a == b, ast.NotEq: a != b}
            for k, v in table.items():
                if isinstance(op, k):
                    some_nat = _or(l.nat, r.nat)
                    # comparisons with NaT are false (!= is true)
                    return _or(some_nat, v) if isinstance(op, ast.NotEq) else _and(_not(some_nat), v)
        raise Unsupported("comparison of a symbolic timestamp with this value", node)

    def sym_getattr(self, interp, name, node):
        if name in ("astimezone", "tz_convert"):
            # the same instant on another clock
            return _Callable(lambda *a, **k: RStamp(self.t, self.nat, self.label))
        if name == "tz_localize":
            def tz_localize(tz=None, *a, **k):
                if tz is not None or a or k:
                    return _OpaqueStamp(f"{self.label}.tz_localize(...)")
                # the stamp's own WALL-CLOCK reading as a naive timestamp: the instant shifted by the zone's offset at that instant (an unknown of at
                # most 14 hours, the same for the same instant)
                use(interp, "pd.wall_clock")
                return RStamp(wall_seconds(interp, self.t), self.nat, f"{self.label}.tz_localize(None)")
            return _Callable(tz_localize)
        if name == "isoformat":
            return _Callable(lambda *a, **k: SOpaque(f"{self.label}.isoformat()"))
        if name == "replace":
            def replace(*a, **k):
                run = interp.run
                if not a and k.get("minute", 0) == 0 and k.get("second", 0) == 0 and k.get("microsecond", 0) == 0 and k.get("hour") in (0, 23) \
                        and set(k) <= {"hour", "minute", "second", "microsecond", "nanosecond"}:
                    use(interp, "pd.stamp_replace")
                    t2 = run.fresh_real("stamp_replaced")
                    if k["hour"] == 0:
                        # 00:00 of the stamp's own local day: not after the stamp, less than a (25-hour) day before it
                        run._add(z3.And(t2 <= self.t, self.t < t2 + 90000))
                    else:
                        # 23:00 of the stamp's own local day: less than a day after the stamp; not before it when the stamp is on the hour
                        run._add(z3.And(t2 > self.t - 3600, t2 < self.t + 90000, z3.Implies(on_the_hour(interp), t2 >= self.t)))
                    return RStamp(t2, self.nat, f"{self.label}.replace(hour={k['hour']})")
                return _OpaqueStamp(f"{self.label}.replace(...)")
            return _Callable(replace)
        return _OpaqueStamp.sym_getattr(self, interp, name, node)


class RDelta:
    """a duration in seconds (difference of two symbolic instants); .days is the FLOOR of seconds / 86400 (pandas / datetime normalise a
    negative duration to negative days plus a positive remainder)"""
    pandas_kind = "Timedelta"

    def __init__(self, sec, nat=False):
        self.sec = sec
        self.nat = nat

    def sym_getattr(self, interp, name, node):
        if name == "days":
            use(interp, "pd.timedelta_days")
            d = z3.ToInt(to_real(self.sec) / 86400)
            if self.nat is False:
                return d
            # NaT.days is NaN: an unknown number here (nothing may be concluded about it)
            return z3.If(to_z3(self.nat), interp.run.fresh_int("days_of_NaT"), d)
        if name == "total_seconds":
            return _Callable(lambda: self.sec)
        raise Unsupported(f"Timedelta.{name} of a symbolic duration", node)


assumed("pd.stamp_replace", "Timestamp.replace(hour=0 / 23, minute=0, second=0, microsecond=0) is 00:00 / 23:00 of the stamp's own local day (a local day has at most 25 hours)")


def wall_seconds(interp, t):
    """ghost: the wall-clock reading (seconds of the naive local timestamp) of the instant t in the data's own zone"""
    run = interp.run
    store = run.__dict__.setdefault("_wall_clock", {})
    key = z3.simplify(to_real(t)).sexpr() if is_z3(t) else str(t)
    if key not in store:
        w = run.input(f"wall_clock_seconds#{len(store)}", z3.RealSort())
        run._add(z3.And(w >= to_real(t) - 50400, w <= to_real(t) + 50400))
        store[key] = w
    return store[key]


assumed("pd.wall_clock", "Timestamp.tz_localize(None) of a timezone-aware stamp is its wall-clock reading: the instant shifted by the zone's UTC offset at that instant "
                         "(within +-14 h); differences of two such readings count calendar time on the local clock")


def on_the_hour(interp):
    """ghost: the precondition 'every label of the input is on the hour' (a global fact about the data, stated by the harness)"""
    return interp.run.input("labels.on_the_hour", z3.BoolSort())


assumed("pd.timedelta_days", "Timestamp - Timestamp of two timezone-aware stamps is the elapsed time between the two instants whatever their zones; "
                             "Timedelta.days is floor(seconds / 86400); astimezone / tz_convert keep the instant")
assumed("pd.tz_convert_clock", "tz_convert(None) / tz_convert('UTC') put the labels on the UTC wall clock: month / weekday / hour read from such an index are NOT the "
                                 "local ones (modelled as unrelated values); tz_localize(None) keeps the local wall clock")
assumed("pd.index_extremes", "index.min() / index.max() of a DatetimeIndex are labels of the index, not after / not before every label of it (NaT for "
                             "an empty index)")


def _zb(x):
    return z3.BoolVal(x) if isinstance(x, bool) else x


def row_instant(interp, frame):
    """ghost: the instant (epoch seconds) of the arbitrary row's label"""
    u = frame.universe
    if "t" not in u:
        u["t"] = interp.run.input("row.label.epoch_seconds", z3.RealSort())
    return u["t"]


def _valid(formula, ms=1500):
    sv = z3.Solver()
    sv.set("timeout", ms)
    sv.add(z3.Not(formula))
    return sv.check() == z3.unsat


def index_extreme(interp, frame, which):
    """index.min() / index.max() of a frame: a symbolic instant tied to the arbitrary row by member => min <= t(row) <= max.  Frames derived
    from the same root share the ghost when their row filters are equivalent FOR EVERY ROW (decided by the solver on the filter conditions alone,
    whatever their spelling), and the extremes of a frame whose filter implies another's lie inside the other's."""
    run = interp.run
    store = run.__dict__.setdefault("_index_extremes", {})
    mem = frame.member()
    skey = (frame.root, z3.simplify(mem).sexpr())
    if skey not in store:
        same = None
        narrower, wider = [], []
        for (root, _), ent in store.items():
            if root != frame.root:
                continue
            a_in_b = _valid(z3.Implies(mem, ent["mem"]))
            b_in_a = _valid(z3.Implies(ent["mem"], mem))
            if a_in_b and b_in_a:
                same = ent
                break
            if a_in_b:
                wider.append(ent)
            if b_in_a:
                narrower.append(ent)
        if same is not None:
            store[skey] = same
        else:
            n = len({id(e) for e in store.values()})
            lo = run.input(f"index.min.epoch_seconds#{n}", z3.RealSort())
            hi = run.input(f"index.max.epoch_seconds#{n}", z3.RealSort())
            nat = run.input(f"index.is_empty#{n}", z3.BoolSort())
            t = row_instant(interp, frame)
            run._add(z3.Implies(mem, z3.And(z3.Not(nat), lo <= t, t <= hi)))
            run._add(z3.Implies(z3.Not(nat), lo <= hi))
            for w in wider:        # this frame's rows are rows of w
                run._add(z3.Implies(z3.Not(nat), z3.And(z3.Not(w["nat"]), w["lo"] <= lo, hi <= w["hi"])))
            for w in narrower:     # w's rows are rows of this frame
                run._add(z3.Implies(z3.Not(w["nat"]), z3.And(z3.Not(nat), lo <= w["lo"], w["hi"] <= hi)))
            store[skey] = {"lo": lo, "hi": hi, "nat": nat, "mem": mem}
    ent = store[skey]
    use(interp, "pd.index_extremes")
    return RStamp(ent["lo"] if which == "min" else ent["hi"], ent["nat"], f"index.{which}()")


class _IndexDtype:
    unit = "ns"

    def sym_getattr(self, interp, name, node):
        if name == "unit":
            return "ns"        # assumed: nanosecond resolution (the conversion branch is a no-op on values)
        raise Unsupported(f"index dtype.{name}", node)


class Offset:
    """a pandas frequency (DateOffset) of a regular index: compares with its alias, has a length in nanoseconds"""
    pandas_kind = "Tick"
    ALIASES = {"h": 3600 * 10 ** 9, "D": 86400 * 10 ** 9, "30min": 1800 * 10 ** 9, "15min": 900 * 10 ** 9, "min": 60 * 10 ** 9}

    def __init__(self, alias):
        self.alias = alias

    def sym_compare(self, interp, op, l, r, node):
        other = r if l is self else l
        if isinstance(other, Offset):
            other = other.alias
        if isinstance(other, str) and isinstance(op, (ast.Eq, ast.NotEq)):
            same = other in (self.alias, self.alias.upper(), self.alias.lower(), "1" + self.alias)
            return same if isinstance(op, ast.Eq) else not same
        if other is None and isinstance(op, (ast.Eq, ast.NotEq)):
            return isinstance(op, ast.NotEq)
        raise Unsupported("comparison of a frequency with this value", node)

    def sym_getattr(self, interp, name, node):
        if name == "nanos":
            return self.ALIASES[self.alias]
        if name == "n":
            return 1
        raise Unsupported(f"DateOffset.{name}", node)


class RIndex:
    pandas_kind = "DatetimeIndex"
    opaque_iteration = True

    def sym_setattr(self, interp, name, value, node):
        if name == "freq":
            # pandas turns an alias into an offset object (and validates it against the index: assumed conforming)
            self.frame.index_freq = Offset(value) if isinstance(value, str) else value
            return
        raise Unsupported(f"attribute store Index.{name}", node)

    def __init__(self, frame):
        self.frame = frame

    def sym_len(self, interp, node):
        return self.frame.sym_len(interp, node)

    def sym_getitem(self, interp, key, node):
        if isinstance(key, RMask):
            return RIndex(self.frame.derive(mult=_ite(key.cond, self.frame.mult, 0), note=f"filter[{key.note}]"))
        if isinstance(key, int):
            return _OpaqueStamp(f"index[{key}]")
        if isinstance(key, slice) and key.step is None:
            if key.start == 1 and key.stop is None:
                return _RIndexPart(self.frame, "tail")      # index[1:]  -- every label but the first
            if key.start is None and key.stop == -1:
                return _RIndexPart(self.frame, "head")      # index[:-1] -- every label but the last
        raise Unsupported("index subscript other than a boolean mask, [1:] or [:-1]", node)

    def _clock_fields(self, interp):
        """calendar fields of the labels on the index's CURRENT clock: the row's own (local) ones, or -- after tz_convert(None) / tz_convert('UTC'),
        which move the labels onto the UTC wall clock -- other, unrelated values (a label's UTC month / weekday / hour need not be its local one)"""
        u = self.frame.universe
        tag = str(self.frame.index_tag)
        if tag.startswith("tz_convert(None)") or tag.startswith("tz_convert('UTC')") or tag.startswith("tz_convert('utc')"):
            if "month@utc" not in u:
                run = interp.run
                u["month@utc"] = run.input("row.month.utc_clock", z3.IntSort())
                u["dow@utc"] = run.input("row.dayofweek.utc_clock", z3.IntSort())
                u["hour@utc"] = run.input("row.hour.utc_clock", z3.IntSort())
                run._add(z3.And(u["month@utc"] >= 1, u["month@utc"] <= 12, u["dow@utc"] >= 0, u["dow@utc"] <= 6, u["hour@utc"] >= 0, u["hour@utc"] <= 23))
                use(interp, "pd.tz_convert_clock")
            return {"month": u["month@utc"], "dow": u["dow@utc"], "hour": u["hour@utc"]}
        return u

    def sym_getattr(self, interp, name, node):
        u = self.frame.universe
        if name in ("month", "dayofweek", "weekday", "hour"):
            cf = self._clock_fields(interp)
            if name == "month":
                return RSeries(self.frame, Cell(NUM, cf["month"]), "index.month")
            if name in ("dayofweek", "weekday"):
                return RSeries(self.frame, Cell(NUM, cf["dow"]), "index.dayofweek")
            if name == "hour" and "hour" in cf:
                return RSeries(self.frame, Cell(NUM, cf["hour"]), "index.hour")
        if name == "isin":
            def isin(other):
                if isinstance(other, RIndex):
                    return RMask(self.frame, other.frame.member(), f"index.isin(frame#{other.frame.uid})")
                raise Unsupported("index.isin of a non-index", node)
            return _Callable(isin)
        if name in ("difference", "intersection", "union"):
            def setop(other, *a, **k):
                if name == "union" and isinstance(other, list):
                    # labels added to the index (a buffer label after the last one): the arbitrary row's cells are unaffected
                    return RIndex(self.frame)
                if not isinstance(other, RIndex):
                    raise Unsupported(f"index.{name} of a non-index", node)
                m, o = self.frame.member(), other.frame.member()
                cond = {"difference": z3.And(m, z3.Not(o)), "intersection": z3.And(m, o), "union": z3.Or(m, o)}[name]
                return RIndex(self.frame.derive(mult=z3.If(cond, 1, 0), note=f"{name}(frame#{other.frame.uid})"))
            return _Callable(setop)
        if name == "empty":
            n = self.frame.sym_len(interp, node)
            return n == 0
        if name == "duplicated":
            def duplicated(keep="first", **k):
                if keep != "first":
                    raise Unsupported("index.duplicated(keep != 'first')", node)
                # the arbitrary row stands for the FIRST occurrence of its label: it is never flagged; ~duplicated keeps exactly one row per label
                m = RMask(self.frame, False, "index.duplicated(keep='first')")
                m.dedup = True
                return m
            return _Callable(duplicated)
        if name == "freq":
            return getattr(self.frame, "index_freq", None)
        if name == "inferred_freq":
            return getattr(self.frame, "inferred_freq", SOpaque("inferred_freq"))
        if name in ("max", "min"):
            return _Callable(lambda *a, **k: index_extreme(interp, self.frame, name))
        if name == "copy":
            return _Callable(lambda *a, **k: RIndex(self.frame))
        if name == "dtype":
            return _IndexDtype()
        if name == "date":
            # the calendar date of the label: an unknown (real-coded) quantity of the arbitrary row
            if "date" not in u:
                u["date"] = interp.run.input("row.date", z3.RealSort())
            return RSeries(self.frame, Cell(NUM, u["date"]), "index.date")
        if name == "union":
            # labels added to the index (a buffer label after the last one): the arbitrary row's cells are unaffected
            return _Callable(lambda other, *a, **k: RIndex(self.frame))
        if name == "to_list" or name == "tolist":
            return _Callable(lambda *a, **k: SOpaque("list of index labels"))
        if name in ("tz_convert", "tz_localize"):
            def tz(arg=None, *a, **k):
                return RIndex(self.frame.derive(index_tag=f"{name}({arg!r}) of {self.frame.index_tag}"))
            return _Callable(tz)
        if name == "unique":
            return _Callable(lambda *a, **k: SOpaque("index.unique()"))
        if name in ("tz", "tzinfo"):
            return SOpaque(f"index.tz of {self.frame.index_tag}")
        raise Unsupported(f"Index.{name} (row-wise model)", node)


def has_present(interp, frame, col):
    """ghost: 'the column has at least one present (non-missing) cell' -- a global fact, tied to the arbitrary row by
    member & present => has_present"""
    return z3.Bool(f"has_present!{frame.root}!{col}")


def fill_only_missing(interp, series, total=False):
    """a series equal to `series` on every non-missing cell; a missing cell becomes a number or stays missing (unknown),
    and becomes a number when `total` and the column has a present cell"""
    run = interp.run
    c = series.cell
    was_nan = c.is_nan()
    k2 = run.fresh_int("filled_kind")
    v2 = run.fresh_real("filled_val")
    run._add(z3.Or(k2 == NUM, k2 == NAN))
    h = has_present(interp, series.frame, series.name)
    present = _not(was_nan)
    run._add(z3.Implies(z3.And(series.frame.member(), to_z3(present) if not isinstance(present, bool) else z3.BoolVal(present)), h))
    # a fill cannot create a value out of nothing
    run._add(z3.Implies(z3.And(series.frame.member(), k2 == NUM), h))
    if total:
        run._add(z3.Implies(h, k2 == NUM))
    out = RSeries(series.frame, cell_ite(was_nan, Cell(k2, v2), c), series.name)
    out.fills = set()
    return out


def next_label_universe(interp, frame):
    """ghost quantities of the arbitrary row about the NEXT label of the (sorted, unique) index: whether the row is the last
    one, and the time to the next label in whole calendar days on the wall clock and as elapsed (absolute) days / seconds.
    A daylight-saving change inside the period makes the elapsed time an hour short or long, so elapsed.days is the
    wall-clock day count or one less."""
    u = frame.universe
    if "is_last" not in u:
        run = interp.run
        u["is_last"] = run.input("row.is_last", z3.BoolSort())
        u["next_days_wall"] = run.input("row.next_days.wall_clock", z3.IntSort())
        u["next_days_abs"] = run.input("row.next_days.elapsed", z3.IntSort())
        u["next_seconds"] = run.input("row.next_seconds.elapsed", z3.RealSort())
        run._add(z3.And(u["next_days_wall"] >= 0, u["next_seconds"] > 0,
                        z3.Or(u["next_days_abs"] == u["next_days_wall"], u["next_days_abs"] == u["next_days_wall"] - 1),
                        u["next_days_abs"] >= 0))
    return u


class _RIndexPart:
    """index[1:] or index[:-1] of a frame's index"""

    def __init__(self, frame, part):
        self.frame = frame
        self.part = part

    def sym_binop(self, interp, op, l, r, node):
        if isinstance(op, ast.Sub) and isinstance(l, _RIndexPart) and isinstance(r, _RIndexPart) and l.part == "tail" and r.part == "head" \
                and l.frame.root == r.frame.root and l.frame.index_tag == r.frame.index_tag:
            use(interp, "pd.index_diff")
            clock = "wall" if "tz_localize(None)" in l.frame.index_tag else "abs"
            return _RNextDelta(l.frame, clock)
        raise Unsupported("index arithmetic other than index[1:] - index[:-1] of one index", node)


class _RNextDelta:
    """index[1:] - index[:-1]: for every row but the last, the time to the next label"""

    def __init__(self, frame, clock, complete=False, unit=None):
        self.frame, self.clock, self.complete, self.unit = frame, clock, complete, unit

    def sym_getattr(self, interp, name, node):
        if name == "days" and self.unit is None:
            return _RNextDelta(self.frame, self.clock, self.complete, "days")
        if name == "total_seconds" and self.unit is None:
            return _Callable(lambda: _RNextDelta(self.frame, self.clock, self.complete, "seconds"))
        if name == "append" and self.unit is None and not self.complete:
            def append(other):
                # .append(pd.TimedeltaIndex([pd.NaT])): one trailing NaT
                return _RNextDelta(self.frame, self.clock, True, None)
            return _Callable(append)
        raise Unsupported(f"TimedeltaIndex.{name} (row-wise model)", node)

    def sym_list(self, interp, node):
        if self.unit is None:
            raise Unsupported("list of a TimedeltaIndex", node)
        return self

    def sym_binop(self, interp, op, l, r, node):
        # list(days) + [nan]: one trailing NaN aligns the values with the rows of the frame
        if isinstance(op, ast.Add) and l is self and isinstance(r, list) and len(r) == 1 and not self.complete and self.unit is not None:
            c = as_cell(interp, r[0], node)
            if c.kind == NAN:
                return _RNextDelta(self.frame, self.clock, True, self.unit)
        if isinstance(op, ast.Div) and l is self and self.unit == "seconds" and self.complete and is_num(r) and r > 0:
            u = next_label_universe(interp, self.frame)
            return RSeries(self.frame, Cell(z3.If(u["is_last"], NAN, NUM), u["next_seconds"] / r), f"seconds to next label / {r}")
        if isinstance(op, ast.Div) and isinstance(r, _RNextDelta) and r.unit == "seconds" and r.complete and (is_num(l) or is_z3(l)):
            u = next_label_universe(interp, r.frame)
            q = interp.run.fresh_real("quot")
            interp.run._add(q * u["next_seconds"] == to_real(l))
            return RSeries(r.frame, Cell(z3.If(u["is_last"], NAN, NUM), q), "number / seconds to next label")
        raise Unsupported("arithmetic on index differences (row-wise model)", node)

    def cell(self, interp, node):
        if not self.complete or self.unit is None:
            raise Unsupported("index differences not aligned with the frame's rows (missing trailing NaN / unit)", node)
        u = next_label_universe(interp, self.frame)
        if self.unit == "days":
            val = u["next_days_wall"] if self.clock == "wall" else u["next_days_abs"]
        else:
            if self.clock != "abs":
                raise Unsupported("wall-clock seconds to the next label", node)
            val = u["next_seconds"]
        return Cell(z3.If(u["is_last"], NAN, NUM), val)


assumed("pd.asfreq", "Series.asfreq(step, method='ffill') puts the value at each label on every grid point up to the next label (NaN included); the grid "
                     "starts at the first label")
assumed("pd.index_diff", "index[1:] - index[:-1] of a sorted unique DatetimeIndex is, row by row, the time to the next label (elapsed time for a "
                         "timezone-aware index, wall-clock time after tz_localize(None)); .days truncates to whole days")


class RSeries:
    pandas_kind = "Series"

    def sym_setattr(self, interp, name, value, node):
        if name == "index" and isinstance(value, RIndex) and value.frame.root == self.frame.root and \
                _valid(to_z3(value.frame.member()) == to_z3(self.frame.member())):
            # series.index = <a copy of its own index>: the same labels, row by row
            return
        raise Unsupported(f"attribute store Series.{name} (row-wise model)", node)

    def __init__(self, frame, cell, name=None):
        self.frame = frame
        self.cell = cell
        self.name = name

    def sym_getattr(self, interp, name, node):
        use(interp, "pd.rowwise")
        c = self.cell
        if name in ("isna", "isnull"):
            return _Callable(lambda *a, **k: RMask(self.frame, c.is_nan(), f"{self.name}.isna()"))
        if name in ("notna", "notnull"):
            return _Callable(lambda *a, **k: RMask(self.frame, _not(c.is_nan()), f"{self.name}.notna()"))
        if name == "astype":
            def astype(*a, **k):
                if is_z3(c.val) and z3.is_bool(c.val):
                    return RSeries(self.frame, Cell(c.kind, z3.If(c.val, 1, 0)), self.name)
                return self
            return _Callable(astype)
        if name in ("interpolate", "ffill", "bfill"):
            def fill(*a, **k):
                # assumed pandas contract: the filling methods change ONLY missing cells; what a missing cell becomes is unknown
                # (a number or still missing), except that a forward fill and a backward fill applied one after the other (in
                # either order) leave nothing missing when the column has any present value
                if k.get("inplace"):
                    raise Unsupported("in-place fill", node)
                use(interp, "pd.fill")
                fills = set(getattr(self, "fills", ()))
                kind = {"ffill": "ffill", "bfill": "bfill"}.get(name)
                total = kind is not None and ({"ffill", "bfill"} - {kind}) <= fills
                out = fill_only_missing(interp, self, total)
                out.fills = fills | ({kind} if kind else set())
                return out
            return _Callable(fill)
        if name == "copy":
            return _Callable(lambda *a, **k: RSeries(self.frame, Cell(c.kind, c.val), self.name))
        if name in ("min", "max"):
            return _Callable(lambda *a, **k: z3.Real(f"{name}!{self.frame.label}!{self.name}"))
        if name == "sum":
            def total(*a, **k):
                # a global quantity: an unknown real; what the ARBITRARY ROW puts into it (NaN cells are skipped) is kept as ghost state
                log = interp.run.__dict__.setdefault("sum_log", [])
                S = z3.Real(f"sum!{len(log)}!{self.frame.label}")
                log.append({"sum": S, "kind": c.kind, "val": c.val, "mult": self.frame.mult, "name": self.name})
                return S
            return _Callable(total)
        if name == "shape":
            return (self.frame.sym_len(interp, node),)
        if name == "groupby":
            def groupby(key=None, *a, **k):
                if not isinstance(key, RSeries):
                    raise Unsupported("Series.groupby by something other than a series of the same rows", node)
                return _RGroupBy(self, key)
            return _Callable(groupby)
        if name == "median":
            # a global quantity of the column: an unknown real (named after the frame and column so that contracts can refer to it)
            return _Callable(lambda *a, **k: z3.Real(f"median!{self.frame.label}!{self.name}"))
        if name == "dropna":
            def dropna(*a, **k):
                f = self.frame.derive(mult=_ite(c.is_nan(), 0, self.frame.mult), note=f"dropna({self.name})")
                return RSeries(f, c, self.name)
            return _Callable(dropna)
        if name == "empty":
            return self.frame.empty(interp)
        if name == "clip":
            def clip(lower=None, upper=None, **k):
                v = c.val
                if lower is not None:
                    v = z3.If(to_real(v) < to_real(lower), to_real(lower), to_real(v))
                if upper is not None:
                    v = z3.If(to_real(v) > to_real(upper), to_real(upper), to_real(v))
                return RSeries(self.frame, Cell(c.kind, v), self.name)
            return _Callable(clip)
        if name == "reindex":
            def reindex(idx, *a, fill_value=None, **k):
                if not isinstance(idx, RIndex):
                    raise Unsupported("reindex to a non-index", node)
                fill = as_cell(interp, fill_value, node) if fill_value is not None else NAN_CELL
                return RSeries(idx.frame, cell_ite(self.frame.member(), c, fill), self.name)
            return _Callable(reindex)
        if name == "values":
            return SVec(c.val, label=self.name)
        if name == "isin":
            def isin(vals):
                conds = []
                for v in vals:
                    vv = z3.StringVal(v) if isinstance(v, str) else to_z3(v)
                    if c.val is None:
                        continue
                    cv = to_z3(c.val)
                    if cv.sort() != vv.sort():
                        if z3.is_int(cv) and z3.is_real(vv):
                            cv = z3.ToReal(cv)
                        elif z3.is_real(cv) and z3.is_int(vv):
                            vv = z3.ToReal(vv)
                        else:
                            continue
                    conds.append(cv == vv)
                return RMask(self.frame, _and(c.is_num(), _or(*conds)), f"{self.name}.isin({list(vals)})")
            return _Callable(isin)
        if name == "map":
            def map_(d):
                from .values import SFunc
                if isinstance(d, SFunc):
                    v = interp.call_function(d, [c.val], {}, node)
                    if isinstance(v, bool):
                        v = z3.BoolVal(v)
                    return RSeries(self.frame, Cell(c.kind, to_z3(v) if (is_num(v) or is_z3(v)) else v), f"{self.name}.map")
                if not isinstance(d, dict):
                    raise Unsupported("Series.map of a non-dict", node)
                kind, val = NAN, None
                for k, v in reversed(list(d.items())):
                    hit = _and(c.is_num(), to_z3(c.val) == to_z3(k))
                    vv = z3.StringVal(v) if isinstance(v, str) else to_z3(v)
                    kind = _ite(hit, NUM, kind)
                    val = vv if val is None else _ite(hit, vv, val)
                return RSeries(self.frame, Cell(kind, val), f"{self.name}.map")
            return _Callable(map_)
        if name == "resample":
            return _Callable(lambda rule, *a, **k: RResampler(self, rule))
        if name == "asfreq":
            def asfreq(freq, method=None, **k):
                # assumed pandas contract: a regular grid of step `freq` starting at the first label; with method="ffill" every grid point in
                # [label, next label) carries the VALUE AT `label` (NaN included).  The reading therefore occupies seconds_to_next / step grid
                # points, provided the step divides every interval (obligation below); the last reading occupies one.
                from .sortedindex import parse_timedelta
                if method != "ffill" or k:
                    raise Unsupported("asfreq other than method='ffill'", node)
                ns = parse_timedelta(freq) if isinstance(freq, str) else None
                if ns is None:
                    raise Unsupported(f"asfreq({freq!r})", node)
                use(interp, "pd.asfreq")
                step = ns / 1e9
                u = next_label_universe(interp, self.frame)
                q = u["next_seconds"] / step
                interp.run.check(f"safety.asfreq_grid[{interp.where(None)}]", z3.Implies(z3.And(self.frame.member(), z3.Not(u["is_last"])), z3.And(z3.IsInt(q), q >= 1)),
                                 kind="safety", loc=f"line {getattr(node, 'lineno', '?')}")
                n = z3.If(u["is_last"], z3.RealVal(1), q)
                f = self.frame.derive(mult=z3.If(self.frame.member(), z3.ToInt(n), 0), note=f"asfreq({freq!r}, ffill)")
                f.slot_seconds = step
                return RSeries(f, c, self.name)
            return _Callable(asfreq)
        if name == "rename":
            return _Callable(lambda nm=None, *a, **k: RSeries(self.frame, c, nm if isinstance(nm, str) else self.name))
        if name == "to_frame":
            return _Callable(lambda nm=None, *a, **k: RFrame(self.frame.mult, {nm or self.name: c}, self.frame.universe,
                                                             self.frame.sorted, self.frame.index_tag))
        if name == "index":
            return RIndex(self.frame)
        if name == "name":
            return self.name
        raise Unsupported(f"Series.{name} (row-wise model)", node)

    def sym_compare(self, interp, op, l, r, node):
        ser, other, flip = (l, r, False) if isinstance(l, RSeries) else (r, l, True)
        c = ser.cell
        ops = {ast.Lt: ast.Gt, ast.Gt: ast.Lt, ast.LtE: ast.GtE, ast.GtE: ast.LtE}
        if flip and type(op) in ops:
            op = ops[type(op)]()
        if isinstance(other, float) and other in (float("inf"), float("-inf")):
            pos = other > 0
            if isinstance(op, (ast.Gt, ast.GtE)):
                res = False if pos else c.is_num()
            elif isinstance(op, (ast.Lt, ast.LtE)):
                res = c.is_num() if pos else False
            else:
                res = isinstance(op, ast.NotEq)
            return RMask(ser.frame, res, f"{ser.name} cmp {other}")
        if isinstance(other, RSeries):
            raise Unsupported("comparison of two series (row-wise model)", node)
        # IEEE comparisons against an ordinary number: NaN compares False (True for !=), +inf is greater and -inf smaller than it
        v = interp.compare(op, c.val if c.val is not None else 0, other, node)
        res = _and(c.is_num(), v)
        if isinstance(op, (ast.Gt, ast.GtE)):
            res = _or(res, _eq(c.kind, PINF))
        elif isinstance(op, (ast.Lt, ast.LtE)):
            res = _or(res, _eq(c.kind, NINF))
        elif isinstance(op, ast.NotEq):
            res = _or(_not(c.is_num()), v)
        return RMask(ser.frame, res, f"{ser.name} cmp")

    def sym_getitem(self, interp, key, node):
        if isinstance(key, RMask):
            mult = _ite(key.cond, self.frame.mult, 0)
            if getattr(key, "dedup", False):
                mult = z3.If(to_z3(mult) > 0, 1, 0)
            f = self.frame.derive(mult=mult, note=f"filter[{key.note}]")
            return RSeries(f, self.cell, self.name)
        raise Unsupported("series subscript other than a boolean mask", node)

    def sym_binop(self, interp, op, l, r, node):
        if isinstance(l, RSeries) and isinstance(r, RSeries):
            both = _and(l.cell.is_num(), r.cell.is_num())
            if l.frame is not r.frame:  # index alignment: the label must be present on both sides
                both = _and(both, l.frame.member(), r.frame.member())
            if isinstance(op, ast.Div):
                # float division of two columns never raises: x/0 is +-inf, 0/0 is NaN
                lv = to_real(l.cell.val if l.cell.val is not None else 0)
                rv = to_real(r.cell.val if r.cell.val is not None else 0)
                nz = rv != 0
                kind = z3.If(to_z3(both) if not isinstance(both, bool) else z3.BoolVal(both),
                             z3.If(nz, NUM, z3.If(lv == 0, NAN, z3.If(lv > 0, PINF, NINF))), NAN)
                q = interp.run.fresh_real("quot")
                interp.run._add(z3.Implies(nz, q * rv == lv))
                return RSeries(l.frame, Cell(kind, q), l.name)
            val = interp.binop(op, l.cell.val if l.cell.val is not None else 0, r.cell.val if r.cell.val is not None else 0, node)
            return RSeries(l.frame, Cell(_ite(both, NUM, NAN), val), l.name)
        if isinstance(l, RSeries) and (is_num(r) or is_z3(r)):
            return RSeries(self.frame, Cell(l.cell.kind, interp.binop(op, l.cell.val, r, node)), self.name)
        if isinstance(r, RSeries) and (is_num(l) or is_z3(l)):
            return RSeries(self.frame, Cell(r.cell.kind, interp.binop(op, l, r.cell.val, node)), self.name)
        raise Unsupported("Series arithmetic between two series (row-wise model)", node)

    def sym_isfinite(self, interp, node):
        return RMask(self.frame, self.cell.is_num(), f"isfinite({self.name})")

    def sym_isnan(self, interp, node):
        return RMask(self.frame, self.cell.is_nan(), f"isnan({self.name})")


class _RGroupBy:
    def __init__(self, series, key):
        self.series, self.key = series, key

    def sym_getattr(self, interp, name, node):
        use(interp, "pd.resample")
        s = self.series

        def mk(func):
            return RAgg(func, s.name, s.frame.root, tuple(s.frame.filters), f"groupby({self.key.name})", s.frame.index_tag,
                        contrib={"kind": s.cell.kind, "val": s.cell.val, "mult": s.frame.mult, "slot_seconds": None})
        if name in ("sum", "mean", "first", "last", "count", "min", "max", "median"):
            return _Callable(lambda *a, **k: mk(name))
        if name in ("apply", "agg", "aggregate"):
            return _Callable(lambda f, *a, **k: mk("apply:" + describe_callable(interp, f)))
        raise Unsupported(f"GroupBy.{name}", node)


class RResampler:
    def __init__(self, series, rule):
        self.series = series
        self.rule = rule

    def sym_getattr(self, interp, name, node):
        use(interp, "pd.resample")
        s = self.series

        def mk(func):
            return RAgg(func, s.name, s.frame.root, tuple(s.frame.filters), self.rule, s.frame.index_tag,
                        contrib={"kind": s.cell.kind, "val": s.cell.val, "mult": s.frame.mult, "slot_seconds": getattr(s.frame, "slot_seconds", None)})
        if name in ("sum", "mean", "first", "last", "count", "min", "max", "median", "std"):
            return _Callable(lambda *a, **k: mk(name if not k else f"{name}({sorted(k.items())})"))
        if name in ("apply", "agg", "aggregate"):
            def apply(f, *a, **k):
                return mk("apply:" + describe_callable(interp, f))
            return _Callable(apply)
        raise Unsupported(f"Resampler.{name}", node)


def describe_callable(interp, f):
    """what a small aggregation callable computes, decided SEMANTICALLY where possible: the callable is executed on a vector of three symbolic
    numbers and its result compared (by the solver) with the sum, the mean and the root-sum-square of that vector -- whatever its spelling (lambda,
    nested def, named temporaries).  Anything else is described by its text ('text:...'), which a contract can only `recognise`, not `check`."""
    from .values import SFunc, SArr
    if isinstance(f, str):
        return f
    if not isinstance(f, SFunc):
        return "text:" + repr(f)
    run = interp.run
    xs = [run.fresh_real("agg_probe") for _ in range(3)]
    try:
        r = interp.call(f, [SArr(xs)], {}, None, None)
        r = to_real(r)
    except Exception as e:  # noqa  (unsupported construct, symbolic raise ...: fall back to the text)
        import os
        if os.environ.get("VERIF_DEBUG"):
            import traceback
            traceback.print_exc()
        r = None
    if r is not None and is_z3(r):
        tot = xs[0] + xs[1] + xs[2]
        sq = xs[0] * xs[0] + xs[1] * xs[1] + xs[2] * xs[2]
        for label, goal in (("sum", r == tot), ("mean", r * 3 == tot), ("root_sum_square", z3.And(r >= 0, r * r == sq))):
            try:
                st, _, _ = run._prove(goal)
            except Exception:  # noqa
                st = "unknown"
            if st == "discharged":
                return label
    # canonical text: the (single) parameter is called x, notnull / isnull are spelt notna / isna
    import copy
    node = copy.deepcopy(f.node)
    params = [a.arg for a in node.args.args] if hasattr(node, "args") else []
    if len(params) == 1:
        for n in ast.walk(node):
            if isinstance(n, ast.Name) and n.id == params[0]:
                n.id = "x"
    body = node.body if isinstance(node, ast.Lambda) else node
    if isinstance(body, list):
        body = body[-1].value if len(body) == 1 and isinstance(body[0], ast.Return) else node
    return "text:" + ast.unparse(body).replace(" ", "").replace("notnull()", "notna()").replace("isnull()", "isna()")


class RAgg:
    """one aggregated column: structural record"""
    pandas_kind = "Series"

    def __init__(self, func, column, frame_uid, filters, rule, index_tag, contrib=None):
        self.func = func
        self.column = column
        self.frame_uid = frame_uid
        self.filters = filters
        self.rule = rule
        self.index_tag = index_tag
        # ghost: (cell, multiplicity, slot seconds) of the ARBITRARY SOURCE ROW at the time of aggregation -- what that row puts into its bin(s)
        self.contrib = contrib

    def _like(self, func, **kw):
        return RAgg(func, kw.get("column", self.column), self.frame_uid, kw.get("filters", self.filters), self.rule, self.index_tag, self.contrib)

    def sym_getitem(self, interp, key, node):
        if isinstance(key, RAgg):          # boolean selection by another aggregate of the same bins
            return self._like(f"{self.func}[where {key.func}[{key.column}]]")
        raise Unsupported("subscript of an aggregated Series", node)

    def sym_getattr(self, interp, name, node):
        if name in ("func", "column", "frame_uid", "rule", "index_tag"):
            return getattr(self, name)
        if name == "filters":
            return list(self.filters)
        if name == "name":
            return self.column
        if name in ("fillna", "astype", "round", "clip", "abs", "rename", "pow", "mul", "div"):
            def post(*a, **k):
                return RAgg(f"{self.func}.{name}({', '.join(map(repr, a))})", self.column, self.frame_uid, self.filters, self.rule,
                            self.index_tag, self.contrib)
            return _Callable(post)
        if name in ("notnull", "notna", "isnull", "isna"):
            return _Callable(lambda *a, **k: self._like(f"{self.func}.{'notnull' if name in ('notnull', 'notna') else 'isnull'}()"))
        if name == "reindex":
            # onto the index of an aggregate of the same bins: bins dropped by a selection come back as NaN
            return _Callable(lambda index=None, *a, **k: self._like(f"{self.func}.reindex(bins)"))
        if name == "index":
            return _AggBins(self)
        if name == "resample":
            return _Callable(lambda rule, *a, **k: _AggResampler(self, rule))
        if name == "to_frame":
            return _Callable(lambda nm=None, *a, **k: RAggFrame([self._like(self.func, column=nm or self.column)]))
        if name == "contrib":
            return self.contrib
        if name == "iloc":
            return _AggILoc(self)
        if name in ("min", "max", "mean", "sum") and not getattr(self, "is_bool", False):
            return _Callable(lambda *a, **k: interp.run.fresh_real(f"{name}_of_aggregate"))
        if name in ("any", "all") and getattr(self, "is_bool", False):
            def anyall(*a, **k):
                log = interp.run.__dict__.setdefault("agg_bool_log", [])
                b = z3.Bool(f"{name}!agg!{len(log)}")
                base, opn, thr = getattr(self, "cmp", (self.func, None, None))
                log.append({"bool": b, "what": f"{name}: {self.func} [{self.column}] {self.rule}", "how": name, "func": base, "op": opn, "threshold": thr,
                            "column": self.column, "rule": self.rule})
                return b
            return _Callable(anyall)
        raise Unsupported(f"aggregated Series.{name}", node)

    def sym_compare(self, interp, op, l, r, node):
        other = r if l is self else l
        if not (is_num(other) or is_z3(other)):
            raise Unsupported("comparison of an aggregate with a non-number", node)
        if l is not self:
            raise Unsupported("number <op> aggregate", node)
        out = self._like(f"({self.func} {type(op).__name__} {other})")
        out.is_bool = True
        out.cmp = (self.func, type(op).__name__, other)
        return out

    def sym_binop(self, interp, op, l, r, node):
        def d(x):
            return x.func + "[" + str(x.column) + "]" if isinstance(x, RAgg) else repr(x)
        base = l if isinstance(l, RAgg) else r
        return RAgg(f"({d(l)}{type(op).__name__}{d(r)})", base.column, base.frame_uid, base.filters, base.rule, base.index_tag, base.contrib)


class _AggBins:
    """the bin labels of an aggregated series"""

    def __init__(self, agg):
        self.agg = agg

    def sym_getitem(self, interp, key, node):
        if isinstance(key, int):
            return _OpaqueStamp(f"bin label [{key}]")
        raise Unsupported("subscript of bin labels", node)


class _AggResampler:
    """resample of an already aggregated series (used to count atomic slots per bin)"""

    def __init__(self, agg, rule):
        self.agg, self.rule = agg, rule

    def sym_getattr(self, interp, name, node):
        if name in ("count", "sum", "mean", "first"):
            return _Callable(lambda *a, **k: RAgg(f"{self.agg.func}.resample({self.rule!r}).{name}()", self.agg.column, self.agg.frame_uid, self.agg.filters,
                                                  self.agg.rule, self.agg.index_tag, self.agg.contrib))
        raise Unsupported(f"Resampler.{name} of an aggregate", node)


class RAggFrame:
    pandas_kind = "DataFrame"

    def __init__(self, cols):
        self.cols = cols
        self.index_ops = []

    def sym_getattr(self, interp, name, node):
        if name == "cols":
            return list(self.cols)
        if name == "columns":
            return _AggColumns(c.column for c in self.cols)
        if name == "index":
            return _AggIndex(self)
        if name == "index_ops":
            return list(self.index_ops)
        if name == "iloc":
            return _AggILoc(self)
        for c in self.cols:
            if c.column == name:
                return c
        raise Unsupported(f"aggregated DataFrame.{name}", node)

    def sym_getitem(self, interp, key, node):
        for c in self.cols:
            if c.column == key:
                return c
        raise Unsupported("subscript of an aggregated DataFrame", node)

    def sym_setitem(self, interp, key, value, node):
        if isinstance(key, str) and isinstance(value, RAgg):
            col = value._like(value.func, column=key)
            self.cols = [c for c in self.cols if c.column != key] + [col]
            return
        raise Unsupported("store into an aggregated DataFrame", node)

    def sym_setattr(self, interp, name, value, node):
        if name == "index" and isinstance(value, _AggIndex):
            self.index_ops = list(value.ops)
            return
        raise Unsupported(f"attribute store on an aggregated DataFrame.{name}", node)


class _AggColumns(list):
    pass


libmodels.METHODS[("_AggColumns", "get_loc")] = lambda interp, recv, args, kwargs, node, frame: list(recv).index(args[0])


class _AggILoc:
    """positional access to an aggregated frame / column: only the LAST bin is modelled (an unknown value; a store is recorded)"""

    def __init__(self, owner):
        self.owner = owner

    def sym_getitem(self, interp, key, node):
        if key == -1 and isinstance(self.owner, RAgg):
            return interp.run.fresh_real("last_bin_value")
        raise Unsupported("positional read of an aggregate other than the last bin of a column", node)

    def sym_setitem(self, interp, key, value, node):
        if isinstance(self.owner, RAggFrame) and isinstance(key, tuple) and len(key) == 2 and key[0] == -1 and isinstance(key[1], int):
            col = self.owner.cols[key[1]]
            self.owner.cols[key[1]] = col._like(f"{col.func}.with_last_bin({value!r})")
            return
        raise Unsupported("positional store into an aggregate other than [last bin, column]", node)


class _AggIndex:
    def __init__(self, frame, ops=()):
        self.frame = frame
        self.ops = list(ops)

    def sym_getattr(self, interp, name, node):
        if name in ("tz_localize", "tz_convert"):
            return _Callable(lambda *a, **k: _AggIndex(self.frame, self.ops + [name]))
        raise Unsupported(f"aggregated index.{name}", node)


def np_unary(fname):
    def f(interp, args, kwargs, node, frame):
        v = args[0]
        if isinstance(v, RAgg):
            return RAgg(f"np.{fname}({v.func})", v.column, v.frame_uid, v.filters, v.rule, v.index_tag)
        return NotImplemented
    return f


def pd_concat(interp, args, kwargs, node, frame):
    objs = args[0]
    axis = kwargs.get("axis", args[1] if len(args) > 1 else 0)
    if not isinstance(objs, (list, tuple)) or not objs:
        return NotImplemented
    if all(isinstance(o, RAgg) for o in objs) and axis == 1:
        return RAggFrame(list(objs))
    if all(isinstance(o, RFrame) for o in objs) and axis == 0:
        use(interp, "pd.rowwise")
        cols = []
        for o in objs:
            for c in o.cells:
                if c not in cols:
                    cols.append(c)
        mult = 0
        for o in objs:
            mult = to_z3(mult) + to_z3(o.mult)
        cells = OrderedDict()
        for c in cols:
            cell = NAN_CELL
            for o in reversed(objs):
                cell = cell_ite(o.member(), o.cells.get(c, NAN_CELL), cell)
            cells[c] = cell
        return RFrame(z3.simplify(mult), cells, objs[0].universe, False, objs[0].index_tag)
    return NotImplemented


def pd_series(interp, args, kwargs, node, frame):
    data = kwargs.get("data", args[0] if args else None)
    index = kwargs.get("index")
    if isinstance(index, RIndex):
        use(interp, "pd.rowwise")
        if isinstance(data, RSeries) and data.frame.root == index.frame.root:
            return RSeries(index.frame, data.cell, kwargs.get("name") or data.name)
        if isinstance(data, _RNextDelta):
            if data.frame.root != index.frame.root:
                raise Unsupported("Series of index differences on another frame's index", node)
            return RSeries(index.frame, data.cell(interp, node), kwargs.get("name"))
        return RSeries(index.frame, as_cell(interp, data, node), kwargs.get("name"))
    return NotImplemented


def pd_dataframe(interp, args, kwargs, node, frame):
    data = kwargs.get("data", args[0] if args else None)
    index = kwargs.get("index")
    if isinstance(data, dict) and data and all(isinstance(v, RSeries) for v in data.values()) and (index is None or isinstance(index, RIndex)):
        use(interp, "pd.rowwise")
        base = index.frame if index is not None else next(iter(data.values())).frame
        order = kwargs.get("columns") or list(data)
        cells = OrderedDict((k, data[k].cell if k in data else NAN_CELL) for k in order)
        return RFrame(base.mult, cells, base.universe, base.sorted, base.index_tag)
    if isinstance(data, dict) and isinstance(index, RIndex):
        use(interp, "pd.rowwise")
        cells = OrderedDict((k, as_cell(interp, v, node)) for k, v in data.items())
        return RFrame(index.frame.mult, cells, index.frame.universe, index.frame.sorted, index.frame.index_tag)
    return NotImplemented


def pd_date_range(interp, args, kwargs, node, frame):
    """pd.date_range(start=<first label's day 00:00>, end=<last label's day 23:00>, freq='h') on the row-wise model: a regular hourly grid with
    unique labels.  Whether the arbitrary label lies on it is an unknown `on_grid`; the ASSUMED precondition of the property (on-the-hour hourly
    input) makes every supplied label a grid point, which the harness states with grid_contains()."""
    start, end = kwargs.get("start", args[0] if args else None), kwargs.get("end", args[1] if len(args) > 1 else None)
    if isinstance(start, _OpaqueStamp) and isinstance(end, _OpaqueStamp) and kwargs.get("freq") in ("h", "H", "1h"):
        use(interp, "pd.date_range")
        run = interp.run
        on = run.input("row.on_grid", z3.BoolSort())
        month = run.input("row.month", z3.IntSort())
        dow = run.input("row.dayofweek", z3.IntSort())
        hour = run.input("row.hour", z3.IntSort())
        uni = {"month": month, "dow": dow, "hour": hour}
        if isinstance(start, RStamp) and isinstance(end, RStamp):
            # both ends are known instants: an on-the-hour label is a grid point exactly when it lies between them (the grid starts on the hour)
            t = run.input("row.label.epoch_seconds", z3.RealSort())
            uni["t"] = t
            run._add(z3.Implies(on, z3.And(start.t <= t, t <= end.t)))
            run._add(z3.Implies(z3.And(on_the_hour(interp), z3.Not(_zb(start.nat)), z3.Not(_zb(end.nat)), start.t <= t, t <= end.t), on))
        f = RFrame(z3.If(on, 1, 0), OrderedDict(), uni, True, "local", label="grid")
        f.is_grid = True
        return RIndex(f)
    return NotImplemented


assumed("pd.date_range", "pd.date_range(start, end, freq='h') is the gap-free hourly grid from start to end with unique labels")


def np_isclose(interp, args, kwargs, node, frame):
    """np.isclose(series, b): |x - b| <= atol + rtol * |b| for ordinary numbers (False for NaN; +-inf only equal to themselves)"""
    a, b = args[0], args[1]
    if isinstance(a, RSeries) and (is_num(b) or is_z3(b)):
        rtol = kwargs.get("rtol", args[2] if len(args) > 2 else 1e-5)
        atol = kwargs.get("atol", args[3] if len(args) > 3 else 1e-8)
        v = to_real(a.cell.val if a.cell.val is not None else 0)
        bb = to_real(b)
        d = z3.If(v - bb >= 0, v - bb, bb - v)
        absb = z3.If(bb >= 0, bb, -bb)
        return RMask(a.frame, _and(a.cell.is_num(), d <= to_real(atol) + to_real(rtol) * absb), f"isclose({a.name}, {b})")
    return NotImplemented


def np_isfinite(interp, args, kwargs, node, frame):
    v = args[0]
    if isinstance(v, RSeries):
        return v.sym_isfinite(interp, node)
    return NotImplemented


def install():
    for name, f in (("pandas.concat", pd_concat), ("pandas.DataFrame", pd_dataframe), ("pandas.Series", pd_series), ("numpy.isfinite", np_isfinite), ("numpy.isclose", np_isclose), ("pandas.date_range", pd_date_range),
                    ("numpy.sqrt", np_unary("sqrt")), ("numpy.square", np_unary("square")), ("numpy.abs", np_unary("abs"))):
        prev = libmodels.LIB.get(name)

        def g(interp, args, kwargs, node, frame, f=f, prev=prev, name=name):
            r = f(interp, args, kwargs, node, frame)
            if r is NotImplemented:
                if prev is None:
                    if interp.config.get("permissive"):
                        return SOpaque(f"{name}(...)")
                    raise Unsupported(f"library function {name} has no model for these arguments", node)
                return prev(interp, args, kwargs, node, frame)
            return r
        libmodels.LIB[name] = g

    @libmodels.api("row_frame")
    def _row_frame(interp, args, kwargs, node, frame):
        """the input frame of the row-wise model: columns = dict name -> 'real' | 'absent'; returns a frame whose
        arbitrary row has symbolic cells"""
        cols = args[0]
        run = interp.run
        month = run.input("row.month", z3.IntSort())
        dow = run.input("row.dayofweek", z3.IntSort())
        hour = run.input("row.hour", z3.IntSort())
        run._add(z3.And(month >= 1, month <= 12, dow >= 0, dow <= 6, hour >= 0, hour <= 23))
        cells = OrderedDict()
        for c in cols:
            k = run.input(f"row.{c}.kind", z3.IntSort())
            v = run.input(f"row.{c}", z3.RealSort())
            run._add(z3.And(k >= 0, k <= 3))
            cells[c] = Cell(k, v)
        mult = z3.IntVal(1)
        if kwargs.get("multiplicity") == "any":
            # the arbitrary label may be absent (0), present once, or duplicated (the cells are those of its FIRST occurrence)
            mult = run.input("row.multiplicity", z3.IntSort())
            run._add(mult >= 0)
        return RFrame(mult, cells, {"month": month, "dow": dow, "hour": hour}, False, "local", label=kwargs.get("label", "input"))

    @libmodels.api("row_twin")
    def _row_twin(interp, args, kwargs, node, frame):
        """a second input frame over the SAME universe whose listed columns have independent symbolic cells (the other
        run of a non-interference argument)"""
        src, cols = args
        run = interp.run
        cells = OrderedDict(src.cells)
        for c in cols:
            if c in cells:
                k = run.input(f"row2.{c}.kind", z3.IntSort())
                v = run.input(f"row2.{c}", z3.RealSort())
                run._add(z3.And(k >= 0, k <= 3))
                cells[c] = Cell(k, v)
        return RFrame(z3.IntVal(1), cells, src.universe, False, "local", label="input2")

    @libmodels.api("row_frame_drop")
    def _row_frame_drop(interp, args, kwargs, node, frame):
        src, col = args
        cells = OrderedDict((k, v) for k, v in src.cells.items() if k != col)
        return RFrame(z3.IntVal(1), cells, src.universe, False, "local", label="input3")

    @libmodels.api("cell_kind")
    def _cell_kind(interp, args, kwargs, node, frame):
        f, c = args
        if c not in f.cells:
            return NAN
        return f.cells[c].kind

    @libmodels.api("cell_val")
    def _cell_val(interp, args, kwargs, node, frame):
        f, c = args
        return f.cells[c].val

    @libmodels.api("cell_val_month")
    def _cell_val_month(interp, args, kwargs, node, frame):
        return args[0].universe["month"]

    @libmodels.api("cell_val_dow")
    def _cell_val_dow(interp, args, kwargs, node, frame):
        return args[0].universe["dow"]

    @libmodels.api("string")
    def _string(interp, args, kwargs, node, frame):
        return z3.StringVal(args[0])

    @libmodels.api("fill_only_missing")
    def _fill_only_missing(interp, args, kwargs, node, frame):
        return fill_only_missing(interp, args[0], False)

    @libmodels.api("column_has_present")
    def _column_has_present(interp, args, kwargs, node, frame):
        f, c = args
        h = has_present(interp, f, c)
        cell = f.cells[c]
        nn = _not(cell.is_nan())
        interp.run._add(z3.Implies(z3.And(f.member(), to_z3(nn) if not isinstance(nn, bool) else z3.BoolVal(nn)), h))
        return h

    @libmodels.api("labels_on_the_hour")
    def _labels_on_the_hour(interp, args, kwargs, node, frame):
        return on_the_hour(interp)

    @libmodels.api("label_seconds")
    def _label_seconds(interp, args, kwargs, node, frame):
        return row_instant(interp, args[0])

    @libmodels.api("index_min_seconds")
    def _index_min_seconds(interp, args, kwargs, node, frame):
        return index_extreme(interp, args[0], "min").t

    @libmodels.api("index_max_seconds")
    def _index_max_seconds(interp, args, kwargs, node, frame):
        return index_extreme(interp, args[0], "max").t

    @libmodels.api("wall_clock_seconds")
    def _wall_clock_seconds(interp, args, kwargs, node, frame):
        return wall_seconds(interp, args[0])

    @libmodels.api("index_is_empty")
    def _index_is_empty(interp, args, kwargs, node, frame):
        return index_extreme(interp, args[0], "min").nat

    @libmodels.api("stamp")
    def _stamp(interp, args, kwargs, node, frame):
        """a symbolic timezone-aware Timestamp (never NaT)"""
        return RStamp(interp.run.input(f"{args[0]}.epoch_seconds", z3.RealSort()), False, args[0])

    @libmodels.api("stamp_seconds")
    def _stamp_seconds(interp, args, kwargs, node, frame):
        return args[0].t

    @libmodels.api("floor_days")
    def _floor_days(interp, args, kwargs, node, frame):
        return z3.ToInt(to_real(args[0]) / 86400)

    @libmodels.api("next_days")
    def _next_days(interp, args, kwargs, node, frame):
        return next_label_universe(interp, args[0])["next_days_wall"]

    @libmodels.api("next_seconds")
    def _next_seconds(interp, args, kwargs, node, frame):
        return next_label_universe(interp, args[0])["next_seconds"]

    @libmodels.api("is_last_row")
    def _is_last_row(interp, args, kwargs, node, frame):
        return next_label_universe(interp, args[0])["is_last"]

    @libmodels.api("series_kind")
    def _series_kind(interp, args, kwargs, node, frame):
        return args[0].cell.kind

    @libmodels.api("series_val")
    def _series_val(interp, args, kwargs, node, frame):
        return args[0].cell.val

    @libmodels.api("series_member")
    def _series_member(interp, args, kwargs, node, frame):
        return args[0].frame.member()

    @libmodels.api("agg_func")
    def _agg_func(interp, args, kwargs, node, frame):
        return args[0].func

    @libmodels.api("agg_rule")
    def _agg_rule(interp, args, kwargs, node, frame):
        return args[0].rule

    @libmodels.api("agg_contrib")
    def _agg_contrib(interp, args, kwargs, node, frame):
        """(kind, value, multiplicity, slot seconds) of the arbitrary source row inside the aggregate"""
        c = args[0].contrib
        return (c["kind"], c["val"], c["mult"], c["slot_seconds"])

    @libmodels.api("row_series")
    def _row_series(interp, args, kwargs, node, frame):
        f = _row_frame(interp, [[args[0]]], {"label": kwargs.get("label", "series")}, node, frame)
        return RSeries(f, f.cells[args[0]], args[0])

    @libmodels.api("sum_log")
    def _sum_log(interp, args, kwargs, node, frame):
        """[(sum symbol, kind, value, multiplicity, series name)] of every Series.sum() so far, in call order"""
        return [(e["sum"], e["kind"], e["val"], e["mult"], e["name"]) for e in interp.run.__dict__.get("sum_log", [])]

    @libmodels.api("round_log")
    def _round_log(interp, args, kwargs, node, frame):
        return list(interp.run.__dict__.get("round_log", []))

    @libmodels.api("agg_bool_log")
    def _agg_bool_log(interp, args, kwargs, node, frame):
        return [(e["bool"], e["what"], e["how"], e["func"], e["op"], e["threshold"], e["column"], e["rule"]) for e in interp.run.__dict__.get("agg_bool_log", [])]

    @libmodels.api("recognise")
    def _recognise(interp, args, kwargs, node, frame):
        """the structural shape the contract was written for; anything else is UNDECIDED (not a violation): the code may be right in another spelling"""
        if args[0] is True:
            return True
        raise Unsupported(f"structure not recognised by the contract: {args[1] if len(args) > 1 else ''}", node)

    @libmodels.api("on_grid")
    def _on_grid(interp, args, kwargs, node, frame):
        return interp.run.input("row.on_grid", z3.BoolSort())

    @libmodels.api("median_of")
    def _median_of(interp, args, kwargs, node, frame):
        return z3.Real(f"median!{args[0].label}!{args[1]}")

    @libmodels.api("set_inferred_freq")
    def _set_inferred_freq(interp, args, kwargs, node, frame):
        args[0].inferred_freq = args[1]
        return None

    @libmodels.api("has_column")
    def _has_column(interp, args, kwargs, node, frame):
        return args[1] in args[0].cells

    @libmodels.api("renamed")
    def _renamed(interp, args, kwargs, node, frame):
        """copy of a term in which every input symbol whose name starts with the prefix is replaced by a fresh twin
        (the same twin for every call in this run): the 'second run' of a non-interference argument"""
        term, prefix = args
        if not is_z3(term):
            return term
        cache = interp.run.__dict__.setdefault("_twin_cache", {})
        subs = []
        seen, stack = set(), [term]
        while stack:
            e = stack.pop()
            if e.get_id() in seen:
                continue
            seen.add(e.get_id())
            if z3.is_const(e) and e.decl().kind() == z3.Z3_OP_UNINTERPRETED and e.decl().name().startswith(prefix):
                nm = e.decl().name()
                if nm not in cache:
                    cache[nm] = z3.Const(nm + "'", e.sort())
                subs.append((e, cache[nm]))
            stack.extend(e.children())
        return z3.substitute(term, *subs) if subs else term

    @libmodels.api("path_depends_on")
    def _path_depends_on(interp, args, kwargs, node, frame):
        prefix = args[0]
        for c in interp.run.__dict__.get("branch_conds", []):
            if _depends_on(interp, [c, prefix], {}, node, frame):
                return True
        return False

    @libmodels.api("depends_on")
    def _depends_on(interp, args, kwargs, node, frame):
        """does the z3 term mention an input symbol whose name starts with the given prefix?"""
        term, prefix = args
        if not is_z3(term):
            return False
        seen, stack = set(), [term]
        while stack:
            e = stack.pop()
            if e.get_id() in seen:
                continue
            seen.add(e.get_id())
            if z3.is_const(e) and e.decl().kind() == z3.Z3_OP_UNINTERPRETED and e.decl().name().startswith(prefix):
                return True
            stack.extend(e.children())
        return False


install()
