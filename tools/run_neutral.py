#!/venv/bin/python
"""Run every behaviour-preserving change under neutral/ through its property's check (scratch copy, never /repo): the check must stay
silent (exit 0).  Writes neutral/RESULTS.json.   usage: tools/run_neutral.py [--only Cnn,...] [--new] [--jobs N] [--tier quick]"""
import argparse, json, os, re, subprocess, time
from concurrent.futures import ThreadPoolExecutor
V = os.path.dirname(os.path.dirname(os.path.abspath(__file__)))


def run_one(name, tier):
    d = os.path.join(V, "neutral", name)
    t0 = time.time()
    p = subprocess.run([os.path.join(V, "tools", "try_patch.sh"), os.path.join(d, "patch.diff"), name[:3], "--tier", tier], capture_output=True, text=True, cwd=V)
    out = p.stdout + p.stderr
    m = re.search(r"^exit=(\d+)", out, flags=re.M)
    code = int(m.group(1)) if m else None
    return name, {"tier": tier, "exit": code, "silent": code == 0,
                  "violations": re.findall(r"^VIOLATION property=\S+ replay=\S+ obligation=(\S+)", out, flags=re.M)[:12],
                  "undecided": re.findall(r"^UNDECIDED property=\S+ obligation=(\S+) reason=(.*)$", out, flags=re.M)[:12],
                  "errors": re.findall(r"^CHECKER-ERROR.*$", out, flags=re.M)[:4], "wall_s": round(time.time() - t0, 1)}


def main():
    ap = argparse.ArgumentParser()
    ap.add_argument("--tier", default="quick")
    ap.add_argument("--only", default="")
    ap.add_argument("--new", action="store_true")
    ap.add_argument("--jobs", type=int, default=3)
    a = ap.parse_args()
    names = sorted(n for n in os.listdir(os.path.join(V, "neutral")) if os.path.isfile(os.path.join(V, "neutral", n, "patch.diff")))
    if a.only:
        keep = set(a.only.split(","))
        names = [n for n in names if n[:3] in keep or n in keep]
    rp = os.path.join(V, "neutral", "RESULTS.json")
    results = json.load(open(rp)) if os.path.exists(rp) else {}
    if a.new:
        names = [n for n in names if n not in results]
    with ThreadPoolExecutor(max_workers=a.jobs) as ex:
        for name, res in ex.map(lambda n: run_one(n, a.tier), names):
            results[name] = res
            print(f"{name:55s} exit={res['exit']} violations={res['violations'][:3]} undecided={[u[0] for u in res['undecided']][:3]} {res['wall_s']}s", flush=True)
            json.dump(results, open(rp, "w"), indent=1, sort_keys=True)
    bad = [n for n in names if not results[n]["silent"]]
    print(f"{len(names) - len(bad)}/{len(names)} silent; not silent: {bad}")


main()
