"""Bounded parts of C06.
(a) C06.dst.kernel -- bounded-EXHAUSTIVE over the statement's own quantifier: every IANA zone of the installed tz database x
    every UTC-offset change 2000-2037 x a 3-day contiguous hourly frame around it: run-time contract on the real
    _get_dst_indices / _transform_dst (quick tier: one representative per distinct (local hour, offset delta) class).
(b) C06.hourly.index -- the real HourlyModel.predict returns exactly the reporting frame's index, all finite, in
    several zones across DST changes, with and without usage."""
import datetime as dt
import zoneinfo

import numpy as np
import pandas as pd

from bounded.common import Bounded, load_known

MODULE = "bounded.C06_dst"


def transitions(zone, y0=2000, y1=2037):
    """UTC instants at which the zone's UTC offset changes (hour resolution scan, then refined)."""
    tz = zoneinfo.ZoneInfo(zone)
    out = []
    t = dt.datetime(y0, 1, 1, tzinfo=dt.timezone.utc)
    end = dt.datetime(y1 + 1, 1, 1, tzinfo=dt.timezone.utc)
    step = dt.timedelta(days=1)
    prev = t.astimezone(tz).utcoffset()
    while t < end:
        t2 = t + step
        off = t2.astimezone(tz).utcoffset()
        if off != prev:
            lo, hi = t, t2
            while hi - lo > dt.timedelta(minutes=1):
                mid = lo + (hi - lo) / 2
                if mid.astimezone(tz).utcoffset() == prev:
                    lo = mid
                else:
                    hi = mid
            out.append((hi.replace(second=0, microsecond=0), int((off - prev).total_seconds() // 60)))
            prev = off
        t = t2
    return out


def frame_around(zone, instant_utc):
    """3 whole local days of on-the-hour hourly rows (absolute-time contiguous) around the transition"""
    ts = pd.Timestamp(instant_utc).tz_convert(zone)
    start = (ts - pd.Timedelta(days=1)).normalize()
    end = (ts + pd.Timedelta(days=2)).normalize()
    idx = pd.date_range(start.tz_convert("UTC"), end.tz_convert("UTC"), freq="h", inclusive="left").tz_convert(zone)
    return pd.DataFrame({"observed": np.nan, "temperature": 50.0}, index=idx)


def check_kernel(zone, instant_iso):
    from opendsm.eemeter.models.hourly.model import _get_dst_indices, _transform_dst
    df = frame_around(zone, pd.Timestamp(instant_iso))
    bad = []
    if (df.index.minute != 0).any():
        return {"ok": True, "skipped": "zone's local hours are off the hour around this change (outside the stated precondition)"}
    dates = sorted(set(df.index.date))
    per_day = pd.Series(1, index=df.index).groupby(df.index.date).size()
    try:
        interp, mean = _get_dst_indices(df)
    except Exception as e:  # noqa
        return {"ok": False, "problems": [f"_get_dst_indices raised {type(e).__name__}: {e}; rows per day {per_day.tolist()}"]}
    exp_interp, exp_mean = [], []
    for k, d in enumerate(dates):
        hours = df.index.hour[df.index.date == d]
        if len(hours) == 23:
            missing = sorted(set(range(24)) - set(hours))
            exp_interp.append((k, missing[0]))
        if len(hours) == 25:
            seen, rep = set(), None
            for h in hours:
                if h in seen:
                    rep = h
                    break
                seen.add(h)
            exp_mean.append((k, rep))
    if [tuple(map(int, x)) for x in interp] != exp_interp:
        bad.append(f"interp {interp} expected {exp_interp}")
    if [tuple(map(int, x)) for x in mean] != exp_mean:
        bad.append(f"mean {mean} expected {exp_mean}")
    D = len(dates)
    model_out = np.arange(24.0 * D)  # what the 24-slot-per-day model emits
    try:
        out = _transform_dst(model_out, (interp, mean))
    except Exception as e:  # noqa
        return {"ok": False, "problems": bad + [f"_transform_dst raised {type(e).__name__}: {e}"]}
    if len(out) != len(df):
        bad.append(f"_transform_dst gives {len(out)} values for a frame of {len(df)} rows (days {per_day.tolist()})")
    else:
        # slots unaffected by the change keep their value: value v = 24*day + hour
        for pos, (ts, v) in enumerate(zip(df.index, out)):
            k = dates.index(ts.date())
            if float(v) == int(v) and int(v) != 24 * k + ts.hour and (k, ts.hour) not in [(a, b) for a, b in exp_mean]:
                bad.append(f"row {ts} got slot {v}, expected {24 * k + ts.hour}")
                break
    return {"ok": not bad, "problems": bad}


def check_hourly_index(zone, start, end, usage):
    from bounded.hourly_common import fitted_hourly, reporting
    m, _ = fitted_hourly(zone)
    tr = {"with": None, "blank": lambda d: d.assign(observed=np.nan), "absent": lambda d: d.drop(columns=["observed"])}[usage]
    rep = reporting(zone, start, end, tr)
    p = m.predict(rep, ignore_disqualification=True)
    bad = []
    if not p.index.equals(rep.df.index):
        bad.append(f"prediction index differs from the reporting frame's index ({len(p)} vs {len(rep.df)} rows)")
    if p.index.has_duplicates and not rep.df.index.has_duplicates:
        bad.append("duplicated timestamps")
    if not p.index.is_monotonic_increasing:
        bad.append("not chronological")
    if not np.isfinite(p["predicted"].astype(float)).all():
        bad.append(f"{int((~np.isfinite(p['predicted'].astype(float))).sum())} non-finite predictions")
    # every supplied timestamp has its row (the frame may add rows to complete the first / last local day, never lose one)
    from bounded.hourly_common import hourly_frame
    supplied = hourly_frame(zone).loc[start:end].index
    lost = supplied.difference(p.index)
    if len(lost):
        bad.append(f"{len(lost)} supplied timestamps have no row in the prediction, e.g. {lost[0]}")
    # no timestamp is shifted: the value predicted for a timestamp does not depend on where the reporting span begins or ends
    wide = reporting(zone, str((pd.Timestamp(start) - pd.Timedelta(days=3)).date()), str((pd.Timestamp(end) + pd.Timedelta(days=3)).date()), tr)
    pw = m.predict(wide, ignore_disqualification=True)
    common = p.index.intersection(pw.index)
    a, b = p.loc[common, "predicted"].astype(float), pw.loc[common, "predicted"].astype(float)
    if len(common) and not np.allclose(a.values, b.values, rtol=1e-9, atol=1e-9, equal_nan=True):
        k = int(np.nanargmax(np.abs(a.values - b.values)))
        bad.append(f"{int((~np.isclose(a.values, b.values, rtol=1e-9, atol=1e-9, equal_nan=True)).sum())} timestamps are predicted differently when the span is extended by 3 days "
                   f"on either side, e.g. {common[k]}: {a.values[k]!r} vs {b.values[k]!r}")
    return {"ok": not bad, "problems": bad}


def replay(case):
    if case["kind"] == "kernel":
        return check_kernel(case["zone"], case["instant"])
    return check_hourly_index(case["zone"], case["start"], case["end"], case["usage"])


def run(tier="quick", seed=0):
    known = load_known("C06")
    b = Bounded("C06", "C06.dst.kernel", MODULE,
                "every zone of the installed IANA database x every UTC-offset change 2000-2037 x 3 whole local days of hourly rows: "
                "_get_dst_indices finds exactly the 23-row days with their absent hour and the 25-row days with their repeated hour, "
                "_transform_dst maps 24 slots/day onto the frame's rows (length and unaffected slots). Quick tier: one representative per "
                "distinct (local hour of change, offset delta) class; thorough: all. distinct = (zone, instant)", known_findings=known)
    zones = sorted(zoneinfo.available_timezones())
    seen_classes = {}
    n_trans = 0
    skipped = 0
    for z in zones:
        try:
            trs = transitions(z)
        except Exception:
            continue
        for inst, delta in trs:
            n_trans += 1
            local = pd.Timestamp(inst).tz_convert(z)
            cls = (local.hour, local.minute, delta)
            if tier == "quick":
                if cls in seen_classes:
                    continue
                seen_classes[cls] = (z, inst)
            case = {"kind": "kernel", "zone": z, "instant": pd.Timestamp(inst).isoformat()}
            try:
                r = replay(case)
            except Exception as e:  # noqa
                r = {"ok": False, "problems": [f"harness exception {type(e).__name__}: {e}"]}
            if r.get("skipped"):
                skipped += 1
                continue
            kid = None
            if not r["ok"] and abs(delta) != 60:
                kid = "C06-dst-not-one-hour"
            b.case("C06.dst.kernel", case, r["ok"], nontrivial_key=(z, case["instant"]), detail=r.get("problems"), known_id=kid)
    b.extra["transitions_in_database"] = n_trans
    b.extra["off_the_hour_skipped"] = skipped
    b.exhaustive = tier == "thorough"
    # (b) real predictions
    spans = [("America/Chicago", "2017-03-05", "2017-03-19"), ("America/Chicago", "2017-10-29", "2017-11-11"),
             ("America/Chicago", "2017-06-03", "2017-06-04"),
             # spans that END / BEGIN on the day of the change itself
             ("America/Chicago", "2017-03-05", "2017-03-12"), ("America/Chicago", "2017-10-29", "2017-11-05"),
             ("America/Chicago", "2017-03-12", "2017-03-16"), ("America/Chicago", "2017-11-05", "2017-11-09")]
    if tier == "thorough":
        spans += [("Europe/London", "2017-03-20", "2017-04-02"), ("Australia/Sydney", "2017-03-27", "2017-04-09"),
                  ("Asia/Tokyo", "2017-03-05", "2017-03-12")]
    for z, a, e in spans:
        for usage in ("with", "blank", "absent"):
            case = {"kind": "hourly", "zone": z, "start": a, "end": e, "usage": usage}
            try:
                r = replay(case)
            except Exception as ex:  # noqa
                import traceback
                r = {"ok": False, "problems": [f"exception {type(ex).__name__}: {ex}", traceback.format_exc()[-500:]]}
            b.case("C06.hourly.index", case, r["ok"], nontrivial_key=(z, a, usage), detail=r.get("problems"))
    return b.result()
