#!/bin/sh
# tools/try_patch.sh <patch.diff> <Cnn> [extra check args]  -- run a check against a scratch copy of /repo with the patch applied
set -e
PATCH="$(readlink -f "$1")"; PROP="$2"; shift 2
S="$(mktemp -d -p /var/tmp verif-scr.XXXXXX)"
trap 'rm -rf "$S"' EXIT
cp -r /repo/opendsm "$S/opendsm"
( cd "$S" && patch -p1 -s < "$PATCH" )
cd "$(dirname "$0")/.."
set +e
VERIF_REPO="$S" NUMBA_CACHE_DIR="$S/.numba" ./check "$PROP" --no-evidence "$@"
echo "exit=$?"
