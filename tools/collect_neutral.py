#!/venv/bin/python
"""Collect behaviour-preserving changes from a sub-agent's worktree, re-check the digest of equiv.py with / without the patch, store them
under neutral/<Cnn>-<name>/.   usage: tools/collect_neutral.py <worktree> <Cnn>"""
import json, os, shutil, subprocess, sys, hashlib
V = os.path.dirname(os.path.dirname(os.path.abspath(__file__)))
wt, pid = sys.argv[1], sys.argv[2]
env = dict(os.environ, PYTHONPATH=wt, NUMBA_CACHE_DIR=os.path.join(wt, ".numba_cache"), PYTHONDONTWRITEBYTECODE="1", PYTHONHASHSEED="0")


def sh(cmd):
    return subprocess.run(cmd, shell=True, cwd=wt, env=env, capture_output=True, text=True, timeout=3600)


out = os.path.join(wt, "neutral_out")
sh("git checkout -q -- . && git clean -fdq opendsm")
for name in sorted(os.listdir(out)):
    d = os.path.join(out, name)
    if not os.path.isfile(os.path.join(d, "patch.diff")):
        continue
    a = sh(f"/venv/bin/python {d}/equiv.py")
    ap = sh(f"git apply {d}/patch.diff")
    b = sh(f"/venv/bin/python {d}/equiv.py") if ap.returncode == 0 else None
    sh("git checkout -q -- . && git clean -fdq opendsm")
    same = b is not None and a.returncode == 0 and b.returncode == 0 and a.stdout == b.stdout
    rec = {"name": name, "applies": ap.returncode == 0, "equiv_same_output": same, "digest": hashlib.sha256(a.stdout.encode()).hexdigest()[:16]}
    print(json.dumps(rec))
    if same:
        dst = os.path.join(V, "neutral", f"{pid}-{name}")
        os.makedirs(dst, exist_ok=True)
        for f in ("patch.diff", "equiv.py", "meta.json"):
            shutil.copy(os.path.join(d, f), os.path.join(dst, f))
        try:
            meta = json.load(open(os.path.join(dst, "meta.json")))
        except Exception:
            meta = {}
        meta["rechecked_by_main_session"] = rec
        json.dump(meta, open(os.path.join(dst, "meta.json"), "w"), indent=1)
