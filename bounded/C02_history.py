"""Bounded part of C02: histories on REAL objects -- to_json before/after predict, prediction independent of what was
predicted earlier, inputs of constructors / from_series / fit / predict unchanged (deep comparison incl. index timezone),
frames handed out are independent copies.  Never counted as proved."""
import copy
import logging
import warnings

import numpy as np
import pandas as pd

from bounded.common import Bounded, load_known

MODULE = "bounded.C02_history"
logging.disable(logging.CRITICAL)
warnings.filterwarnings("ignore")


def snapshot(obj):
    if isinstance(obj, (pd.DataFrame, pd.Series)):
        return ("pd", obj.copy(deep=True), str(obj.index.tz) if hasattr(obj.index, "tz") else None, list(getattr(obj, "columns", [])),
                str(getattr(obj.index, "freq", None)), getattr(obj, "name", None))
    return ("py", copy.deepcopy(obj))


def same(snap, obj):
    if snap[0] == "pd":
        if not isinstance(obj, type(snap[1])) or not snap[1].equals(obj):
            return False
        return (snap[2] == (str(obj.index.tz) if hasattr(obj.index, "tz") else None) and snap[3] == list(getattr(obj, "columns", []))
                and snap[5] == getattr(obj, "name", None) and snap[1].index.equals(obj.index) and snap[4] == str(getattr(obj.index, "freq", None)))
    return snap[1] == obj


def scribble(df):
    """overwrite every numeric cell of a frame in place"""
    num = [c for c in df.columns if df[c].dtype.kind in "fi"]
    for c in num:
        df[c] = -1.0
    return num


def scribbled(df):
    num = [c for c in df.columns if df[c].dtype.kind in "fi"]
    return bool(num) and all((df[c] == -1.0).all() for c in num)


def _daily_inputs():
    from opendsm.eemeter.samples import load_sample
    from opendsm.eemeter.common.transform import get_baseline_data
    meter, temp, meta = load_sample("il-electricity-cdd-hdd-daily")
    bm, _ = get_baseline_data(meter, end=meta["blackout_start_date"], max_days=365)
    return meter, temp, meta, bm


def scenario(name):
    import opendsm.eemeter as em
    bad = []
    if name.startswith("daily.history") or name.startswith("billing.history"):
        from bounded.C01_roundtrip import fitted
        fam = name.split(".")[0]
        if fam == "billing":
            from opendsm.eemeter.models.billing.model import BillingModel
            from bounded.C01_roundtrip import param_doc
            doc = param_doc("billing", "hdd_tidd_cdd_smooth", "six", False)
            doc["info"]["baseline_timezone"] = "UTC"  # the sample's timezone
            m = BillingModel.from_dict(doc)
            cls = None
        else:
            m, _, cls = fitted("daily", "current")
        meter, temp, meta, bm = _daily_inputs()
        rep_all = meter.loc[meta["blackout_end_date"]:]
        spans = {"day": rep_all.iloc[:2], "week": rep_all.iloc[10:18], "month": rep_all.iloc[40:72], "partial": rep_all.iloc[:200],
                 "full": rep_all.iloc[:366]}
        DC = em.DailyReportingData if fam == "daily" else em.BillingReportingData
        if fam == "billing":
            # monthly bills built from the daily sample (the bundled billing sample does not merge in this sandbox)
            spans = {"partial": rep_all.iloc[:200], "full": rep_all.iloc[:366], "quarter": rep_all.iloc[30:130]}
            spans = {k: v["value"].resample("MS").sum().to_frame("value") for k, v in spans.items()}
            spans["week"] = spans["quarter"]
        objs = {k: DC.from_series(v, temp, is_electricity_data=True) for k, v in spans.items()}
        if fam == "daily":
            objs["week_noobs"] = DC.from_series(None, temp.loc[spans["week"].index[0]:spans["week"].index[-1]], is_electricity_data=True)
        pred = (lambda o: m.predict(o, ignore_disqualification=True)) if fam == "daily" else (lambda o: m.predict(o, ignore_disqualification=True))
        j0 = m.to_json()
        fresh = {k: pred(o) for k, o in objs.items()} if False else None
        ref_model = type(m).from_json(j0)
        ref = {k: ref_model.predict(o, ignore_disqualification=True) for k, o in [("week", objs["week"])]}
        for k, o in objs.items():
            before = snapshot(o._df)
            p = pred(o)
            if not same(before, o._df):
                bad.append(f"predict modified the data object ({k})")
            if m.to_json() != j0:
                bad.append(f"to_json changed after predict({k})")
                break
            scribble(p)  # editing the returned frame must not reach the model or the data object
            if not same(before, o._df):
                bad.append(f"editing a prediction frame changed the data object ({k})")
        again = pred(objs["week"])
        if not again.equals(ref["week"]):
            bad.append("prediction for 'week' differs after other datasets were predicted with the same model object")
    elif name == "hourly.history":
        from bounded.hourly_common import fitted_hourly, hourly_frame
        m, base = fitted_hourly("America/Chicago")
        df = hourly_frame("America/Chicago")
        spans = {"day": df.loc["2017-02-01":"2017-02-01"], "week": df.loc["2017-06-05":"2017-06-11"], "month": df.loc["2017-08-01":"2017-08-31"],
                 "dst": df.loc["2017-03-08":"2017-03-15"]}
        objs = {k: em.HourlyReportingData(v.copy(), is_electricity_data=True) for k, v in spans.items()}
        objs["week_noobs"] = em.HourlyReportingData(spans["week"].drop(columns=["observed"]), is_electricity_data=True)
        j0 = m.to_json()
        ref_model = em.HourlyModel.from_json(j0)
        ref = ref_model.predict(objs["week"], ignore_disqualification=True)
        for k, o in objs.items():
            before = snapshot(o._df)
            m.predict(o, ignore_disqualification=True)
            if not same(before, o._df):
                bad.append(f"predict modified the data object ({k})")
            if m.to_json() != j0:
                bad.append(f"to_json changed after predict({k})")
                break
        again = m.predict(objs["week"], ignore_disqualification=True)
        if not np.array_equal(again["predicted"].values, ref["predicted"].values, equal_nan=True):
            bad.append("hourly prediction for 'week' differs after other datasets were predicted with the same model object")
    elif name == "hourly.short_baseline_history":
        # baseline Jan-May only: reporting sets contain (month, weekday) pairs the baseline never saw
        from bounded.hourly_common import hourly_frame
        df = hourly_frame("America/Chicago")
        base = em.HourlyBaselineData(df.loc["2016-01-01":"2016-05-31"], is_electricity_data=True)
        m = em.HourlyModel().fit(base, ignore_disqualification=True)
        j0 = m.to_json()
        A = em.HourlyReportingData(df.loc["2016-12-01":"2017-02-28"].drop(columns=["observed"]), is_electricity_data=True)
        B = em.HourlyReportingData(df.loc["2016-12-01":"2017-02-28"].copy(), is_electricity_data=True)
        ref = em.HourlyModel.from_json(j0).predict(A, ignore_disqualification=True)
        m.predict(B, ignore_disqualification=True)
        if m.to_json() != j0:
            bad.append("to_json changed after predicting a set with unseen (month, weekday) pairs and usage")
        after = m.predict(A, ignore_disqualification=True)
        if not np.array_equal(after["predicted"].values, ref["predicted"].values, equal_nan=True):
            bad.append(f"prediction of A differs after predicting B (max abs {np.nanmax(np.abs(after['predicted'].values - ref['predicted'].values))})")
    elif name.startswith("ctor."):
        meter, temp, meta, bm = _daily_inputs()
        kind = name.split(".", 1)[1]
        tz = "America/Chicago"
        if kind.startswith("daily") or kind.startswith("billing"):
            cls = {"daily_baseline": em.DailyBaselineData, "daily_reporting": em.DailyReportingData, "billing_baseline": em.BillingBaselineData,
                   "billing_reporting": em.BillingReportingData}[kind.rsplit("_", 1)[0] if kind.count("_") > 1 else kind]
            variant = kind.rsplit("_", 1)[1] if kind.count("_") > 1 else "series"
            m_in = bm["value"].tz_convert(tz).copy()
            t_in = temp.copy()  # UTC: a different timezone from the meter's
            if variant == "frames":
                m_in = m_in.to_frame("observed")
                t_in = t_in.to_frame("temperature")
            sm, st = snapshot(m_in), snapshot(t_in)
            d = cls.from_series(m_in, t_in, is_electricity_data=True)
            if not same(sm, m_in):
                bad.append("from_series modified the caller's meter data")
            if not same(st, t_in):
                bad.append(f"from_series modified the caller's temperature data (index tz now {t_in.index.tz})")
            frame = pd.concat([bm["value"].rename("observed"), temp.resample("D").mean().rename("temperature")], axis=1).dropna()
            sf = snapshot(frame)
            d2 = cls(frame, is_electricity_data=True)
            if not same(sf, frame):
                bad.append("constructor modified the caller's DataFrame")
            a = d2.df
            scribble(a)
            if scribbled(d2.df):
                bad.append(".df hands out internal state (edit of the returned frame persisted)")
            if hasattr(d2, "billing_df"):
                x1 = d2.billing_df
                x2 = d2.billing_df
                x3 = d2.billing_df
                if x3 is not None:
                    scribble(x3)
                    x4 = d2.billing_df
                    if x4 is x3 or x2 is x3 or scribbled(x4):
                        bad.append(".billing_df hands out internal state on a later access")
        elif kind == "hourly":
            from bounded.hourly_common import hourly_frame
            df = hourly_frame("America/Chicago").loc["2016-03-01":"2016-04-15"].copy()
            df.iloc[5, 0] = 0.0
            s = snapshot(df)
            for c in (em.HourlyBaselineData, em.HourlyReportingData):
                d = c(df, is_electricity_data=True)
                if not same(s, df):
                    bad.append(f"{c.__name__} modified the caller's DataFrame")
                a = d.df
                scribble(a)
                if scribbled(d.df):
                    bad.append(f"{c.__name__}.df hands out internal state")
        elif kind == "caltrack_hourly":
            from opendsm.eemeter.models.hourly_caltrack.data import HourlyBaselineData as CTB, HourlyReportingData as CTR
            from bounded.hourly_common import hourly_frame
            df = hourly_frame("UTC").iloc[: 24 * 40].copy()
            df.iloc[5, 0] = 0.0
            s = snapshot(df)
            CTB(df, is_electricity_data=True)
            if not same(s, df):
                bad.append("CalTRACK HourlyBaselineData modified the caller's DataFrame")
            t_only = df[["temperature"]].copy()
            s2 = snapshot(t_only)
            CTR(t_only, is_electricity_data=True)
            if not same(s2, t_only):
                bad.append(f"CalTRACK HourlyReportingData modified the caller's DataFrame (columns now {list(t_only.columns)})")
    elif name == "fit.data":
        meter, temp, meta, bm = _daily_inputs()
        data = em.DailyBaselineData.from_series(bm, temp, is_electricity_data=True)
        before = (snapshot(data._df), [w.qualified_name for w in data.warnings], [w.qualified_name for w in data.disqualification])
        m = em.DailyModel(settings={"developer_mode": True, "cvrmse_threshold": 0.01}).fit(data, ignore_disqualification=True)
        after = ([w.qualified_name for w in data.warnings], [w.qualified_name for w in data.disqualification])
        if not same(before[0], data._df) or after != (before[1], before[2]):
            bad.append(f"fit modified the baseline data object: disqualification {before[2]} -> {after[1]}")
        if not any(d.qualified_name.endswith("cvrmse") for d in m.disqualification):
            bad.append("scenario did not trigger the poor-fit disqualification (harness)")
        from bounded.hourly_common import hourly_frame
        df = hourly_frame("America/Chicago").loc["2016-01-01":"2016-04-30"]
        hd = em.HourlyBaselineData(df, is_electricity_data=True)
        b2 = (snapshot(hd._df), [w.qualified_name for w in hd.warnings], [w.qualified_name for w in hd.disqualification])
        em.HourlyModel(settings={"cvrmse_threshold": 0.001, "pnrmse_threshold": 0.001}).fit(hd, ignore_disqualification=True)
        if not same(b2[0], hd._df) or ([w.qualified_name for w in hd.warnings], [w.qualified_name for w in hd.disqualification]) != (b2[1], b2[2]):
            bad.append("hourly fit modified the baseline data object")
    elif name == "fit.other_models":
        # fitting (or merely constructing / loading) OTHER models never changes a fitted model: its document and public statistics stay put
        import json as _json
        from opendsm.eemeter.samples import load_sample
        from opendsm.eemeter.common.transform import get_baseline_data
        meter, temp, meta, bm = _daily_inputs()
        data_a = em.DailyBaselineData.from_series(bm, temp, is_electricity_data=True)
        a = em.DailyModel().fit(data_a, ignore_disqualification=True)
        doc_a, err_a = a.to_json(), dict(a.error)
        m2, t2, meta2 = load_sample("il-gas-hdd-only-daily")
        bm2, _ = get_baseline_data(m2, end=meta2["blackout_start_date"], max_days=365)
        data_b = em.DailyBaselineData.from_series(bm2, t2, is_electricity_data=False)
        em.DailyModel()                                              # an unfitted model
        loaded = em.DailyModel.from_json(doc_a)                      # a loaded copy
        b_model = em.DailyModel(settings={"uncertainty_alpha": 0.2}).fit(data_b, ignore_disqualification=True)
        if a.to_json() != doc_a:
            j1, j2 = _json.loads(doc_a), _json.loads(a.to_json())
            keys = [k for k in j1 if j1[k] != j2.get(k)]
            bad.append(f"fitting another meter's model changed the serialised form of an earlier model (differs in {keys}: {str(j1.get('info', {}).get('error'))[:120]} -> {str(j2.get('info', {}).get('error'))[:120]})")
        if dict(a.error) != err_a:
            bad.append(f"fitting another meter's model changed an earlier model's reported statistics: {err_a} -> {dict(a.error)}")
        if loaded.to_json() != doc_a:
            bad.append("fitting another meter's model changed a model loaded from JSON")
        if b_model.to_json() == doc_a:
            bad.append("harness: the two fits are identical")
        from bounded.hourly_common import hourly_frame
        df = hourly_frame("America/Chicago")
        h1 = em.HourlyModel(settings={"seed": 3}).fit(em.HourlyBaselineData(df.loc["2016-01-01":"2016-04-30"], is_electricity_data=True), ignore_disqualification=True)
        dh = h1.to_json()
        em.HourlyModel(settings={"seed": 4, "supplemental_time_series_columns": ["has_pv"]}).fit(
            em.HourlyBaselineData(df.loc["2016-06-01":"2016-09-30"], is_electricity_data=True), ignore_disqualification=True)
        if h1.to_json() != dh:
            bad.append("fitting another hourly model changed the serialised form of an earlier hourly model")
    else:
        raise ValueError(name)
    return {"ok": not bad, "problems": bad}


def replay(case):
    return scenario(case["scenario"])


QUICK = ["daily.history", "billing.history", "hourly.history", "hourly.short_baseline_history", "ctor.daily_baseline_series",
         "ctor.daily_reporting_frames", "ctor.billing_baseline_frames", "ctor.billing_reporting_series", "ctor.hourly", "ctor.caltrack_hourly",
         "fit.data", "fit.other_models"]
THOROUGH = QUICK + ["ctor.daily_baseline_frames", "ctor.daily_reporting_series", "ctor.billing_baseline_series", "ctor.billing_reporting_frames"]


def run(tier="quick", seed=0):
    b = Bounded("C02", "C02.history", MODULE,
                "scripted histories on real objects: per model family to_json before/after predict over reporting sets of 1 day / week / month / "
                "partial / full year with and without usage, predict(A) on a reloaded copy vs after predicting the others, an hourly model "
                "with a 5-month baseline predicting unseen (month, weekday) pairs; deep comparison (values, index, timezone, columns) of every "
                "input of constructors / from_series (Series and DataFrame inputs, differing timezones) / fit / predict; frames handed out "
                "edited in place and re-read (billing_df read four times); a fitted daily / hourly model and a loaded copy compared before and after other models "
                "are constructed, loaded and fitted on other meters. distinct = scenario", known_findings=load_known("C02"))
    for sc in (QUICK if tier == "quick" else THOROUGH):
        try:
            r = replay({"scenario": sc})
        except Exception as e:  # noqa
            import traceback
            r = {"ok": False, "problems": [f"exception {type(e).__name__}: {e}", traceback.format_exc()[-800:]]}
        b.case("C02.history." + sc, {"scenario": sc}, r["ok"], nontrivial_key=sc, detail=r["problems"])
    return b.result()
