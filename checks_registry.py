"""Single source of truth for MANIFEST.json (run tools_manifest.py after editing)."""
ENGINES = [
    {"name": "pyvc", "path": "pyvc/", "serves_properties": [],
     "kind_free_text": "own deductive verifier: symbolic execution of the real Python source (ast) of the functions under contract, sidecar contracts, verification conditions discharged by z3 (cvc5 second)"},
]
NOTES = ("Contract-based deductive verification; see DESIGN.md. Exit codes of ./check: 0 held, 1 violation "
         "(VIOLATION line), 2 undecided, 3 checker error.")
CHECKS = []
_NOT_BUILT = "machinery for this property is not built yet (see DESIGN.md §7 build order); not claimed"
NOT_APPLICABLE = [{"property_id": f"C{n:02d}", "reason": _NOT_BUILT} for n in range(1, 21) if n != 15] + [
    {"property_id": "C15", "reason": "statistical accuracy bound on the output of a black-box non-convex optimiser over generated noisy data; no pre/postcondition on any function within reach expresses or decides it (DESIGN.md §4 C15)"},
]
NOT_APPLICABLE.sort(key=lambda d: d["property_id"])
