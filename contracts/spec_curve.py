"""Spec functions shared by C01 / C11 / C12 (DESIGN Appendix A).

Pure Python over the pyvc API, so the same text is (a) interpreted symbolically by the prover and
(b) run natively when a counterexample is replayed.  `documented` is written from
docs/source/learn/daily_billing_model.md (balance points, heating/cooling coefficients,
temperature-independent load) and the smoothing described in the property statement; it does not
look at the code.  `curve7` is the contract of the numba kernel `full_model`.
"""
from pyvc.api import *  # noqa

SHAPES = ["tidd", "hdd_tidd", "tidd_cdd", "hdd_tidd_smooth", "tidd_cdd_smooth", "hdd_tidd_cdd", "hdd_tidd_cdd_smooth"]
SMOOTH = ["hdd_tidd_smooth", "tidd_cdd_smooth", "hdd_tidd_cdd_smooth"]

LN_MIN = repo("opendsm/common/utils.py::LN_MIN_POS_SYSTEM_VALUE")
LN_MAX = repo("opendsm/common/utils.py::LN_MAX_POS_SYSTEM_VALUE")


# NOTE on style: these spec functions use Python `if` on symbolic conditions.  Under the prover every such
# `if` is a case split (the path forks and both sides are explored), so each verification condition is a
# conjunction of polynomial constraints without if-then-else terms -- the form the nonlinear solver decides
# in milliseconds.  Natively they are ordinary Python.

def pos(x):
    if x > 0:
        return x
    return 0


def clip(x):
    if x < LN_MIN:
        return LN_MIN
    if x > LN_MAX:
        return LN_MAX
    return x


def ramp(d, k):
    """Degree-day ramp with exponential smoothing: d is the distance beyond the (shifted) balance point,
    k >= 0 the smoothing length.  k == 0 gives the plain (d)+."""
    if d <= 0:
        return 0
    if k == 0:
        return d
    return d + k * (exp(clip((0 - d) / k)) - 1)


def smooth_coeffs(hdd_bp, pct_hdd_k, cdd_bp, pct_cdd_k):
    """(bp_h', k_h, bp_c', k_c) of the two-sided smoothed shape from the stored fractions."""
    if pct_hdd_k < 0.01 and pct_cdd_k < 0.01:
        return [hdd_bp, 0, cdd_bp, 0]
    s = pct_hdd_k + pct_cdd_k
    d = 1
    if s > 1:
        d = s
    k_h = pct_hdd_k / d * (cdd_bp - hdd_bp)
    k_c = pct_cdd_k / d * (cdd_bp - hdd_bp)
    return [hdd_bp + k_h, k_h, cdd_bp - k_c, k_c]


def documented(shape, hdd_bp, hdd_beta, hdd_k, cdd_bp, cdd_beta, cdd_k, intercept, T):
    """The documented piecewise heating/cooling formula evaluated from the JSON parameters alone."""
    if shape == "tidd":
        return intercept
    if shape == "hdd_tidd":
        return intercept + (0 - hdd_beta) * pos(hdd_bp - T)
    if shape == "tidd_cdd":
        return intercept + cdd_beta * pos(T - cdd_bp)
    if shape == "hdd_tidd_smooth":
        return intercept + (0 - hdd_beta) * ramp(hdd_bp - T, hdd_k)
    if shape == "tidd_cdd_smooth":
        return intercept + cdd_beta * ramp(T - cdd_bp, cdd_k)
    if shape == "hdd_tidd_cdd":
        return intercept + hdd_beta * pos(hdd_bp - T) + cdd_beta * pos(T - cdd_bp)
    if shape == "hdd_tidd_cdd_smooth":
        [bph, kh, bpc, kc] = smooth_coeffs(hdd_bp, hdd_k, cdd_bp, cdd_k)
        return intercept + hdd_beta * ramp(bph - T, kh) + cdd_beta * ramp(T - bpc, kc)


def heating_slope(shape, hdd_beta):
    """magnitude of the heating slope (the single-slope heating shapes store it negated)"""
    if shape in ["hdd_tidd", "hdd_tidd_smooth"]:
        return 0 - hdd_beta
    if shape in ["hdd_tidd_cdd", "hdd_tidd_cdd_smooth"]:
        return hdd_beta
    return 0


def cooling_slope(shape, cdd_beta):
    if shape in ["tidd_cdd", "tidd_cdd_smooth", "hdd_tidd_cdd", "hdd_tidd_cdd_smooth"]:
        return cdd_beta
    return 0


def eff_points(shape, hdd_bp, hdd_k, cdd_bp, cdd_k):
    """(bp_h', k_h, bp_c', k_c): the joints of the curve and the smoothing lengths actually in effect.
    A missing side is None."""
    if shape == "tidd":
        return [None, 0, None, 0]
    if shape == "hdd_tidd":
        return [hdd_bp, 0, None, 0]
    if shape == "tidd_cdd":
        return [None, 0, cdd_bp, 0]
    if shape == "hdd_tidd_smooth":
        return [hdd_bp, hdd_k, None, 0]
    if shape == "tidd_cdd_smooth":
        return [None, 0, cdd_bp, cdd_k]
    if shape == "hdd_tidd_cdd":
        return [hdd_bp, 0, cdd_bp, 0]
    return smooth_coeffs(hdd_bp, hdd_k, cdd_bp, cdd_k)


def adm(shape, hdd_bp, hdd_beta, hdd_k, cdd_bp, cdd_beta, cdd_k, T_min, T_max, T_min_seg, T_max_seg):
    """Admissibility of the *stored* coefficients (DESIGN Appendix A): what C12 proves the fit produces and
    what C11 / C01 may assume.  Non-strict where the code's own bounds are."""
    rng = And(T_min <= T_min_seg, T_min_seg <= T_max_seg, T_max_seg <= T_max)
    if shape == "tidd":
        return rng
    if shape == "hdd_tidd":
        return And(rng, T_min_seg <= hdd_bp, hdd_bp <= T_max_seg, hdd_beta < 0)
    if shape == "tidd_cdd":
        return And(rng, T_min_seg <= cdd_bp, cdd_bp <= T_max_seg, cdd_beta > 0)
    if shape == "hdd_tidd_smooth":
        return And(rng, T_min_seg <= hdd_bp, hdd_bp <= T_max_seg, hdd_beta < 0, hdd_k > 0)
    if shape == "tidd_cdd_smooth":
        return And(rng, T_min_seg <= cdd_bp, cdd_bp <= T_max_seg, cdd_beta > 0, cdd_k > 0)
    # NOTE: C12 proves more of a FITTED two-sided model (both balance points strictly inside the recorded range
    # unless they coincide: C12.bp_not_on_edge).  C11 quantifies over everything inside the optimiser's bounds,
    # which includes a balance point exactly on the edge, so adm does not exclude it (see `edge_drop`).
    two = And(rng, T_min_seg <= hdd_bp, hdd_bp <= cdd_bp, cdd_bp <= T_max_seg, hdd_beta > 0, cdd_beta > 0)
    if shape == "hdd_tidd_cdd":
        return two
    return And(two, 0 <= hdd_k, hdd_k <= 1, 0 <= cdd_k, cdd_k <= 1, Or(hdd_k > 0, cdd_k > 0))


def edge_corner(shape, hdd_bp, hdd_k, cdd_bp, cdd_k, T_min, T_max):
    """Witness class of known finding C11-edge: the two joints of the curve coincide and sit on the edge of
    the recorded temperature range.  The kernel then applies one regime's formula to every temperature."""
    [bph, kh, bpc, kc] = eff_points(shape, hdd_bp, hdd_k, cdd_bp, cdd_k)
    if bph is None and bpc is None:
        return False
    if bph is None:
        return Or(bpc >= T_max, bpc <= T_min)
    if bpc is None:
        return Or(bph >= T_max, bph <= T_min)
    return And(bph == bpc, Or(bph >= T_max, bph <= T_min))


def edge_drop(shape, hdd_bp, cdd_bp, T_min, T_max):
    """Witness class of known finding C11-edge-drop: a two-sided shape with DISTINCT balance points one of which
    lies on the edge of the recorded range.  The read-back step then removes that side's slope (and smoothing),
    so the curve is one-sided: the claims about the line/asymptote beyond that balance point and about the
    position of the smoothed joints do not hold there; monotonicity, continuity and the load identities do."""
    if shape in ["hdd_tidd_cdd", "hdd_tidd_cdd_smooth"]:
        return And(hdd_bp != cdd_bp, Or(cdd_bp >= T_max, hdd_bp <= T_min))
    return False


# ----------------------------------------------------------------------------- contract of the kernel

def absv(x):
    if x >= 0:
        return x
    return 0 - x


def curve7o(hdd_bp, hdd_beta, hdd_k, cdd_bp, cdd_beta, cdd_k, intercept, T_min, T_max, T):
    """The kernel for breakpoints already in order (hdd_bp <= cdd_bp)."""
    if hdd_beta == 0 and cdd_beta == 0:
        return intercept
    same = hdd_bp == cdd_bp
    if T < hdd_bp or (same and cdd_bp >= T_max):
        hb = 0 - hdd_beta
        if hb == 0:
            return intercept
        if hdd_k == 0:
            return hb * (T - hdd_bp) + intercept
        return absv(hb * hdd_k) * (exp(clip(1 / hdd_k * (T - hdd_bp))) - 1) + (hb * (T - hdd_bp) + intercept)
    if T > cdd_bp or (same and hdd_bp <= T_min):
        ck = 0 - cdd_k
        if cdd_beta == 0:
            return intercept
        if ck == 0:
            return cdd_beta * (T - cdd_bp) + intercept
        return absv(cdd_beta * ck) * (exp(clip(1 / ck * (T - cdd_bp))) - 1) + (cdd_beta * (T - cdd_bp) + intercept)
    return intercept


def curve7(hdd_bp, hdd_beta, hdd_k, cdd_bp, cdd_beta, cdd_k, intercept, T_min, T_max, T):
    """Value of the 7-parameter kernel `full_model` at one temperature: the heating formula left of the lower
    breakpoint, the cooling formula right of the upper one, the intercept between; breakpoints given in the
    wrong order are exchanged together with their slopes and smoothing lengths."""
    if cdd_bp < hdd_bp:
        return curve7o(cdd_bp, cdd_beta, cdd_k, hdd_bp, hdd_beta, hdd_k, intercept, T_min, T_max, T)
    return curve7o(hdd_bp, hdd_beta, hdd_k, cdd_bp, cdd_beta, cdd_k, intercept, T_min, T_max, T)
