"""Bounded part of C11 / C01: the proofs treat floats as reals (assumption A1); this part evaluates the REAL prediction path
(DailyModel.from_dict(...)._predict, i.e. get_full_model_x, get_smooth_coeffs, the numba kernel full_model, the load split) in IEEE
doubles on random admissible coefficient vectors of every shape -- including smoothing fractions that add up to 1 or more, tiny and
huge smoothing, balance points a hair apart and on the segment limits -- and dense temperature sweeps from -60F to 140F that contain
the balance points themselves, and checks every clause of the property numerically:
   formula    predicted == the documented piecewise formula evaluated from the JSON parameters (relative 1e-9);
   additive   base + heating + cooling == predicted exactly as computed (1e-9), loads >= 0, at most one non-zero;
   flat       between the (shifted) balance points the prediction is the base load;
   monotone   non-increasing in T below the heating joint, non-decreasing above the cooling joint;
   continuous adjacent sweep points differ by at most (max slope) * step * (1 + 1e-6)."""
import json
import logging
import warnings

import numpy as np
import pandas as pd

from bounded.common import Bounded, load_known

MODULE = "bounded.C11_floats"
logging.disable(logging.CRITICAL)
warnings.filterwarnings("ignore")
SHAPES = ["tidd", "hdd_tidd", "tidd_cdd", "hdd_tidd_smooth", "tidd_cdd_smooth", "hdd_tidd_cdd", "hdd_tidd_cdd_smooth"]


def coefficients(case):
    rng = np.random.default_rng(case["seed"])
    shape = case["shape"]
    T_min, T_max = 5.0, 98.0
    T_min_seg, T_max_seg = 12.0, 91.0
    mode = case["mode"]
    hb = float(rng.uniform(T_min_seg + 1, T_max_seg - 30))
    gap = {"close": float(rng.choice([1e-9, 1e-6, 1e-3, 0.5])), "edge": T_max_seg - 1 - hb}.get(mode, float(rng.uniform(0.5, 28)))
    cb = min(hb + gap, T_max_seg - 1)
    hs, cs = float(rng.uniform(0.05, 5)), float(rng.uniform(0.05, 5))
    kh, kc = float(rng.uniform(0, 1)), float(rng.uniform(0, 1))
    if mode == "full_smoothing":
        kh, kc = float(rng.uniform(0.4, 1)), float(rng.uniform(0.6, 1))          # fractions add up to 1 or more
    elif mode == "sum_one":
        kh = float(rng.uniform(0.05, 0.95))
        kc = 1.0 - kh
    elif mode == "tiny_k":
        kh, kc = float(rng.choice([0.0, 0.005, 0.0101, 0.02])), float(rng.choice([0.0, 0.009, 0.011, 0.015]))
    c = {"model_type": shape, "intercept": float(rng.uniform(-5, 60)), "hdd_bp": None, "hdd_beta": None, "hdd_k": None, "cdd_bp": None, "cdd_beta": None, "cdd_k": None}
    two = shape.startswith("hdd_tidd_cdd")
    smooth = shape.endswith("smooth")
    if "hdd" in shape:
        c["hdd_bp"] = hb
        c["hdd_beta"] = hs if two else -hs
        if smooth:
            c["hdd_k"] = kh if two else float(rng.choice([0.3, 2.0, 8.0, 25.0])) * (0.02 if mode == "tiny_k" else 1)
    if "cdd" in shape:
        c["cdd_bp"] = cb if two else float(rng.uniform(T_min_seg + 1, T_max_seg - 1))
        c["cdd_beta"] = cs
        if smooth:
            c["cdd_k"] = kc if two else float(rng.choice([0.3, 2.0, 8.0, 25.0])) * (0.02 if mode == "tiny_k" else 1)
    return c, {"T_min": T_min, "T_max": T_max, "T_min_seg": T_min_seg, "T_max_seg": T_max_seg}


def replay(case):
    from opendsm.eemeter.models.daily.model import DailyModel
    from bounded.C01_roundtrip import param_doc
    import contracts.spec_curve as S
    c, tc = coefficients(case)
    shape = case["shape"]
    doc = json.loads(json.dumps(param_doc("daily", shape, "unsplit", False), default=str))
    key = list(doc["submodels"])[0]
    doc["submodels"][key]["coefficients"] = dict(c)
    doc["submodels"][key]["temperature_constraints"] = dict(tc)
    m = DailyModel.from_dict(doc)
    hb, cb = c["hdd_bp"], c["cdd_bp"]
    pts = [p for p in (hb, cb) if p is not None]
    T = np.unique(np.concatenate([np.linspace(-60, 140, 801), np.array(pts), np.array([p + d for p in pts for d in (-1e-9, 1e-9, -1e-3, 1e-3)])]))
    idx = pd.date_range("2021-01-01", periods=len(T), freq="D", tz="America/Chicago")
    p = m._predict(pd.DataFrame({"temperature": T}, index=idx))
    E, hl, cl = p["predicted"].values.astype(float), p["heating_load"].values.astype(float), p["cooling_load"].values.astype(float)
    g = lambda k: 0.0 if c[k] is None else float(c[k])  # noqa: E731
    ref = np.array([float(S.documented(shape, g("hdd_bp"), g("hdd_beta"), g("hdd_k"), g("cdd_bp"), g("cdd_beta"), g("cdd_k"), c["intercept"], float(t))) for t in T])
    scale = max(1.0, float(np.max(np.abs(ref))))
    bad = []
    if not np.all(np.isfinite(E)):
        bad.append("non-finite prediction")
        return {"ok": False, "problems": bad}
    err = np.abs(E - ref)
    if err.max() > 1e-9 * scale:
        i = int(err.argmax())
        bad.append(f"formula: at T = {T[i]!r} predicted {E[i]!r}, the documented formula gives {ref[i]!r}")
    if np.max(np.abs(c["intercept"] + hl + cl - E)) > 1e-9 * scale:
        bad.append("additive: base + heating + cooling != predicted")
    if (hl < -1e-9 * scale).any() or (cl < -1e-9 * scale).any():
        bad.append(f"loads: negative load (min heating {hl.min()!r}, min cooling {cl.min()!r})")
    if ((np.abs(hl) > 1e-9 * scale) & (np.abs(cl) > 1e-9 * scale)).any():
        bad.append("loads: heating and cooling load both non-zero on one day")
    bph, kh, bpc, kc = S.eff_points(shape, g("hdd_bp"), g("hdd_k"), g("cdd_bp"), g("cdd_k"))
    lo = -np.inf if bph is None else float(bph)
    hi = np.inf if bpc is None else float(bpc)
    mid = (T >= lo + 1e-6) & (T <= hi - 1e-6)
    if mid.any() and np.max(np.abs(E[mid] - c["intercept"])) > 1e-9 * scale:
        bad.append("flat: the prediction between the balance points is not the base load")
    d = np.diff(E)
    below = T[1:] <= lo
    above = T[:-1] >= hi
    if (d[below] > 1e-9 * scale).any():
        bad.append("monotone: usage falls as it gets colder below the heating balance point")
    if (d[above] < -1e-9 * scale).any():
        bad.append("monotone: usage falls as it gets hotter above the cooling balance point")
    smax = max(abs(g("hdd_beta")), abs(g("cdd_beta")))
    jump = np.abs(d) - smax * np.diff(T) * (1 + 1e-6)
    if jump.max() > 1e-9 * scale:
        i = int(jump.argmax())
        bad.append(f"continuous: jump of {abs(d[i])!r} between T = {T[i]!r} and {T[i + 1]!r} (max slope {smax!r})")
    # whole-degree temperatures stored as integers (a daily feed rounded to degrees): same clauses on the integer sweep
    Ti = np.arange(-60, 141, dtype=np.int64)
    idx_i = pd.date_range("2021-01-01", periods=len(Ti), freq="D", tz="America/Chicago")
    q = m._predict(pd.DataFrame({"temperature": Ti}, index=idx_i))
    Ei, hli, cli = q["predicted"].values.astype(float), q["heating_load"].values.astype(float), q["cooling_load"].values.astype(float)
    ref_i = np.array([float(S.documented(shape, g("hdd_bp"), g("hdd_beta"), g("hdd_k"), g("cdd_bp"), g("cdd_beta"), g("cdd_k"), c["intercept"], float(t))) for t in Ti])
    if np.max(np.abs(Ei - ref_i)) > 1e-9 * scale:
        bad.append("formula (integer temperatures): predicted differs from the documented formula")
    if np.max(np.abs(c["intercept"] + hli + cli - Ei)) > 1e-9 * scale:
        i = int(np.argmax(np.abs(c["intercept"] + hli + cli - Ei)))
        bad.append(f"additive (integer temperatures): at T = {int(Ti[i])} base {c['intercept']!r} + heating {hli[i]!r} + cooling {cli[i]!r} != predicted {Ei[i]!r}")
    return {"ok": not bad, "problems": bad[:5], "coefficients": c}


def run(tier="quick", seed=0):
    b = Bounded("C11", "C11.floats", MODULE,
                "real DailyModel.from_dict(...)._predict in IEEE doubles for all seven shapes on random coefficient vectors (slopes 0.05-5, base load -5..60, balance points "
                "inside the segment limits; modes: generic, balance points 1e-9..0.5 apart, cooling point on the upper segment limit, smoothing fractions adding up to exactly 1 "
                "and to more than 1, fractions around the 0.01 cut-off) and an 801-point temperature sweep -60..140F plus the balance points and their 1e-9 / 1e-3 neighbours, and the whole-degree sweep stored as int64; "
                "formula, additivity, load signs / exclusivity, flat segment, monotonicity, continuity with relative tolerance 1e-9. distinct = case",
                known_findings=load_known("C11"))
    modes = ["generic", "close", "edge", "sum_one", "full_smoothing", "tiny_k"]
    n = 3 if tier == "quick" else 40
    k = 0
    for shape in SHAPES:
        for mode in modes:
            if mode in ("sum_one", "full_smoothing") and shape != "hdd_tidd_cdd_smooth":
                continue
            reps = n * (4 if shape == "hdd_tidd_cdd_smooth" else 1)
            if mode in ("sum_one", "full_smoothing"):
                reps = max(reps, 120)         # rounding effects at coinciding joints are rare (a few per cent of the vectors)
            for i in range(reps):
                k += 1
                case = {"shape": shape, "mode": mode, "seed": int(10000 * seed + k)}
                try:
                    r = replay(case)
                except Exception as e:  # noqa
                    import traceback
                    r = {"ok": False, "problems": [f"exception {type(e).__name__}: {e}", traceback.format_exc()[-400:]]}
                b.case("C11.floats." + shape, case, r["ok"], nontrivial_key=str(case), detail=r["problems"])
    return b.result()
